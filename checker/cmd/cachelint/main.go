package main

import (
	"encoding/json"
	"fmt"
	"os"
	"path/filepath"
	"runtime/debug"
	"sort"
	"strconv"
	"strings"
	"time"

	"cachelint/internal/core"
	"cachelint/internal/rules"
)

func usage() {
	fmt.Fprintln(os.Stderr, "usage: cachelint check <Cnn> [quick|thorough] | dump | explain <file> | list")
	os.Exit(2)
}

func main() {
	if len(os.Args) < 2 {
		usage()
	}
	switch os.Args[1] {
	case "dump":
		dump()
	case "check":
		if len(os.Args) < 3 {
			usage()
		}
		tier := "quick"
		if len(os.Args) > 3 {
			tier = os.Args[3]
		}
		if t := os.Getenv("VERIF_TIER"); t != "" && len(os.Args) <= 3 {
			tier = t
		}
		os.Exit(check(os.Args[2], tier))
	case "explain":
		if len(os.Args) < 3 {
			usage()
		}
		explain(os.Args[2])
	case "controls":
		which := "all"
		if len(os.Args) > 2 {
			which = os.Args[2]
		}
		os.Exit(controls(which))
	case "matrix":
		// development aid: run every registered property on one tree (no evidence written)
		dir := repoDir()
		if len(os.Args) > 2 {
			dir = os.Args[2]
		}
		os.Exit(matrix(dir))
	case "tables":
		pp, err := core.Load(core.LoadOpts{Dir: repoDir()})
		if err != nil {
			fmt.Println(err)
			os.Exit(2)
		}
		tw := 0
		if len(os.Args) > 2 {
			tw, _ = strconv.Atoi(os.Args[2])
		}
		rules.DumpTables(rules.NewRun(pp, "quick"), tw)
	case "paths":
		// development aid: print the abstract paths / decision table of a cache method
		if len(os.Args) < 4 {
			usage()
		}
		pp, err := core.Load(core.LoadOpts{Dir: repoDir()})
		if err != nil {
			fmt.Println(err)
			os.Exit(2)
		}
		tw, _ := strconv.Atoi(os.Args[2])
		rules.DumpPaths(rules.NewRun(pp, "quick"), tw, os.Args[3])
	case "ctor":
		p, err := core.Load(core.LoadOpts{Dir: repoDir()})
		if err != nil {
			fmt.Println(err)
			os.Exit(2)
		}
		for tw := 0; tw < 2; tw++ {
			rules.DumpCtor(rules.NewRun(p, "quick"), tw)
		}
	case "obs":
		// development aid: print every obligation of one property on the tree
		if len(os.Args) < 3 {
			usage()
		}
		p, err := core.Load(core.LoadOpts{Dir: repoDir()})
		if err != nil {
			fmt.Println(err)
			os.Exit(2)
		}
		rep := safeRun(rules.Registry[os.Args[2]], rules.NewRun(p, "quick"), os.Args[2])
		for _, o := range rep.Obs {
			fmt.Printf("[%s] %s @ %s :: %s\n", o.Status, o.Key(), o.Pos, o.Detail)
		}
	case "list":
		var ids []string
		for id := range rules.Registry {
			ids = append(ids, id)
		}
		sort.Strings(ids)
		fmt.Println(strings.Join(ids, " "))
	default:
		usage()
	}
}

func repoDir() string {
	if d := os.Getenv("CACHELINT_REPO"); d != "" {
		return d
	}
	return "/repo"
}

func verifDir() string {
	if d := os.Getenv("CACHELINT_VERIF"); d != "" {
		return d
	}
	return "/verif"
}

func seed() int64 {
	if s := os.Getenv("VERIF_SEED"); s != "" {
		if n, err := strconv.ParseInt(s, 10, 64); err == nil {
			return n
		}
	}
	return 0
}

type violationFile struct {
	Property  string             `json:"property"`
	Tier      string             `json:"tier"`
	Config    string             `json:"config"`
	Violation *core.Obligation   `json:"violation"`
	Others    []*core.Obligation `json:"other_failures,omitempty"`
	Replay    string             `json:"replay"`
}

func check(id, tier string) int {
	start := time.Now()
	pf, ok := rules.Registry[id]
	if !ok {
		fmt.Fprintf(os.Stderr, "unknown property %s\n", id)
		return 2
	}
	if tier != "quick" && tier != "thorough" {
		fmt.Fprintf(os.Stderr, "unknown tier %s\n", tier)
		return 2
	}
	archs := append([]string{""}, rules.ExtraArchs[id]...)
	if tier == "thorough" {
		archs = []string{"", "386", "arm64"}
	}
	var merged *core.Report
	var configs []string
	for _, arch := range archs {
		p, err := core.Load(core.LoadOpts{Dir: repoDir(), GOARCH: arch})
		cfgName := "GOARCH=" + arch
		if arch == "" {
			cfgName = "GOARCH=host(amd64)"
		}
		if err != nil {
			fmt.Printf("cachelint: cannot analyse %s under %s: %v\n", repoDir(), cfgName, err)
			if arch == "" {
				// nothing could be analysed: no verdict
				fmt.Printf("VIOLATION property=%s replay=%s\n", id, writeLoadFailure(id, tier, cfgName, err))
				return 1
			}
			fmt.Printf("VIOLATION property=%s replay=%s\n", id, writeLoadFailure(id, tier, cfgName, err))
			return 1
		}
		run := rules.NewRun(p, tier)
		rep := safeRun(pf, run, id)
		configs = append(configs, fmt.Sprintf("%s: %d packages, %d function bodies, %d obligations", cfgName, len(p.Pkgs), len(p.Funcs), len(rep.Obs)))
		if merged == nil {
			merged = rep
		} else {
			// further configurations: only keep their non-passing obligations and counts
			for _, o := range rep.Obs {
				if o.Status != core.Pass {
					c := *o
					c.Construct = c.Construct + " {" + cfgName + "}"
					merged.Obs = append(merged.Obs, &c)
				}
			}
			merged.Notes = append(merged.Notes, fmt.Sprintf("%s re-evaluated: %d obligations", cfgName, len(rep.Obs)))
		}
	}
	known, err := core.LoadKnown(filepath.Join(verifDir(), "known_findings.json"))
	if err != nil {
		fmt.Fprintln(os.Stderr, "known_findings.json:", err)
		return 2
	}
	v := merged.Verdict(known)
	var controls interface{}
	if rules.ControlsHook != nil && os.Getenv("CACHELINT_NOCONTROLS") == "" {
		controls = rules.ControlsHook(id, tier, seed(), repoDir())
	}
	meta := rules.Metas[id]
	wall := time.Since(start).Seconds()
	if err := merged.WriteEvidence(filepath.Join(verifDir(), "evidence"), tier, seed(), meta.Explanation, meta.Rule, meta.Assumptions, configs, controls, wall, v); err != nil {
		fmt.Fprintln(os.Stderr, "evidence:", err)
		return 2
	}
	pass, fail := 0, 0
	for _, o := range merged.Obs {
		if o.Status == core.Pass {
			pass++
		} else {
			fail++
		}
	}
	fmt.Printf("cachelint %s %s: %d obligations, %d discharged, %d not; %d functions, %d specialisations; %.2fs\n", id, tier, len(merged.Obs), pass, fail, len(merged.Analysed), len(merged.Specs), wall)
	for _, k := range v.Known {
		fmt.Println(k)
	}
	if len(v.Violations) == 0 {
		fmt.Printf("OK property=%s\n", id)
		return 0
	}
	vdir := filepath.Join(verifDir(), "evidence", "violations")
	os.MkdirAll(vdir, 0o755)
	for i, o := range v.Violations {
		kind := "violated"
		if o.Status == core.Undecided {
			kind = "UNDECIDED (analyser could not decide; counts as failure)"
		}
		fmt.Printf("  [%s] %s: %s\n      at %s: %s\n", kind, o.Rule, o.Construct, o.Pos, o.Detail)
		for _, w := range o.Witness {
			fmt.Printf("        path: %s\n", w)
		}
		path := filepath.Join(vdir, fmt.Sprintf("%s-%d.json", id, i+1))
		vf := violationFile{Property: id, Tier: tier, Violation: o, Replay: "bin/cachelint explain " + path}
		b, _ := json.MarshalIndent(vf, "", " ")
		os.WriteFile(path, append(b, '\n'), 0o644)
		fmt.Printf("VIOLATION property=%s replay=%s\n", id, path)
	}
	return 1
}

// controls runs the whole control battery (development aid / selftest): exit 1 if any control is blind or alarms falsely.
func controls(which string) int {
	var ids []string
	for id := range rules.Registry {
		if which == "all" || which == id {
			ids = append(ids, id)
		}
	}
	sort.Strings(ids)
	bad := 0
	for _, id := range ids {
		res := rules.ControlsHook(id, "thorough", seed(), repoDir())
		m, _ := res.(map[string]interface{})
		rs, _ := m["results"].([]rules.ControlResult)
		for _, r := range rs {
			mark := "  "
			if r.Outcome == "MISSED" || r.Outcome == "FALSE-ALARM" {
				mark = "!!"
				bad++
			}
			fmt.Printf("%s %s %-10s %-9s %-22s rules=%v  %s\n", mark, id, r.ID, r.Kind, r.Outcome, r.Rules, r.Note)
		}
	}
	if bad > 0 {
		fmt.Printf("%d control(s) blind or false-alarming\n", bad)
		return 1
	}
	return 0
}

func matrix(dir string) int {
	var ids []string
	for id := range rules.Registry {
		ids = append(ids, id)
	}
	sort.Strings(ids)
	progs := map[string]*core.Prog{}
	load := func(arch string) (*core.Prog, error) {
		if p, ok := progs[arch]; ok {
			return p, nil
		}
		p, err := core.Load(core.LoadOpts{Dir: dir, GOARCH: arch})
		if err == nil {
			progs[arch] = p
		}
		return p, err
	}
	rc := 0
	for _, id := range ids {
		rulesHit := map[string]bool{}
		var first string
		for _, arch := range append([]string{""}, rules.ExtraArchs[id]...) {
			p, err := load(arch)
			if err != nil {
				fmt.Printf("%s LOADFAIL %v\n", id, err)
				return 2
			}
			rep := safeRun(rules.Registry[id], rules.NewRun(p, "quick"), id)
			for _, o := range rep.Obs {
				if o.Status != core.Pass {
					rulesHit[o.Rule] = true
					if first == "" {
						first = fmt.Sprintf("%s @ %s: %s", o.Key(), o.Pos, o.Detail)
					}
				}
			}
		}
		var rs []string
		for k := range rulesHit {
			rs = append(rs, k)
		}
		sort.Strings(rs)
		if len(rs) == 0 {
			fmt.Printf("%s ok\n", id)
		} else {
			rc = 1
			if len(first) > 300 {
				first = first[:300]
			}
			fmt.Printf("%s FAIL %v :: %s\n", id, rs, first)
		}
	}
	return rc
}

func writeLoadFailure(id, tier, cfg string, err error) string {
	vdir := filepath.Join(verifDir(), "evidence", "violations")
	os.MkdirAll(vdir, 0o755)
	path := filepath.Join(vdir, id+"-load.json")
	o := &core.Obligation{Property: id, Rule: id + ".load", Construct: "load " + cfg, Pos: "-", Status: core.Undecided, Detail: "the tree could not be type-checked, nothing was analysed: " + err.Error()}
	b, _ := json.MarshalIndent(violationFile{Property: id, Tier: tier, Config: cfg, Violation: o, Replay: "bin/cachelint explain " + path}, "", " ")
	os.WriteFile(path, append(b, '\n'), 0o644)
	// evidence must still be rewritten
	rep := core.NewReport(id)
	rep.Obs = append(rep.Obs, o)
	meta := rules.Metas[id]
	rep.WriteEvidence(filepath.Join(verifDir(), "evidence"), tier, seed(), meta.Explanation, meta.Rule, meta.Assumptions, []string{cfg + ": load failed"}, nil, 0, core.Verdict{Violations: []*core.Obligation{o}})
	return path
}

func safeRun(pf rules.PropertyFunc, run *rules.Run, id string) (rep *core.Report) {
	defer func() {
		if e := recover(); e != nil {
			rep = core.NewReport(id)
			rep.Undecided(id+".panic", "analyser", "-", fmt.Sprintf("analyser panicked: %v", e))
			if os.Getenv("CACHELINT_STACK") != "" {
				fmt.Fprintf(os.Stderr, "%s: %v\n%s\n", id, e, debug.Stack())
			}
		}
	}()
	return pf(run)
}

// explain re-derives the named violation from the current tree and pretty-prints it.
func explain(path string) {
	b, err := os.ReadFile(path)
	if err != nil {
		fmt.Fprintln(os.Stderr, err)
		os.Exit(2)
	}
	var vf violationFile
	if err := json.Unmarshal(b, &vf); err != nil || vf.Violation == nil {
		fmt.Fprintln(os.Stderr, "not a violation file:", err)
		os.Exit(2)
	}
	fmt.Printf("recorded: property=%s rule=%s construct=%s\n  at %s: %s\n", vf.Property, vf.Violation.Rule, vf.Violation.Construct, vf.Violation.Pos, vf.Violation.Detail)
	pf, ok := rules.Registry[vf.Property]
	if !ok {
		os.Exit(2)
	}
	p, err := core.Load(core.LoadOpts{Dir: repoDir()})
	if err != nil {
		fmt.Println("current tree cannot be loaded:", err)
		os.Exit(1)
	}
	rep := safeRun(pf, rules.NewRun(p, "quick"), vf.Property)
	found := false
	for _, o := range rep.Obs {
		if o.Key() == vf.Violation.Key() && o.Status != core.Pass {
			found = true
			fmt.Printf("re-derived on current tree: [%s] %s\n  at %s: %s\n", o.Status, o.Key(), o.Pos, o.Detail)
			for _, w := range o.Witness {
				fmt.Println("    path:", w)
			}
		}
	}
	if !found {
		fmt.Println("not reproduced on the current tree (obligation now passes or construct no longer exists)")
		os.Exit(0)
	}
	os.Exit(1)
}

func dump() {
	p, err := core.Load(core.LoadOpts{Dir: repoDir()})
	if err != nil {
		fmt.Fprintln(os.Stderr, "load:", err)
		os.Exit(2)
	}
	m := core.BuildModel(p)
	fmt.Println("packages:", len(p.Pkgs), "functions:", len(p.Funcs))
	for _, mm := range m.Maps {
		fmt.Printf("map %s iface=%s core=%s resize=%s wait=%s copy=%s append=%s newTable=%s\n  tableT=%s bucketT=%v entryT=%s fields table=%s flag=%s mu=%s cond=%s lock=%s\n  addSize=%s addPlain=%s sumSize=%s inProg=%s newer=%s isEmpty=%s ctor=%d\n",
			mm.Name, mm.Iface, core.FuncName(mm.Core), core.FuncName(mm.Resize), core.FuncName(mm.Wait), core.FuncName(mm.Copy), core.FuncName(mm.Append), core.FuncName(mm.NewTable),
			mm.TableT, mm.BucketT, mm.EntryT, mm.TableF, mm.FlagF, mm.MuF, mm.CondF, mm.LockKind,
			core.FuncName(mm.AddSize), core.FuncName(mm.AddPlain), core.FuncName(mm.SumSize), core.FuncName(mm.InProg), core.FuncName(mm.NewerTbl), core.FuncName(mm.IsEmpty), len(mm.Ctor))
	}
	for f := range m.Acquire {
		fmt.Println("acquire helper:", core.FuncName(f))
	}
	for f := range m.Release {
		fmt.Println("release helper:", core.FuncName(f))
	}
	for i := 0; i < 2; i++ {
		if m.CacheT[i] != nil {
			fmt.Printf("cache %s wrapper=%s ctor=%s item=%s methods=%d\n", m.CacheT[i].Obj().Name(), m.WrapT[i].Obj().Name(), core.FuncName(m.CacheCtor[i]), m.ItemT[i], len(m.CacheM[i]))
		}
	}
	fmt.Println("problems:", m.Problems)
	e := core.ComputeEffects(m)
	var names []string
	byName := map[string][]string{}
	for _, f := range p.Funcs {
		n := core.FuncName(f)
		names = append(names, n)
		byName[n] = e.List(f)
	}
	sort.Strings(names)
	for _, n := range names {
		fmt.Printf("%-50s %v\n", n, byName[n])
	}
	fmt.Println("unknown external callees:", e.Unknown)
}

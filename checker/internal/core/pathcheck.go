package core

import (
	"fmt"
	"go/constant"
	"strings"

	"golang.org/x/tools/go/ssa"
)

// Node is a point of the product graph: a basic block entered in automaton state S.
type Node[S comparable] struct {
	B *ssa.BasicBlock
	S S
}

// Finding is one automaton complaint, with the product-graph node it occurred in.
type Finding[S comparable] struct {
	At    Node[S]
	Instr ssa.Instruction
	Msg   string
	Tag   string
}

// Machine is a finite automaton run over the SSA control-flow graph of one function
// under one constant specialisation of its parameters (property simulation).
type Machine[S comparable] struct {
	P    *Prog
	Fn   *ssa.Function
	Spec Spec
	Init S
	// Step consumes one instruction in state s and returns the successor states
	// (usually one). It reports through ctx.
	Step func(ctx *Ctx[S], s S, in ssa.Instruction) []S
	// Edge may refine the state along the idx-th successor edge of the block's
	// terminating If (idx 0 = true edge) or prune the edge (ok=false). Optional.
	Edge func(ctx *Ctx[S], s S, from *ssa.BasicBlock, idx int) (S, bool)

	// Inline, when set, tells which statically resolved callees are analysed in place: the automaton runs
	// through the callee's body from the current state and continues after the call with the states reached at
	// the callee's returns (helper functions extracted from the function under analysis).
	Inline func(callee *ssa.Function, site ssa.CallInstruction) bool
	// Visit, when set, sees every instruction in every state it is reached in - also the call instructions that are
	// then analysed in place (Step is not called for those).
	Visit func(ctx *Ctx[S], s S, in ssa.Instruction)

	parent   map[Node[S]]Node[S]
	Findings []Finding[S]
	Visited  int
	Exits    int
	memo     map[inlineKey[S]][]S
}

type inlineKey[S comparable] struct {
	site ssa.CallInstruction
	s    S
}

// Frame is one level of in-place analysis of a callee.
type Frame struct {
	Site   ssa.CallInstruction
	Callee *ssa.Function
	Up     *Frame
	Spec   Spec // the callee's specialisation at this site
}

// Ctx is handed to Step/Edge callbacks.
type Ctx[S comparable] struct {
	M     *Machine[S]
	Node  Node[S]
	Frame *Frame // non-nil while running inside an inlined callee
}

// Resolve maps a parameter of an inlined callee to the caller's argument (transitively up the frames).
func (c *Ctx[S]) Resolve(v ssa.Value) ssa.Value { return ResolveIn(c.Frame, v) }

// ResolveIn maps callee parameters to caller arguments along a frame chain.
func ResolveIn(fr *Frame, v ssa.Value) ssa.Value {
	for fr != nil {
		p, ok := v.(*ssa.Parameter)
		if !ok || p.Parent() != fr.Callee {
			// a parameter of an outer frame's callee may still be resolvable further up
			if ok {
				found := false
				for f2 := fr.Up; f2 != nil; f2 = f2.Up {
					if p.Parent() == f2.Callee {
						found = true
					}
				}
				if !found {
					return v
				}
				fr = fr.Up
				continue
			}
			return v
		}
		args := fr.Site.Common().Args
		idx := -1
		for i, q := range fr.Callee.Params {
			if q == p {
				idx = i
			}
		}
		if idx < 0 || idx >= len(args) {
			return v
		}
		v = args[idx]
		fr = fr.Up
	}
	return v
}

// CanonIn is the canonical name of an address in terms of the outermost frame: parameters of inlined callees
// are replaced by the address expressions passed for them.
func CanonIn(fr *Frame, addr ssa.Value) (string, ssa.Value) {
	a := Addr(addr)
	steps := a.Steps
	root := a.Root
	for i := 0; i < 6; i++ {
		r2 := ResolveIn(fr, root)
		if r2 == root {
			break
		}
		a2 := Addr(r2)
		steps = append(append([]string{}, a2.Steps...), steps...)
		root = a2.Root
	}
	n := "?"
	if root != nil {
		n = root.Name()
	}
	return n + "." + strings.Join(steps, "."), root
}

func (c *Ctx[S]) Report(in ssa.Instruction, tag, format string, a ...interface{}) {
	c.M.Findings = append(c.M.Findings, Finding[S]{At: c.Node, Instr: in, Tag: tag, Msg: fmt.Sprintf(format, a...)})
}

// Run explores every reachable (block, state) pair once (fixpoint over a finite state space).
func (m *Machine[S]) Run() {
	m.parent = map[Node[S]]Node[S]{}
	if len(m.Fn.Blocks) == 0 {
		return
	}
	start := Node[S]{m.Fn.Blocks[0], m.Init}
	seen := map[Node[S]]bool{start: true}
	work := []Node[S]{start}
	for len(work) > 0 {
		n := work[len(work)-1]
		work = work[:len(work)-1]
		m.Visited++
		ctx := &Ctx[S]{M: m, Node: n}
		states := []S{n.S}
		for _, in := range n.B.Instrs {
			var next []S
			for _, s := range states {
				if m.Visit != nil {
					m.Visit(ctx, s, in)
				}
				if out, done := m.tryInline(nil, s, in, 0); done {
					next = append(next, out...)
					continue
				}
				next = append(next, m.Step(ctx, s, in)...)
			}
			states = dedup(next)
			if len(states) == 0 {
				break
			}
			switch in.(type) {
			case *ssa.Return, *ssa.Panic:
				m.Exits++
			}
		}
		succs := m.Spec.Succs(n.B)
		for _, s := range states {
			for _, sb := range succs {
				ns := s
				if m.Edge != nil {
					idx := 0
					for i, x := range n.B.Succs {
						if x == sb {
							idx = i
						}
					}
					var ok bool
					ns, ok = m.Edge(ctx, s, n.B, idx)
					if !ok {
						continue
					}
				}
				m.thread(ctx, ns, n.B, sb, 0, func(tb *ssa.BasicBlock, ts S) {
					nn := Node[S]{tb, ts}
					if !seen[nn] {
						seen[nn] = true
						m.parent[nn] = n
						work = append(work, nn)
					}
				})
			}
		}
	}
}

// tryInline analyses a call of an inlinable callee in place and returns the states after the call.
func (m *Machine[S]) tryInline(up *Frame, s S, in ssa.Instruction, depth int) ([]S, bool) {
	if m.Inline == nil || depth > 3 {
		return nil, false
	}
	if rd, isRD := in.(*ssa.RunDefers); isRD {
		return m.runDefers(up, s, rd, depth)
	}
	c, ok := in.(*ssa.Call)
	if !ok {
		return nil, false
	}
	return m.inlineCall(up, s, c, depth)
}

// forwarder: a synthetic wrapper that only forwards to a method (bound method value, thunk).
func forwarder(f *ssa.Function) bool {
	return f != nil && (strings.Contains(f.Synthetic, "bound method wrapper") || strings.Contains(f.Synthetic, "thunk") || strings.Contains(f.Synthetic, "wrapper for"))
}

// runDefers executes, at the function's RunDefers point, the deferred calls whose callee is analysed in place
// (a clean-up helper registered with defer), last registered first. A defer whose registration dominates this point
// has run; one that merely may have been registered yields both outcomes. Deferred calls of other callees are left to
// Step (it sees the RunDefers instruction afterwards).
func (m *Machine[S]) runDefers(up *Frame, s S, rd *ssa.RunDefers, depth int) ([]S, bool) {
	f := rd.Parent()
	var ds []*ssa.Defer
	for _, b := range f.Blocks {
		for _, x := range b.Instrs {
			if d, ok := x.(*ssa.Defer); ok {
				if cal := Callee(d); cal != nil && cal.Blocks != nil && (m.Inline(cal, d) || forwarder(cal)) {
					ds = append(ds, d)
				}
			}
		}
	}
	if len(ds) == 0 {
		return nil, false
	}
	states := []S{s}
	for i := len(ds) - 1; i >= 0; i-- {
		d := ds[i]
		dom := d.Block().Dominates(rd.Block()) || d.Block() == rd.Block()
		if !dom && !reachesBlock(d.Block(), rd.Block()) {
			continue // cannot have been registered on a path to this return
		}
		var next []S
		for _, st := range states {
			out, done := m.inlineCall(up, st, d, depth)
			if !done {
				next = append(next, st)
				continue
			}
			next = append(next, out...)
			if !dom {
				next = append(next, st) // the defer may not have been registered on this path
			}
		}
		states = dedup(next)
	}
	// let Step see the RunDefers too (deferred lock releases and the like are its business)
	var final []S
	ctx := &Ctx[S]{M: m, Node: Node[S]{rd.Block(), s}, Frame: up}
	for _, st := range states {
		final = append(final, m.Step(ctx, st, rd)...)
	}
	return dedup(final), true
}

func reachesBlock(from, to *ssa.BasicBlock) bool {
	seen := map[*ssa.BasicBlock]bool{}
	var walk func(b *ssa.BasicBlock) bool
	walk = func(b *ssa.BasicBlock) bool {
		if b == to {
			return true
		}
		if seen[b] {
			return false
		}
		seen[b] = true
		for _, n := range b.Succs {
			if walk(n) {
				return true
			}
		}
		return false
	}
	return walk(from)
}

func (m *Machine[S]) inlineCall(up *Frame, s S, c ssa.CallInstruction, depth int) ([]S, bool) {
	cal := Callee(c)
	if cal == nil || cal.Blocks == nil || !(m.Inline(cal, c) || forwarder(cal)) {
		return nil, false
	}
	for f := up; f != nil; f = f.Up {
		if f.Callee == cal {
			return nil, false // recursion
		}
	}
	if m.memo == nil {
		m.memo = map[inlineKey[S]][]S{}
	}
	key := inlineKey[S]{c, s}
	if out, ok := m.memo[key]; ok {
		return out, true
	}
	m.memo[key] = nil
	fr := &Frame{Site: c, Callee: cal, Up: up}
	// specialise the callee on constant arguments and on arguments the enclosing specialisation fixes
	cur := m.Spec
	if up != nil && up.Spec != nil {
		cur = up.Spec
	}
	sp := cur.SpecFor(c, cal)
	fr.Spec = sp
	var exits []S
	seen := map[Node[S]]bool{}
	start := Node[S]{cal.Blocks[0], s}
	seen[start] = true
	work := []Node[S]{start}
	for len(work) > 0 {
		n := work[len(work)-1]
		work = work[:len(work)-1]
		ctx := &Ctx[S]{M: m, Node: n, Frame: fr}
		states := []S{n.S}
		returned := false
		for _, x := range n.B.Instrs {
			if _, isRet := x.(*ssa.Return); isRet {
				exits = append(exits, states...)
				returned = true
				break
			}
			if _, isPanic := x.(*ssa.Panic); isPanic {
				states = nil
				break
			}
			var next []S
			for _, st := range states {
				if m.Visit != nil {
					m.Visit(ctx, st, x)
				}
				if out, done := m.tryInline(fr, st, x, depth+1); done {
					next = append(next, out...)
					continue
				}
				next = append(next, m.Step(ctx, st, x)...)
			}
			states = dedup(next)
			if len(states) == 0 {
				break
			}
		}
		if returned {
			continue
		}
		for _, st := range states {
			for _, sb := range sp.Succs(n.B) {
				ns := st
				if m.Edge != nil {
					idx := 0
					for i, x := range n.B.Succs {
						if x == sb {
							idx = i
						}
					}
					var ok bool
					ns, ok = m.Edge(ctx, st, n.B, idx)
					if !ok {
						continue
					}
				}
				m.thread(ctx, ns, n.B, sb, 0, func(tb *ssa.BasicBlock, ts S) {
					nn := Node[S]{tb, ts}
					if !seen[nn] {
						seen[nn] = true
						work = append(work, nn)
					}
				})
			}
		}
	}
	exits = dedup(exits)
	m.memo[key] = exits
	return exits, true
}

// condJoin: the block only joins the outcome of a short-circuit condition (a || b, a && b evaluated as a value) and
// branches on it: phis (and debug references) followed by an If on one of those phis, which has no other use.
func condJoin(b *ssa.BasicBlock) (*ssa.Phi, bool) {
	if len(b.Instrs) < 2 {
		return nil, false
	}
	iff, ok := b.Instrs[len(b.Instrs)-1].(*ssa.If)
	if !ok {
		return nil, false
	}
	ph, ok := iff.Cond.(*ssa.Phi)
	if !ok || ph.Block() != b {
		return nil, false
	}
	for _, in := range b.Instrs[:len(b.Instrs)-1] {
		switch in.(type) {
		case *ssa.Phi, *ssa.DebugRef:
		default:
			return nil, false
		}
	}
	for _, ref := range *ph.Referrers() {
		switch ref.(type) {
		case *ssa.If, *ssa.DebugRef:
		default:
			return nil, false
		}
	}
	return ph, true
}

// thread delivers state s to block to, entered from block from. A block that only joins and tests a short-circuit
// condition is not entered: coming from a given predecessor the tested value is that predecessor's operand of the
// phi - a constant decides the branch, any other operand is offered to Edge as the condition of the branch (through a
// stand-in block), exactly as if the source had branched on it directly.
func (m *Machine[S]) thread(ctx *Ctx[S], s S, from, to *ssa.BasicBlock, depth int, emit func(*ssa.BasicBlock, S)) {
	ph, ok := condJoin(to)
	if !ok || depth > 6 {
		emit(to, s)
		return
	}
	pi, n := -1, 0
	for i, p := range to.Preds {
		if p == from {
			pi = i
			n++
		}
	}
	if n != 1 {
		emit(to, s)
		return
	}
	e := ph.Edges[pi]
	if c, isC := e.(*ssa.Const); isC && c.Value != nil && c.Value.Kind() == constant.Bool {
		idx := 1
		if constant.BoolVal(c.Value) {
			idx = 0
		}
		m.thread(ctx, s, to, to.Succs[idx], depth+1, emit)
		return
	}
	stand := &ssa.BasicBlock{Index: to.Index, Comment: to.Comment, Instrs: []ssa.Instruction{&ssa.If{Cond: e}}, Succs: to.Succs, Preds: to.Preds}
	for idx, tb := range to.Succs {
		ns := s
		if m.Edge != nil {
			var keep bool
			ns, keep = m.Edge(ctx, s, stand, idx)
			if !keep {
				continue
			}
		}
		m.thread(ctx, ns, to, tb, depth+1, emit)
	}
}

func dedup[S comparable](in []S) []S {
	if len(in) < 2 {
		return in
	}
	seen := map[S]bool{}
	var out []S
	for _, s := range in {
		if !seen[s] {
			seen[s] = true
			out = append(out, s)
		}
	}
	return out
}

// Trace renders the block path from entry to n as "b<idx>(<comment>) file:line [state]".
func (m *Machine[S]) Trace(n Node[S]) []string {
	var rev []Node[S]
	cur := n
	for i := 0; i < 10000; i++ {
		rev = append(rev, cur)
		p, ok := m.parent[cur]
		if !ok {
			break
		}
		cur = p
	}
	var out []string
	for i := len(rev) - 1; i >= 0; i-- {
		b := rev[i].B
		pos := "-"
		for _, in := range b.Instrs {
			if in.Pos().IsValid() {
				pos = m.P.Pos(in.Pos())
				break
			}
		}
		out = append(out, fmt.Sprintf("b%d(%s) %s [%v]", b.Index, b.Comment, pos, rev[i].S))
	}
	if len(out) > 40 {
		out = append(out[:20], append([]string{"..."}, out[len(out)-19:]...)...)
	}
	return out
}

package core

import (
	"fmt"

	"golang.org/x/tools/go/ssa"
)

// Node is a point of the product graph: a basic block entered in automaton state S.
type Node[S comparable] struct {
	B *ssa.BasicBlock
	S S
}

// Finding is one automaton complaint, with the product-graph node it occurred in.
type Finding[S comparable] struct {
	At    Node[S]
	Instr ssa.Instruction
	Msg   string
	Tag   string
}

// Machine is a finite automaton run over the SSA control-flow graph of one function
// under one constant specialisation of its parameters (property simulation).
type Machine[S comparable] struct {
	P    *Prog
	Fn   *ssa.Function
	Spec Spec
	Init S
	// Step consumes one instruction in state s and returns the successor states
	// (usually one). It reports through ctx.
	Step func(ctx *Ctx[S], s S, in ssa.Instruction) []S
	// Edge may refine the state along the idx-th successor edge of the block's
	// terminating If (idx 0 = true edge) or prune the edge (ok=false). Optional.
	Edge func(ctx *Ctx[S], s S, from *ssa.BasicBlock, idx int) (S, bool)

	parent   map[Node[S]]Node[S]
	Findings []Finding[S]
	Visited  int
	Exits    int
}

// Ctx is handed to Step/Edge callbacks.
type Ctx[S comparable] struct {
	M    *Machine[S]
	Node Node[S]
}

func (c *Ctx[S]) Report(in ssa.Instruction, tag, format string, a ...interface{}) {
	c.M.Findings = append(c.M.Findings, Finding[S]{At: c.Node, Instr: in, Tag: tag, Msg: fmt.Sprintf(format, a...)})
}

// Run explores every reachable (block, state) pair once (fixpoint over a finite state space).
func (m *Machine[S]) Run() {
	m.parent = map[Node[S]]Node[S]{}
	if len(m.Fn.Blocks) == 0 {
		return
	}
	start := Node[S]{m.Fn.Blocks[0], m.Init}
	seen := map[Node[S]]bool{start: true}
	work := []Node[S]{start}
	for len(work) > 0 {
		n := work[len(work)-1]
		work = work[:len(work)-1]
		m.Visited++
		ctx := &Ctx[S]{M: m, Node: n}
		states := []S{n.S}
		for _, in := range n.B.Instrs {
			var next []S
			for _, s := range states {
				next = append(next, m.Step(ctx, s, in)...)
			}
			states = dedup(next)
			if len(states) == 0 {
				break
			}
			switch in.(type) {
			case *ssa.Return, *ssa.Panic:
				m.Exits++
			}
		}
		succs := m.Spec.Succs(n.B)
		for _, s := range states {
			for _, sb := range succs {
				ns := s
				if m.Edge != nil {
					idx := 0
					for i, x := range n.B.Succs {
						if x == sb {
							idx = i
						}
					}
					var ok bool
					ns, ok = m.Edge(ctx, s, n.B, idx)
					if !ok {
						continue
					}
				}
				nn := Node[S]{sb, ns}
				if !seen[nn] {
					seen[nn] = true
					m.parent[nn] = n
					work = append(work, nn)
				}
			}
		}
	}
}

func dedup[S comparable](in []S) []S {
	if len(in) < 2 {
		return in
	}
	seen := map[S]bool{}
	var out []S
	for _, s := range in {
		if !seen[s] {
			seen[s] = true
			out = append(out, s)
		}
	}
	return out
}

// Trace renders the block path from entry to n as "b<idx>(<comment>) file:line [state]".
func (m *Machine[S]) Trace(n Node[S]) []string {
	var rev []Node[S]
	cur := n
	for i := 0; i < 10000; i++ {
		rev = append(rev, cur)
		p, ok := m.parent[cur]
		if !ok {
			break
		}
		cur = p
	}
	var out []string
	for i := len(rev) - 1; i >= 0; i-- {
		b := rev[i].B
		pos := "-"
		for _, in := range b.Instrs {
			if in.Pos().IsValid() {
				pos = m.P.Pos(in.Pos())
				break
			}
		}
		out = append(out, fmt.Sprintf("b%d(%s) %s [%v]", b.Index, b.Comment, pos, rev[i].S))
	}
	if len(out) > 40 {
		out = append(out[:20], append([]string{"..."}, out[len(out)-19:]...)...)
	}
	return out
}

package core

import (
	"fmt"
	"go/constant"
	"go/token"
	"go/types"
	"strings"
	"sync"

	"golang.org/x/tools/go/ssa"
)

// Callee returns the statically resolved callee of a call (origin body for
// generic instantiations), or nil for dynamic calls (closures values, invoke).
func Callee(c ssa.CallInstruction) *ssa.Function {
	f := c.Common().StaticCallee()
	if f == nil {
		return nil
	}
	if o := f.Origin(); o != nil {
		return o
	}
	return f
}

// CalleeID is "pkgpath.Name" / "(pkgpath.T).Name" for a static callee, "" otherwise.
func CalleeID(c ssa.CallInstruction) string {
	f := Callee(c)
	if f == nil {
		return ""
	}
	return FuncID(f)
}

// FuncID is the package-path-qualified identity of a function: "sync/atomic.LoadPointer",
// "(*sync.Mutex).Lock", "(time.Time).Add".
func FuncID(f *ssa.Function) string {
	if f == nil {
		return ""
	}
	if o := f.Object(); o != nil {
		if fn, ok := o.(*types.Func); ok {
			return fn.FullName()
		}
	}
	if f.Pkg != nil {
		return f.Pkg.Pkg.Path() + "." + f.Name()
	}
	return f.Name()
}

// IsBuiltinCall reports the builtin's name for calls such as len, append, close.
func IsBuiltinCall(c ssa.CallInstruction) string {
	if b, ok := c.Common().Value.(*ssa.Builtin); ok {
		return b.Name()
	}
	return ""
}

// StripConv removes pointer/unsafe conversions and ChangeType wrappers (identity for provenance).
func StripConv(v ssa.Value) ssa.Value {
	for {
		switch x := v.(type) {
		case *ssa.Convert:
			v = x.X
		case *ssa.ChangeType:
			v = x.X
		default:
			return v
		}
	}
}

// AddrPath describes an address expression: the root value it is derived from and the
// list of field / index steps ("bucket", "keys", "[]").
type AddrPath struct {
	Root  ssa.Value
	Steps []string
	// Owner/Field: innermost named struct type and field of the last FieldAddr step
	// (array index steps are appended to Field as "[]").
	Owner string
	Field string
}

func namedOf(t types.Type) string {
	for {
		switch x := t.(type) {
		case *types.Pointer:
			t = x.Elem()
			continue
		case *types.Named:
			return x.Obj().Name()
		}
		return ""
	}
}

func structOf(t types.Type) *types.Struct {
	if p, ok := t.Underlying().(*types.Pointer); ok {
		t = p.Elem()
	}
	s, _ := t.Underlying().(*types.Struct)
	return s
}

// Addr decomposes an address value through FieldAddr / IndexAddr chains.
func Addr(v ssa.Value) AddrPath {
	var steps []string
	owner, field := "", ""
	suffix := ""
	for {
		v = StripConv(v)
		switch x := v.(type) {
		case *ssa.FieldAddr:
			st := structOf(x.X.Type())
			fname := fmt.Sprintf("#%d", x.Field)
			if st != nil && x.Field < st.NumFields() {
				fname = st.Field(x.Field).Name()
			}
			steps = append([]string{fname}, steps...)
			if field == "" {
				owner = namedOf(x.X.Type())
				field = fname + suffix
			}
			v = x.X
			continue
		case *ssa.IndexAddr:
			steps = append([]string{"[]"}, steps...)
			if field == "" {
				suffix = "[]" + suffix
			}
			v = x.X
			continue
		}
		break
	}
	if field == "" && suffix != "" {
		field = suffix
	}
	return AddrPath{Root: v, Steps: steps, Owner: owner, Field: field}
}

// Key is "Owner.Field", e.g. "bucket.keys[]", "Map.table", "counterStripe.c".
func (a AddrPath) Key() string {
	if a.Owner == "" {
		return a.Field
	}
	return a.Owner + "." + a.Field
}

// Canon is a canonical string for the address within one function: root value name + steps.
// Embedded-struct hops that name a promoted struct (e.g. ".bucket") are kept; recomputed
// FieldAddr chains of the same root and steps compare equal.
func (a AddrPath) Canon() string {
	n := "?"
	if a.Root != nil {
		n = a.Root.Name()
	}
	return n + "." + strings.Join(a.Steps, ".")
}

// ConstBool returns (value, true) when v is a boolean constant.
func ConstBool(v ssa.Value) (bool, bool) {
	if c, ok := v.(*ssa.Const); ok && c.Value != nil && c.Value.Kind() == constant.Bool {
		return constant.BoolVal(c.Value), true
	}
	return false, false
}

// ConstInt returns (value, true) when v is an integer constant (through conversions).
func ConstInt(v ssa.Value) (int64, bool) {
	v = StripConv(v)
	if c, ok := v.(*ssa.Const); ok && c.Value != nil && c.Value.Kind() == constant.Int {
		i, ok := constant.Int64Val(c.Value)
		return i, ok
	}
	// a boolean flag word (atomic.Bool): false / true are its 0 / 1
	if c, ok := v.(*ssa.Const); ok && c.Value != nil && c.Value.Kind() == constant.Bool {
		if constant.BoolVal(c.Value) {
			return 1, true
		}
		return 0, true
	}
	return 0, false
}

// IsNilConst reports whether v is the nil / zero constant.
func IsNilConst(v ssa.Value) bool {
	c, ok := StripConv(v).(*ssa.Const)
	return ok && c.Value == nil
}

// AtomicOp classifies a sync/atomic call: op in {"Load","Store","Add","CAS","Swap"} and the address operand.
// Both the function forms (atomic.LoadUint64(&x)) and the methods of the typed atomics of Go 1.19
// (x.Load() on atomic.Int64 / Uint64 / Int32 / Uint32 / Uintptr / Bool / Pointer[T]) are recognised; for the
// methods the address operand is the receiver. atomic.Value is not an atomic word in this sense.
func AtomicOp(c ssa.CallInstruction) (op string, addr ssa.Value, ok bool) {
	if op, addr, ok = rawAtomicOp(c); ok {
		return
	}
	// an accessor: a one-block function that does nothing but one atomic operation on a field of its receiver
	// (m.getTable(), m.setTable(t), m.resizeFlag()) is that operation; the address is the accessor's own field address,
	// which classifies (owner type, field) like any other
	if cal := Callee(c); cal != nil && cal.Blocks != nil && len(cal.Params) > 0 {
		if _, allowed := accessorOwners.Load(namedOf(cal.Params[0].Type())); allowed {
			if a := atomicAccessor(cal); a != nil {
				return a.op, a.addr, true
			}
		}
	}
	return "", nil, false
}

// accessorOwners: the struct types (by name) whose one-operation accessors are transparent: the map types and the
// struct that holds their resize state. Bucket-level helpers are analysed by the rules that know them.
var accessorOwners sync.Map

func RegisterAccessorOwner(name string) {
	if name != "" {
		accessorOwners.Store(name, true)
	}
}

// AtomicBase is the value, in the function containing c, that the operated word's address is derived from: the
// address operand itself, or the receiver argument of an accessor.
func AtomicBase(c ssa.CallInstruction) ssa.Value {
	if _, addr, ok := rawAtomicOp(c); ok {
		return addr
	}
	if len(c.Common().Args) > 0 {
		return c.Common().Args[0]
	}
	return nil
}

// IsAccessorCall: c is a call of a transparent accessor (not the atomic operation itself).
func IsAccessorCall(c ssa.CallInstruction) bool {
	if _, _, ok := rawAtomicOp(c); ok {
		return false
	}
	_, _, ok := AtomicOp(c)
	return ok
}

type accessorInfo struct {
	op   string
	addr ssa.Value
	call *ssa.Call // the atomic operation inside the accessor
}

// AtomicArgs are the operands of the atomic operation after the address (the stored value; old and new of a CAS), as
// values of the function containing c: an accessor's parameters are replaced by the call's arguments.
func AtomicArgs(c ssa.CallInstruction) []ssa.Value {
	if _, _, ok := rawAtomicOp(c); ok {
		return c.Common().Args[1:]
	}
	cal := Callee(c)
	if cal == nil || cal.Blocks == nil {
		return nil
	}
	a := atomicAccessor(cal)
	if a == nil {
		return nil
	}
	var out []ssa.Value
	for _, v := range a.call.Call.Args[1:] {
		switch x := StripConv(v).(type) {
		case *ssa.Parameter:
			for i, p := range cal.Params {
				if p == x && i < len(c.Common().Args) {
					out = append(out, c.Common().Args[i])
				}
			}
		default:
			out = append(out, x)
		}
	}
	return out
}

// AtomicLastArg: the stored / new value of a writing atomic operation, nil if there is none.
func AtomicLastArg(c ssa.CallInstruction) ssa.Value {
	as := AtomicArgs(c)
	if len(as) == 0 {
		return nil
	}
	return as[len(as)-1]
}

// AtomicAccessor reports whether f is a transparent accessor of one atomic word.
func AtomicAccessor(f *ssa.Function) bool {
	if f == nil || f.Blocks == nil || len(f.Params) == 0 {
		return false
	}
	if _, allowed := accessorOwners.Load(namedOf(f.Params[0].Type())); !allowed {
		return false
	}
	return atomicAccessor(f) != nil
}

func atomicAccessor(f *ssa.Function) *accessorInfo {
	// not memoised: keyed by function it would keep every analysed program alive (the controls battery loads thousands)
	if len(f.Blocks) == 0 || len(f.Blocks) > 6 || len(f.Params) == 0 || f.Pkg == nil || f.Pkg.Pkg.Path() == "sync/atomic" {
		return nil
	}
	if _, isPtr := f.Params[0].Type().Underlying().(*types.Pointer); !isPtr {
		return nil
	}
	// one atomic operation on a field of the receiver and one return of its result; besides that only sanity checks
	// that panic (nil receiver, nil loaded pointer): tests of the receiver / the result against nil whose other edge panics
	var call ssa.CallInstruction
	var found *accessorInfo
	nRet := 0
	for _, b := range f.Blocks {
		for _, in := range b.Instrs {
			switch x := in.(type) {
			case *ssa.FieldAddr, *ssa.Convert, *ssa.ChangeType, *ssa.DebugRef, *ssa.Jump:
			case *ssa.MakeInterface:
				if _, isC := x.X.(*ssa.Const); !isC {
					return nil
				}
			case *ssa.Panic:
				if len(f.Blocks) == 1 {
					return nil
				}
			case *ssa.BinOp:
				if (x.Op != token.EQL && x.Op != token.NEQ) || !(IsNilConst(x.X) || IsNilConst(x.Y)) {
					return nil
				}
			case *ssa.If:
				if _, isCmp := x.Cond.(*ssa.BinOp); !isCmp {
					return nil
				}
			case *ssa.Call:
				if call != nil {
					return nil
				}
				op, addr, ok := rawAtomicOp(x)
				if !ok {
					return nil
				}
				base := addr
				for {
					fa, ok := base.(*ssa.FieldAddr)
					if !ok {
						break
					}
					base = fa.X
				}
				if base != ssa.Value(f.Params[0]) || base == addr {
					return nil
				}
				for _, a := range x.Call.Args[1:] {
					switch StripConv(a).(type) {
					case *ssa.Parameter, *ssa.Const:
					default:
						return nil
					}
				}
				call = x
				found = &accessorInfo{op, addr, x}
			case *ssa.Return:
				nRet++
				for _, r := range x.Results {
					if call == nil || StripConv(r) != call.Value() {
						if ex, ok := StripConv(r).(*ssa.Extract); !ok || call == nil || ex.Tuple != call.Value() {
							return nil
						}
					}
				}
			default:
				return nil
			}
		}
	}
	if nRet != 1 || found == nil {
		return nil
	}
	// the operation is on every path to the return
	if len(f.Blocks) > 1 {
		var retBlock *ssa.BasicBlock
		for _, b := range f.Blocks {
			if _, ok := b.Instrs[len(b.Instrs)-1].(*ssa.Return); ok {
				retBlock = b
			}
		}
		if retBlock == nil || !(call.Block() == retBlock || call.Block().Dominates(retBlock)) {
			return nil
		}
	}
	return found
}

func rawAtomicOp(c ssa.CallInstruction) (op string, addr ssa.Value, ok bool) {
	id := CalleeID(c)
	args := c.Common().Args
	if len(args) == 0 {
		return "", nil, false
	}
	name := ""
	switch {
	case strings.HasPrefix(id, "sync/atomic."):
		name = strings.TrimPrefix(id, "sync/atomic.")
	case strings.HasPrefix(id, "(*sync/atomic.") && !strings.HasPrefix(id, "(*sync/atomic.Value)"):
		if i := strings.LastIndex(id, ")."); i >= 0 {
			name = id[i+2:]
		}
	default:
		return "", nil, false
	}
	switch {
	case strings.HasPrefix(name, "Load"):
		return "Load", args[0], true
	case strings.HasPrefix(name, "Store"):
		return "Store", args[0], true
	case strings.HasPrefix(name, "Add"), strings.HasPrefix(name, "And"), strings.HasPrefix(name, "Or"):
		return "Add", args[0], true
	case strings.HasPrefix(name, "CompareAndSwap"):
		return "CAS", args[0], true
	case strings.HasPrefix(name, "Swap"):
		return "Swap", args[0], true
	}
	return "", nil, false
}

// IsAtomicPointerType reports whether t is unsafe.Pointer or sync/atomic.Pointer[T] (a pointer-sized word that
// holds a pointer), IsAtomicWordType whether it is a typed atomic integer.
func IsAtomicPointerType(t types.Type) bool {
	if b, ok := t.Underlying().(*types.Basic); ok && b.Kind() == types.UnsafePointer {
		return true
	}
	if n, ok := t.(*types.Named); ok && n.Obj().Pkg() != nil && n.Obj().Pkg().Path() == "sync/atomic" && n.Obj().Name() == "Pointer" {
		return true
	}
	return false
}

func IsAtomicWordType(t types.Type) bool {
	if n, ok := t.(*types.Named); ok && n.Obj().Pkg() != nil && n.Obj().Pkg().Path() == "sync/atomic" {
		switch n.Obj().Name() {
		case "Int64", "Uint64", "Int32", "Uint32", "Uintptr", "Bool":
			return true
		}
	}
	return false
}

// Specialisation fixes boolean / integer parameters to constants.
type Spec map[*ssa.Parameter]constant.Value

func (s Spec) String(f *ssa.Function) string {
	if len(s) == 0 {
		return ""
	}
	var parts []string
	for _, p := range f.Params {
		if v, ok := s[p]; ok {
			parts = append(parts, p.Name()+"="+v.String())
		}
	}
	return "[" + strings.Join(parts, ",") + "]"
}

// Eval folds a value under the specialisation: parameters, !x, x==c / x!=c on constants.
func (s Spec) Eval(v ssa.Value) (constant.Value, bool) { return s.eval(v, 0) }

// eval: d is the nesting depth of helper-result evaluations (bounded in evalCallResult; no shared counter: rule sets
// run concurrently in the controls battery).
func (s Spec) eval(v ssa.Value, d int) (constant.Value, bool) {
	switch x := v.(type) {
	case *ssa.Const:
		if x.Value != nil {
			return x.Value, true
		}
	case *ssa.Parameter:
		if c, ok := s[x]; ok {
			return c, true
		}
	case *ssa.Extract:
		// a result of an in-package helper that is the same constant on every return reachable under the helper's own
		// specialisation by the (constant or specialised) arguments of this call: 'newLen, copyOver := m.nextTable(t, hint)'
		if call, ok := x.Tuple.(*ssa.Call); ok {
			if c, ok := s.evalCallResult(call, x.Index, d); ok {
				return c, true
			}
		}
	case *ssa.Call:
		if x.Type() != nil {
			if _, isTuple := x.Type().(*types.Tuple); !isTuple {
				if c, ok := s.evalCallResult(x, 0, d); ok {
					return c, true
				}
			}
		}
	case *ssa.UnOp:
		if x.Op == token.NOT {
			if c, ok := s.eval(x.X, d); ok && c.Kind() == constant.Bool {
				return constant.MakeBool(!constant.BoolVal(c)), true
			}
		}
	case *ssa.BinOp:
		// p == nil / p != nil for a pointer that is provably a fresh allocation under this specialisation
		if x.Op == token.EQL || x.Op == token.NEQ {
			for _, pr := range [][2]ssa.Value{{x.X, x.Y}, {x.Y, x.X}} {
				if IsNilConst(pr[1]) && s.nonNil(pr[0], 0) {
					return constant.MakeBool(x.Op == token.NEQ), true
				}
			}
		}
		a, ok1 := s.eval(x.X, d)
		b, ok2 := s.eval(x.Y, d)
		if ok1 && ok2 {
			switch x.Op {
			case token.EQL, token.NEQ, token.LSS, token.LEQ, token.GTR, token.GEQ:
				if a.Kind() == b.Kind() && (a.Kind() == constant.Int || a.Kind() == constant.Bool || a.Kind() == constant.String) {
					if a.Kind() == constant.Bool {
						eq := constant.BoolVal(a) == constant.BoolVal(b)
						if x.Op == token.EQL {
							return constant.MakeBool(eq), true
						}
						if x.Op == token.NEQ {
							return constant.MakeBool(!eq), true
						}
						return nil, false
					}
					return constant.MakeBool(constant.Compare(a, x.Op, b)), true
				}
			}
		}
	case *ssa.Phi:
		// only phis whose incoming values are all literal constants (no recursion through loops)
		var res constant.Value
		for _, e := range x.Edges {
			c, ok := e.(*ssa.Const)
			if !ok || c.Value == nil {
				return nil, false
			}
			if res == nil {
				res = c.Value
			} else if res.Kind() != c.Value.Kind() || !constant.Compare(res, token.EQL, c.Value) {
				return nil, false
			}
		}
		if res != nil {
			return res, true
		}
	}
	return nil, false
}

// Succs returns the successors of b that are feasible under the specialisation.
func (s Spec) Succs(b *ssa.BasicBlock) []*ssa.BasicBlock { return s.succs(b, 0) }

func (s Spec) succs(b *ssa.BasicBlock, d int) []*ssa.BasicBlock {
	if len(b.Instrs) == 0 {
		return b.Succs
	}
	if iff, ok := b.Instrs[len(b.Instrs)-1].(*ssa.If); ok {
		if c, ok := s.eval(iff.Cond, d); ok && c.Kind() == constant.Bool {
			if constant.BoolVal(c) {
				return b.Succs[:1]
			}
			return b.Succs[1:2]
		}
	}
	return b.Succs
}

// Reachable returns the set of blocks reachable from entry under the specialisation.
func (s Spec) Reachable(f *ssa.Function) map[*ssa.BasicBlock]bool { return s.reachable(f, 0) }

func (s Spec) reachable(f *ssa.Function, d int) map[*ssa.BasicBlock]bool {
	seen := map[*ssa.BasicBlock]bool{}
	var walk func(b *ssa.BasicBlock)
	walk = func(b *ssa.BasicBlock) {
		if seen[b] {
			return
		}
		seen[b] = true
		for _, n := range s.succs(b, d) {
			walk(n)
		}
	}
	if len(f.Blocks) > 0 {
		walk(f.Blocks[0])
	}
	return seen
}

// CallSitesOf returns every call instruction in fns whose static callee is target.
func CallSitesOf(fns []*ssa.Function, target *ssa.Function) []ssa.CallInstruction {
	var out []ssa.CallInstruction
	for _, f := range fns {
		for _, b := range f.Blocks {
			for _, in := range b.Instrs {
				if c, ok := in.(ssa.CallInstruction); ok && Callee(c) == target {
					out = append(out, c)
				}
			}
		}
	}
	return out
}

// Instrs iterates over all instructions of f.
func Instrs(f *ssa.Function, fn func(ssa.Instruction)) {
	for _, b := range f.Blocks {
		for _, in := range b.Instrs {
			fn(in)
		}
	}
}

// Dominates reports whether instruction a dominates instruction b (same function).
func Dominates(a, b ssa.Instruction) bool {
	ba, bb := a.Block(), b.Block()
	if ba == bb {
		for _, in := range ba.Instrs {
			if in == a {
				return true
			}
			if in == b {
				return false
			}
		}
		return false
	}
	return ba.Dominates(bb)
}

// StructOf returns the struct underlying t (through one pointer), or nil.
func StructOf(t types.Type) *types.Struct { return structOf(t) }

// NamedOf returns the name of the named type t denotes (through pointers), or "".
func NamedOf(t types.Type) string { return namedOf(t) }

// SpecFor derives the callee's specialisation at a call site: constant arguments, and arguments that are parameters
// bound by the caller's specialisation.
func (s Spec) SpecFor(call ssa.CallInstruction, cal *ssa.Function) Spec {
	return s.specFor(call, cal, 0)
}

func (s Spec) specFor(call ssa.CallInstruction, cal *ssa.Function, d int) Spec {
	sp := Spec{}
	args := call.Common().Args
	for i, a := range args {
		if i >= len(cal.Params) {
			break
		}
		if c, ok := s.eval(a, d); ok {
			if _, isConst := a.(*ssa.Const); isConst || c.Kind() == constant.Bool || c.Kind() == constant.Int {
				sp[cal.Params[i]] = c
			}
		}
	}
	return sp
}

func (s Spec) evalCallResult(call *ssa.Call, idx int, d int) (constant.Value, bool) {
	cal := Callee(call)
	if cal == nil || cal.Blocks == nil || d > 2 {
		return nil, false
	}
	sp := s.specFor(call, cal, d+1)
	if len(sp) == 0 {
		return nil, false
	}
	reach := sp.reachable(cal, d+1)
	var val constant.Value
	n := 0
	same := true
	for _, b := range cal.Blocks {
		if !reach[b] {
			continue
		}
		ret, ok := b.Instrs[len(b.Instrs)-1].(*ssa.Return)
		if !ok || idx >= len(ret.Results) {
			continue
		}
		n++
		c, ok := sp.eval(ret.Results[idx], d+1)
		if !ok || (c.Kind() != constant.Bool && c.Kind() != constant.Int) {
			same = false
			continue
		}
		if val == nil {
			val = c
		} else if !constant.Compare(val, token.EQL, c) {
			same = false
		}
	}
	if n == 0 || !same || val == nil {
		return nil, false
	}
	return val, true
}

// nonNil: the pointer is an allocation on every return of the helper(s) it comes from that is reachable under the
// specialisation the call's arguments give them.
func (s Spec) nonNil(v ssa.Value, depth int) bool {
	if depth > 3 {
		return false
	}
	v = StripConv(v)
	switch x := v.(type) {
	case *ssa.Alloc, *ssa.MakeSlice, *ssa.MakeMap, *ssa.MakeChan, *ssa.MakeClosure:
		return true
	case *ssa.Extract:
		if call, ok := x.Tuple.(*ssa.Call); ok {
			return s.callNonNil(call, x.Index, depth)
		}
	case *ssa.Call:
		return s.callNonNil(x, 0, depth)
	}
	return false
}

func (s Spec) callNonNil(call *ssa.Call, idx, depth int) bool {
	cal := Callee(call)
	if cal == nil || cal.Blocks == nil {
		return false
	}
	sp := s.SpecFor(call, cal)
	reach := sp.Reachable(cal)
	n := 0
	for _, b := range cal.Blocks {
		if !reach[b] {
			continue
		}
		ret, ok := b.Instrs[len(b.Instrs)-1].(*ssa.Return)
		if !ok || idx >= len(ret.Results) {
			continue
		}
		n++
		if !sp.nonNil(ret.Results[idx], depth+1) {
			return false
		}
	}
	return n > 0
}

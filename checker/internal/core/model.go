package core

import (
	"fmt"
	"go/constant"
	"go/token"
	"go/types"
	"sort"
	"strings"
	"sync"

	"golang.org/x/tools/go/ssa"
)

// MapModel names, for one concurrent map implementation (Map or MapOf), the
// functions, fields and types the rules talk about. Everything except the exported
// API method names is discovered structurally on every run.
type MapModel struct {
	Funcs     []*ssa.Function // all functions of the program (for call-site queries)
	sitesOnce sync.Once
	sites     map[*ssa.Function][]ssa.CallInstruction
	Name      string // type name: "Map" / "MapOf"
	Iface     string // cache-level interface it implements
	Type      *types.Named
	Methods   map[string]*ssa.Function
	Core      *ssa.Function // the locked read-modify-write core (doCompute)
	Resize    *ssa.Function
	Wait      *ssa.Function // parks on the resize condition
	Copy      *ssa.Function // copies one bucket chain into the new table
	Append    *ssa.Function // plain insert into an unpublished bucket chain
	NewTable  *ssa.Function
	Ctor      []*ssa.Function // functions that allocate the map object
	TableT    string          // table struct type name
	BucketT   []string        // bucket struct type names (padded + inner)
	EntryT    string          // immutable entry type (MapOf)
	TableF    string          // map.table
	FlagF     string          // map.resizing
	MuF       string          // map.resizeMu
	CondF     string          // map.resizeCond
	// StateOwner is the struct type that holds the resize flag, mutex and condition: the map type itself, or a
	// struct embedded in it by value (resize bookkeeping shared by both map types).
	StateOwner string
	FlagCAS    *ssa.Function // helper of StateOwner that performs the flag CAS, when not done in Resize itself
	// ResizeHelpers are functions the resize function delegates its copy loop to (they take tables, not buckets).
	ResizeHelpers []*ssa.Function
	AddSize       *ssa.Function
	AddPlain      *ssa.Function
	SumSize       *ssa.Function
	InProg        *ssa.Function // resizeInProgress
	NewerTbl      *ssa.Function // newerTableExists
	IsEmpty       *ssa.Function // isEmptyBucket (Map only)
	Problems      []string
	LockKind      string // "spin" or "mutex"
}

// Model is the structural model of the whole library.
type Model struct {
	P       *Prog
	Maps    []*MapModel            // [0]=Map (string keys), [1]=MapOf
	Acquire map[*ssa.Function]bool // spin-lock acquire helpers (structurally recognised)
	Release map[*ssa.Function]bool
	// Wrappers are functions that, on every path, perform exactly one acquire (or one release)
	// of a lock derived from one of their parameters; call sites of a wrapper are lock events.
	Wrappers    map[*ssa.Function]LockWrapper
	HandleCtors map[*ssa.Function]HandleCtor
	HelperWord  map[*ssa.Function]helperWord // spin helpers that are methods of the bucket: field path to the lock word
	Problems    []string
	// cache layer
	CacheT    [2]*types.Named // xsyncMap, xsyncMapOf (inner objects)
	WrapT     [2]*types.Named // wrappers
	CacheM    [2]map[string]*ssa.Function
	CacheCtor [2]*ssa.Function
	ItemT     [2]string
	ItemEmb   [2]string // embedded struct of the item type that carries the expiration, if any
}

var mapAPI = []string{"Load", "Store", "LoadOrStore", "LoadAndStore", "LoadOrCompute", "Compute", "LoadAndDelete", "Delete", "Range", "Clear", "Size"}
var coreUsers = []string{"Store", "LoadOrStore", "LoadAndStore", "LoadOrCompute", "Compute", "LoadAndDelete", "Delete"}

func (p *Prog) methodsOf(named *types.Named) map[string]*ssa.Function {
	m := map[string]*ssa.Function{}
	for i := 0; i < named.NumMethods(); i++ {
		if f := p.SSA.FuncValue(named.Method(i)); f != nil {
			m[named.Method(i).Name()] = f
		}
	}
	// methods promoted from embedded structs: the declared method of the embedded type stands for it
	ms := types.NewMethodSet(types.NewPointer(named))
	for i := 0; i < ms.Len(); i++ {
		sel := ms.At(i)
		fo, ok := sel.Obj().(*types.Func)
		if !ok || m[fo.Name()] != nil || len(sel.Index()) < 2 {
			continue
		}
		if o := fo.Origin(); o != nil {
			fo = o
		}
		if f := p.SSA.FuncValue(fo); f != nil && f.Blocks != nil {
			m[fo.Name()] = f
		}
	}
	return m
}

func origin(n *types.Named) *types.Named {
	if o := n.Origin(); o != nil {
		return o
	}
	return n
}

// implementersOf finds concrete named types converted (MakeInterface) to the named interface of package cache.
func (p *Prog) implementersOf(iface string) []*types.Named {
	seen := map[*types.Named]bool{}
	var out []*types.Named
	for _, f := range p.Funcs {
		Instrs(f, func(in ssa.Instruction) {
			mi, ok := in.(*ssa.MakeInterface)
			if !ok {
				return
			}
			nt, ok := mi.Type().(*types.Named)
			if !ok || nt.Obj().Pkg() == nil || nt.Obj().Pkg().Path() != CachePath || nt.Obj().Name() != iface {
				return
			}
			t := mi.X.Type()
			if pt, ok := t.(*types.Pointer); ok {
				t = pt.Elem()
			}
			if n, ok := t.(*types.Named); ok {
				n = origin(n)
				if !seen[n] {
					seen[n] = true
					out = append(out, n)
				}
			}
		})
	}
	return out
}

// BuildModel discovers the model. Missing anchors are recorded in Problems.
func BuildModel(p *Prog) *Model {
	m := &Model{P: p, Acquire: map[*ssa.Function]bool{}, Release: map[*ssa.Function]bool{}}
	m.findLockHelpers()
	m.findHandleCtors()
	m.inferWrappers()
	for _, iface := range []string{"Map", "MapOf"} {
		impl := p.implementersOf(iface)
		if len(impl) != 1 {
			m.Problems = append(m.Problems, fmt.Sprintf("interface cache.%s: %d concrete implementers found, want 1", iface, len(impl)))
			continue
		}
		mm := m.buildMap(impl[0], iface)
		m.Maps = append(m.Maps, mm)
		for _, pr := range mm.Problems {
			m.Problems = append(m.Problems, mm.Name+": "+pr)
		}
	}
	m.buildCache()
	return m
}

type helperWord struct {
	steps []string
	key   string
}

func (m *Model) findLockHelpers() {
	steps := map[*ssa.Function]helperWord{}
	m.HelperWord = steps
	for _, f := range m.P.Funcs {
		if f.Pkg != m.P.Xsync || len(f.Params) != 1 {
			continue
		}
		par := f.Params[0]
		if _, ok := par.Type().(*types.Pointer); !ok {
			continue
		}
		// acquire: every Return is in a block reached only through the true edge of If(CAS(par, v, v|1))
		var casOK []*ssa.BasicBlock
		rel := false
		Instrs(f, func(in ssa.Instruction) {
			c, ok := in.(ssa.CallInstruction)
			if !ok {
				return
			}
			op, addr, ok := AtomicOp(c)
			if !ok {
				return
			}
			// the lock word is the parameter itself, or a field of the (bucket) parameter: func (b *bucket) lock()
			if SameWord(addr) != ssa.Value(par) {
				wa := Addr(SameWord(addr))
				if wa.Root != ssa.Value(par) || len(wa.Steps) == 0 {
					return
				}
				if old, seen := steps[f]; seen && strings.Join(old.steps, ".") != strings.Join(wa.Steps, ".") {
					return
				}
				steps[f] = helperWord{wa.Steps, wa.Key()}
			}
			args := c.Common().Args
			switch op {
			case "CAS":
				if len(args) == 3 {
					if b, ok := args[2].(*ssa.BinOp); ok && b.Op == token.OR && (b.X == args[1] || b.Y == args[1]) {
						other := b.Y
						if b.Y == args[1] {
							other = b.X
						}
						if k, ok := ConstInt(other); ok && k == 1 {
							// find the If consuming this CAS
							if v, ok := in.(ssa.Value); ok {
								for _, r := range *v.Referrers() {
									if iff, ok := r.(*ssa.If); ok {
										casOK = append(casOK, iff.Block().Succs[0])
									}
								}
							}
						}
					}
				}
			case "Store":
				if len(args) == 2 {
					if lockBitCleared(args[1]) {
						rel = true
					}
				}
			}
		})
		if len(casOK) > 0 {
			all := true
			n := 0
			Instrs(f, func(in ssa.Instruction) {
				if _, ok := in.(*ssa.Return); ok {
					n++
					dom := false
					for _, b := range casOK {
						if b.Dominates(in.Block()) {
							dom = true
						}
					}
					if !dom {
						all = false
					}
				}
			})
			if all && n > 0 {
				m.Acquire[f] = true
			}
		}
		if rel && len(casOK) == 0 {
			m.Release[f] = true
		}
	}
}

// holdsMutex: the struct has a sync.Mutex field, directly or inside a struct-typed field (a named lock wrapper).
func holdsMutex(st *types.Struct, depth int) bool {
	for i := 0; i < st.NumFields(); i++ {
		t := st.Field(i).Type()
		if n, ok := t.(*types.Named); ok && n.Obj().Pkg() != nil && n.Obj().Pkg().Path() == "sync" && n.Obj().Name() == "Mutex" {
			return true
		}
		if inner, ok := t.Underlying().(*types.Struct); ok && depth < 2 && holdsMutex(inner, depth+1) {
			return true
		}
	}
	return false
}

// SameWord strips pointer conversions and calls of identity helpers (a function that returns its only parameter,
// converted: func (bm *bucketMutex) word() *uint64 { return (*uint64)(bm) }): the result addresses the same word.
func SameWord(v ssa.Value) ssa.Value {
	for i := 0; i < 4; i++ {
		v = StripConv(v)
		c, ok := v.(*ssa.Call)
		if !ok {
			return v
		}
		cal := Callee(c)
		if cal == nil || len(cal.Blocks) != 1 || len(cal.Params) != 1 || len(c.Call.Args) != 1 {
			return v
		}
		ret, ok := cal.Blocks[0].Instrs[len(cal.Blocks[0].Instrs)-1].(*ssa.Return)
		if !ok || len(ret.Results) != 1 || StripConv(ret.Results[0]) != ssa.Value(cal.Params[0]) {
			return v
		}
		v = c.Call.Args[0]
	}
	return v
}

// lockBitCleared: the value is some word with bit 0 cleared and the other bits kept: v &^ 1, v & ^1 (an even
// constant mask with all other bits set), v ^ (v & 1), v - (v & 1).
func lockBitCleared(v ssa.Value) bool {
	b, ok := v.(*ssa.BinOp)
	if !ok {
		return false
	}
	isLowBit := func(x, of ssa.Value) bool {
		a, ok := x.(*ssa.BinOp)
		if !ok || a.Op != token.AND {
			return false
		}
		if k, ok := ConstInt(a.Y); ok && k == 1 && a.X == of {
			return true
		}
		if k, ok := ConstInt(a.X); ok && k == 1 && a.Y == of {
			return true
		}
		return false
	}
	switch b.Op {
	case token.AND_NOT:
		k, ok := ConstInt(b.Y)
		return ok && k == 1
	case token.AND:
		for _, side := range []ssa.Value{b.X, b.Y} {
			if c, ok := StripConv(side).(*ssa.Const); ok && c.Value != nil {
				if u, exact := constant.Uint64Val(constant.ToInt(c.Value)); exact && u == ^uint64(1) {
					return true
				}
				if i, exact := constant.Int64Val(constant.ToInt(c.Value)); exact && i == -2 {
					return true
				}
			}
		}
	case token.XOR, token.SUB:
		return isLowBit(b.Y, b.X)
	}
	return false
}

func (m *Model) buildMap(named *types.Named, iface string) *MapModel {
	p := m.P
	mm := &MapModel{Funcs: p.Funcs, Name: named.Obj().Name(), Iface: iface, Type: named, Methods: p.methodsOf(named)}
	bad := func(f string, a ...interface{}) { mm.Problems = append(mm.Problems, fmt.Sprintf(f, a...)) }
	for _, n := range mapAPI {
		if mm.Methods[n] == nil {
			bad("API method %s has no body", n)
		}
	}
	// core: the method of the map type that takes a function parameter, acquires a bucket lock and calls that
	// parameter (the locked read-modify-write all write wrappers end up in, directly or through one another)
	for _, f := range p.Funcs {
		if f.Pkg != p.Xsync || f.Parent() != nil || f.Signature.Recv() == nil || namedOf(f.Signature.Recv().Type()) != mm.Name {
			continue
		}
		var fnParam *ssa.Parameter
		for _, prm := range f.Params {
			if _, ok := prm.Type().Underlying().(*types.Signature); ok {
				fnParam = prm
			}
		}
		if fnParam == nil || !m.acquiresBucketLock(f) {
			continue
		}
		calls := false
		Instrs(f, func(in ssa.Instruction) {
			if c, ok := in.(ssa.CallInstruction); ok && c.Common().Value == ssa.Value(fnParam) {
				calls = true
			}
		})
		// helpers extracted from the core may call the function value; the core is the one with mode parameters
		nBool := 0
		for _, prm := range f.Params {
			if b, ok := prm.Type().Underlying().(*types.Basic); ok && b.Kind() == types.Bool {
				nBool++
			}
		}
		if (calls || nBool >= 2) && nBool >= 1 {
			if mm.Core != nil && mm.Core != f {
				bad("two candidate compute cores: %s and %s", FuncName(mm.Core), FuncName(f))
			}
			mm.Core = f
		}
	}
	if mm.Core == nil {
		bad("no compute core found (method with a function parameter and mode flags that takes the bucket lock)")
	}
	// fields of the map struct
	st, _ := named.Underlying().(*types.Struct)
	if st != nil {
		for i := 0; i < st.NumFields(); i++ {
			f := st.Field(i)
			if IsAtomicPointerType(f.Type()) {
				if mm.TableF != "" {
					bad("two pointer-word fields on %s", mm.Name)
				}
				mm.TableF = f.Name()
			}
			if n, ok := f.Type().(*types.Named); ok && n.Obj().Pkg() != nil && n.Obj().Pkg().Path() == "sync" && n.Obj().Name() == "Cond" {
				mm.CondF = f.Name()
				mm.StateOwner = mm.Name
			}
		}
		// resize bookkeeping kept in a struct embedded by value
		for i := 0; i < st.NumFields() && mm.CondF == ""; i++ {
			en, ok := st.Field(i).Type().(*types.Named)
			if !ok || en.Obj().Pkg() != p.Xsync.Pkg {
				continue
			}
			es, ok := en.Underlying().(*types.Struct)
			if !ok {
				continue
			}
			for j := 0; j < es.NumFields(); j++ {
				if n, ok := es.Field(j).Type().(*types.Named); ok && n.Obj().Pkg() != nil && n.Obj().Pkg().Path() == "sync" && n.Obj().Name() == "Cond" {
					mm.CondF = es.Field(j).Name()
					mm.StateOwner = en.Obj().Name()
				}
			}
		}
	}
	if mm.StateOwner == "" {
		mm.StateOwner = mm.Name
	}
	// one-operation accessors of the map-level words (m.getTable(), m.setTable(t), m.resizeFlag()) are read as the
	// atomic operation they perform
	RegisterAccessorOwner(mm.Name)
	RegisterAccessorOwner(mm.StateOwner)
	// scan xsync functions for structural anchors
	for _, f := range p.Funcs {
		if f.Pkg != p.Xsync {
			continue
		}
		sharedState := mm.StateOwner != mm.Name // resize bookkeeping in a struct of its own (possibly shared by both map types)
		if AtomicAccessor(f) && !sharedState {
			continue // seen at its call sites, as the operation it performs
		}
		Instrs(f, func(in ssa.Instruction) {
			switch x := in.(type) {
			case ssa.CallInstruction:
				if op, addr, ok := AtomicOp(x); ok {
					if sharedState && IsAccessorCall(x) {
						return // the helper of the bookkeeping struct is the anchor (FlagCAS), its callers are found below
					}
					a := Addr(addr)
					if a.Owner == mm.Name && op == "Load" && a.Field == mm.TableF && mm.TableF != "" {
						if v, isV := in.(ssa.Value); isV {
							if n := namedOf(v.Type()); n != "" && structOf(v.Type()) != nil {
								mm.TableT = n
							}
						}
					}
					if a.Owner == mm.StateOwner && op == "CAS" && !IsSyncInternal(a) {
						mm.FlagF = a.Field
						if rv := f.Signature.Recv(); rv != nil && namedOf(rv.Type()) == mm.StateOwner && mm.StateOwner != mm.Name {
							// the CAS lives in a helper of the embedded bookkeeping struct: the resize function is its caller on the map type
							mm.FlagCAS = f
						} else {
							if mm.Resize != nil && mm.Resize != f {
								bad("resize flag CAS in two functions")
							}
							mm.Resize = f
						}
					}
				}
				id := CalleeID(x)
				if id == "sync.NewCond" && len(x.Common().Args) == 1 {
					// argument is MakeInterface(&m.resizeMu)
					arg := x.Common().Args[0]
					if mi, ok := arg.(*ssa.MakeInterface); ok {
						arg = mi.X
					}
					a := Addr(arg)
					if a.Owner == mm.StateOwner {
						mm.MuF = a.Field
						if mm.StateOwner == mm.Name {
							mm.Ctor = append(mm.Ctor, f)
						}
					}
				}
				if id == "(*sync.Cond).Wait" {
					a := Addr(x.Common().Args[0])
					if a.Owner == mm.StateOwner {
						mm.Wait = f
					}
				}
			case *ssa.Store:
				// 'g.cond.L = &g.mu' instead of sync.NewCond(&g.mu)
				if da := Addr(x.Addr); da.Field == "L" && len(da.Steps) >= 2 {
					v := x.Val
					if mi, ok := v.(*ssa.MakeInterface); ok {
						v = mi.X
					}
					if a := Addr(v); a.Owner == mm.StateOwner && a.Field != "" {
						if n, ok := elemOf2(v.Type()).(*types.Named); ok && n.Obj().Pkg() != nil && n.Obj().Pkg().Path() == "sync" && n.Obj().Name() == "Mutex" {
							mm.MuF = a.Field
						}
					}
				}
			case *ssa.Call:
				// handled above (CallInstruction); typed atomic pointer: the load yields *table directly
			case *ssa.Convert:
				// table type: conversion from unsafe.Pointer loaded from the table field
				if c, ok := x.X.(*ssa.Call); ok {
					if op, addr, ok := AtomicOp(c); ok && op == "Load" {
						a := Addr(addr)
						if a.Owner == mm.Name && a.Field == mm.TableF && mm.TableF != "" {
							if n := namedOf(x.Type()); n != "" {
								mm.TableT = n
							}
						}
					}
				}
			}
		})
	}
	// the winning CAS (with its wait-and-retry loop) moved into a step function of the map (beginResize): the resize
	// function is that step's only caller
	if mm.Resize != nil && mm.FlagCAS == nil {
		callsTableCtor := false
		Instrs(mm.Resize, func(in ssa.Instruction) {
			if c, ok := in.(ssa.CallInstruction); ok {
				if cal := Callee(c); cal != nil && cal.Signature.Results().Len() == 1 && namedOf(cal.Signature.Results().At(0).Type()) != "" && cal.Signature.Recv() == nil {
					if _, isPtr := cal.Signature.Results().At(0).Type().(*types.Pointer); isPtr {
						callsTableCtor = true
					}
				}
			}
			if a, ok := in.(*ssa.Alloc); ok && a.Heap {
				callsTableCtor = true
			}
		})
		sites := CallSitesOf(p.Funcs, mm.Resize)
		var callers []*ssa.Function
		for _, s := range sites {
			g := s.Parent()
			for g.Parent() != nil {
				g = g.Parent()
			}
			dup := false
			for _, c := range callers {
				if c == g {
					dup = true
				}
			}
			if !dup {
				callers = append(callers, g)
			}
		}
		if !callsTableCtor && len(callers) == 1 {
			if rv := callers[0].Signature.Recv(); rv != nil && namedOf(rv.Type()) == mm.Name {
				mm.FlagCAS = mm.Resize
				mm.Resize = callers[0]
			}
		}
	}
	if mm.FlagCAS != nil && mm.Resize == nil {
		for _, site := range CallSitesOf(p.Funcs, mm.FlagCAS) {
			g := site.Parent()
			for g.Parent() != nil {
				g = g.Parent()
			}
			if rv := g.Signature.Recv(); rv != nil && namedOf(rv.Type()) == mm.Name {
				if mm.Resize != nil && mm.Resize != g {
					bad("resize flag CAS helper called from two functions of %s", mm.Name)
				}
				mm.Resize = g
			}
		}
	}
	if mm.StateOwner != mm.Name {
		// constructors: the functions that allocate the map object
		for _, f := range p.Funcs {
			if f.Pkg != p.Xsync || f.Parent() != nil {
				continue
			}
			Instrs(f, func(in ssa.Instruction) {
				if a, ok := in.(*ssa.Alloc); ok && a.Heap && namedOf(elemOfPtr(a.Type())) == mm.Name {
					mm.Ctor = append(mm.Ctor, f)
				}
			})
		}
	}
	if mm.TableF == "" || mm.FlagF == "" || mm.MuF == "" || mm.CondF == "" {
		bad("map fields not all found: table=%q flag=%q mu=%q cond=%q", mm.TableF, mm.FlagF, mm.MuF, mm.CondF)
	}
	if mm.Resize == nil {
		bad("resize function (CAS on the resize flag) not found")
	}
	if mm.Wait == nil {
		bad("resize wait function (Cond.Wait) not found")
	}
	if mm.TableT == "" {
		bad("table type not found")
	}
	// helpers by role
	for _, f := range p.Funcs {
		if f.Pkg != p.Xsync || f.Parent() != nil {
			continue
		}
		recv := ""
		if r := f.Signature.Recv(); r != nil {
			recv = namedOf(r.Type())
		}
		res := f.Signature.Results()
		// NewTable: function returning *TableT that allocates it
		if recv == "" && res.Len() == 1 && namedOf(res.At(0).Type()) == mm.TableT && mm.TableT != "" {
			mm.NewTable = f
		}
		if (recv == mm.TableT || (recv != "" && recv == mm.counterType(p))) && mm.TableT != "" {
			// counter helpers on the table (or on the named type of the table's counter field): classify by body
			atomicAdd, plainStore, atomicLoad := false, false, false
			Instrs(f, func(in ssa.Instruction) {
				if c, ok := in.(ssa.CallInstruction); ok {
					if op, _, ok := AtomicOp(c); ok {
						if op == "Add" {
							atomicAdd = true
						}
						if op == "Load" {
							atomicLoad = true
						}
						if op == "Store" {
							plainStore = true // a typed atomic counter updated by Load + Store: not a read-modify-write
						}
					}
				}
				if _, ok := in.(*ssa.Store); ok {
					plainStore = true
				}
			})
			switch {
			case atomicLoad && res.Len() == 1 && !plainStore && !atomicAdd:
				mm.SumSize = f
			case (atomicAdd || plainStore) && res.Len() == 0:
				// counter update helpers: told apart by who calls them (writers vs the resize copy loop)
				fromCore, fromResize := false, false
				for _, s := range CallSitesOf(p.Funcs, f) {
					if s.Parent() == mm.Core {
						fromCore = true
					}
					if s.Parent() == mm.Resize {
						fromResize = true
					}
				}
				switch {
				case fromCore && !fromResize:
					mm.AddSize = f
				case fromResize && !fromCore:
					mm.AddPlain = f
				case atomicAdd:
					mm.AddSize = f
				default:
					mm.AddPlain = f
				}
			}
		}
		if (recv == mm.Name || recv == mm.StateOwner) && res.Len() == 1 && len(f.Params) <= 2 {
			if b, ok := res.At(0).Type().(*types.Basic); ok && b.Kind() == types.Bool {
				Instrs(f, func(in ssa.Instruction) {
					if c, ok := in.(ssa.CallInstruction); ok {
						if op, addr, ok := AtomicOp(c); ok && op == "Load" {
							a := Addr(addr)
							if a.Owner == mm.StateOwner && a.Field == mm.FlagF {
								// several boolean helpers may load the flag (an unused `idle()` beside resizeInProgress): the
								// one the compute core calls is the one its validation is read through
								if mm.InProg == nil || calledRank(p, mm, f) > calledRank(p, mm, mm.InProg) {
									mm.InProg = f
								}
							}
							if a.Owner == mm.Name && a.Field == mm.TableF {
								// several boolean helpers may look at the table word (e.g. "is the table minimal now"):
								// the identity test is the one whose result is a bare (in)equality; among equals the one the
								// compute core calls
								if mm.NewerTbl == nil || newerTblRank(p, mm, f) > newerTblRank(p, mm, mm.NewerTbl) {
									mm.NewerTbl = f
								}
							}
						}
					}
				})
			}
		}
	}
	// bucket types: element type of the first slice field of the table type, plus its embedded struct
	if obj := p.Xsync.Pkg.Scope().Lookup(mm.TableT); obj != nil {
		if ts := structOf(obj.Type()); ts != nil {
			for i := 0; i < ts.NumFields(); i++ {
				if sl, ok := ts.Field(i).Type().Underlying().(*types.Slice); ok {
					if n := namedOf(sl.Elem()); n != "" && structOf(sl.Elem()) != nil {
						es := structOf(sl.Elem())
						hasEmb := false
						for j := 0; j < es.NumFields(); j++ {
							if es.Field(j).Embedded() {
								hasEmb = true
								mm.BucketT = append(mm.BucketT, n, namedOf(es.Field(j).Type()))
							}
						}
						if !hasEmb && len(mm.BucketT) == 0 {
							// counter stripes have no embedded struct; the bucket slice comes first
							continue
						}
					}
				}
			}
		}
	}
	if len(mm.BucketT) == 0 {
		bad("bucket types not found")
	}
	// Copy / Append: callees of Resize (transitively one level) by role
	if mm.Resize != nil {
		// callees of the resize function, and (one level down) of the helpers it delegates the copy loop to
		var sites []ssa.CallInstruction
		seenFn := map[*ssa.Function]bool{mm.Resize: true}
		var collect func(f *ssa.Function, depth int)
		collect = func(f *ssa.Function, depth int) {
			Instrs(f, func(in ssa.Instruction) {
				c, ok := in.(ssa.CallInstruction)
				if !ok {
					return
				}
				sites = append(sites, c)
				cal := Callee(c)
				if cal == nil || cal.Pkg != p.Xsync || cal.Blocks == nil || seenFn[cal] || depth >= 2 {
					return
				}
				if cal == mm.NewTable || cal == mm.Wait || cal == mm.FlagCAS || m.Acquire[cal] || m.Release[cal] {
					return
				}
				// follow only helpers that take the table (src / dest) - the copy loop moved out of resize
				takesTable := false
				for _, prm := range cal.Params {
					if namedOf(prm.Type()) == mm.TableT {
						takesTable = true
					}
				}
				hasBucketParam := false
				for _, prm := range cal.Params {
					if contains(mm.BucketT, namedOf(prm.Type())) {
						hasBucketParam = true
					}
				}
				if takesTable && !hasBucketParam {
					seenFn[cal] = true
					mm.ResizeHelpers = append(mm.ResizeHelpers, cal)
					collect(cal, depth+1)
				}
			})
		}
		collect(mm.Resize, 0)
		for _, c := range sites {
			in := c.(ssa.Instruction)
			_ = in
			cal := Callee(c)
			if cal == nil || cal.Pkg != p.Xsync || cal == mm.NewTable || cal == mm.Wait {
				continue
			}
			hasBucket, hasTable := false, false
			for _, prm := range cal.Params {
				n := namedOf(prm.Type())
				if contains(mm.BucketT, n) {
					hasBucket = true
				}
				if n == mm.TableT {
					hasTable = true
				}
			}
			if (hasBucket && hasTable) || (mm.Copy == nil && hasBucket && m.acquiresBucketLock(cal) && !seenFn[cal]) {
				mm.Copy = cal
			}
		}
	}
	if mm.Copy != nil {
		// only helpers that (directly or through another helper) call the copy routine hold the copy loop
		calls := map[*ssa.Function]bool{}
		for changed := true; changed; {
			changed = false
			for _, h := range mm.ResizeHelpers {
				if calls[h] {
					continue
				}
				Instrs(h, func(in ssa.Instruction) {
					if c, ok := in.(ssa.CallInstruction); ok {
						if cal := Callee(c); cal != nil && (cal == mm.Copy || calls[cal]) {
							calls[h] = true
							changed = true
						}
					}
				})
			}
		}
		var kept []*ssa.Function
		for _, h := range mm.ResizeHelpers {
			if calls[h] {
				kept = append(kept, h)
			}
		}
		mm.ResizeHelpers = kept
		Instrs(mm.Copy, func(in ssa.Instruction) {
			if c, ok := in.(ssa.CallInstruction); ok {
				cal := Callee(c)
				if _, isW := m.Wrappers[cal]; cal != nil && cal.Pkg == p.Xsync && !m.Acquire[cal] && !m.Release[cal] && !isW && cal.Signature.Results().Len() == 0 {
					// the plain-append helper takes a bucket pointer
					for _, prm := range cal.Params {
						if strings.HasPrefix(namedOf(prm.Type()), "bucket") || structOf(prm.Type()) != nil {
							mm.Append = cal
						}
					}
				}
			}
		})
	}
	if mm.Core != nil {
		Instrs(mm.Core, func(in ssa.Instruction) {
			if c, ok := in.(ssa.CallInstruction); ok {
				cal := Callee(c)
				if cal != nil && cal.Pkg == p.Xsync && cal.Signature.Recv() == nil && cal.Signature.Results().Len() == 1 && len(cal.Params) == 1 {
					if b, ok := cal.Signature.Results().At(0).Type().(*types.Basic); ok && b.Kind() == types.Bool && structOf(cal.Params[0].Type()) != nil {
						mm.IsEmpty = cal
					}
				}
			}
		})
	}
	// one counter-update helper used by writers and by the resize copy alike: it plays both roles (whether it may - an
	// atomic add is fine everywhere, a plain or load+store update of a published table is not - is the rules' business)
	if mm.AddSize == nil && mm.AddPlain != nil {
		mm.AddSize = mm.AddPlain
	}
	if mm.AddPlain == nil && mm.AddSize != nil {
		mm.AddPlain = mm.AddSize
	}
	for n, f := range map[string]*ssa.Function{"newTable": mm.NewTable, "addSize": mm.AddSize, "addSizePlain": mm.AddPlain, "sumSize": mm.SumSize, "resizeInProgress": mm.InProg, "newerTableExists": mm.NewerTbl, "copyBucket": mm.Copy, "appendToBucket": mm.Append} {
		if f == nil {
			bad("helper with role %s not found", n)
		}
	}
	// the bucket lock is a sync.Mutex field of the bucket, or else a bit of one of its words taken by the spin helpers
	mm.LockKind = "spin"
	for _, bt := range mm.BucketT {
		if obj := p.Xsync.Pkg.Scope().Lookup(bt); obj != nil {
			if bs := structOf(obj.Type()); bs != nil {
				if holdsMutex(bs, 0) {
					mm.LockKind = "mutex"
				}
			}
		}
	}
	// immutable entry type (MapOf): struct type converted to from a slot load in Load
	// (in Load itself, or in the lookup helper(s) it hands the work to)
	if ld := mm.Methods["Load"]; ld != nil {
		seen := map[*ssa.Function]bool{}
		var visit func(f *ssa.Function, depth int)
		visit = func(f *ssa.Function, depth int) {
			if f == nil || f.Blocks == nil || seen[f] || depth > 3 || f.Pkg != p.Xsync {
				return
			}
			seen[f] = true
			Instrs(f, func(in ssa.Instruction) {
				if cv, ok := in.(*ssa.Convert); ok {
					if n := namedOf(cv.Type()); n != "" && n != mm.TableT && !contains(mm.BucketT, n) && structOf(cv.Type()) != nil {
						if c, isCall := cv.X.(*ssa.Call); isCall {
							if op, addr, isAt := AtomicOp(c); isAt && op == "Load" && contains(mm.BucketT, Addr(addr).Owner) {
								mm.EntryT = n
							}
						} else if mm.EntryT == "" && f == ld {
							mm.EntryT = n
						}
					}
				}
				if c, ok := in.(ssa.CallInstruction); ok {
					visit(Callee(c), depth+1)
				}
			})
		}
		visit(ld, 0)
	}
	sort.Strings(mm.Problems)
	return mm
}

func contains(s []string, x string) bool {
	for _, y := range s {
		if x == y {
			return true
		}
	}
	return false
}

// AcquiresBucketLock reports whether f contains a bucket-lock acquire.
func (m *Model) AcquiresBucketLock(f *ssa.Function) bool { return m.acquiresBucketLock(f) }

func (m *Model) acquiresBucketLock(f *ssa.Function) bool {
	found := false
	Instrs(f, func(in ssa.Instruction) {
		if ev := m.LockEventOf(in); ev != nil && ev.Acquire && ev.Class == "bucket" {
			found = true
		}
	})
	return found
}

// LockWrapper summarises a helper around a lock operation (Min et al.'s wrapper rule).
type LockWrapper struct {
	Acquire bool
	Param   int
	Steps   []string // field steps from the parameter to the lock word
	Class   string
	Key     string
	Handle  bool // the parameter is a lock handle (a struct value holding the pointer to the lock), see HandleCtor
}

// HandleCtor summarises a function that builds a lock handle: a struct value with a single pointer field that
// addresses the lock word / mutex reached from parameter Param by Steps (lockOf(rootb), rootb.mutex()).
type HandleCtor struct {
	Param int
	Steps []string
	Key   string
}

// handleParamOf: v is the single (pointer) field of a struct-valued parameter: l.word for a value receiver l, read
// directly or through the local the receiver is spilled into.
func handleParamOf(v ssa.Value) *ssa.Parameter {
	single := func(p *ssa.Parameter) *ssa.Parameter {
		if hs := structOf(p.Type()); hs != nil && hs.NumFields() == 1 {
			if _, isPtr := p.Type().Underlying().(*types.Pointer); !isPtr {
				return p
			}
		}
		return nil
	}
	switch x := v.(type) {
	case *ssa.Field:
		if hp, ok := x.X.(*ssa.Parameter); ok {
			return single(hp)
		}
	case *ssa.UnOp:
		fa, ok := x.X.(*ssa.FieldAddr)
		if !ok {
			return nil
		}
		cell, ok := fa.X.(*ssa.Alloc)
		if !ok {
			return nil
		}
		var src *ssa.Parameter
		n := 0
		for _, ref := range *cell.Referrers() {
			if st, ok := ref.(*ssa.Store); ok && st.Addr == ssa.Value(cell) {
				n++
				src, _ = st.Val.(*ssa.Parameter)
			}
		}
		if n == 1 && src != nil {
			return single(src)
		}
	}
	return nil
}

func (m *Model) findHandleCtors() {
	m.HandleCtors = map[*ssa.Function]HandleCtor{}
	for _, f := range m.P.Funcs {
		if f.Pkg != m.P.Xsync || f.Parent() != nil || f.Blocks == nil || f.Signature.Results().Len() != 1 {
			continue
		}
		st := structOf(f.Signature.Results().At(0).Type())
		if st == nil || st.NumFields() != 1 || namedOf(f.Signature.Results().At(0).Type()) == "" {
			continue
		}
		if _, isPtr := st.Field(0).Type().Underlying().(*types.Pointer); !isPtr {
			continue
		}
		var rets []*ssa.Return
		Instrs(f, func(in ssa.Instruction) {
			if r, ok := in.(*ssa.Return); ok {
				rets = append(rets, r)
			}
		})
		if len(rets) != 1 {
			continue
		}
		ld, ok := rets[0].Results[0].(*ssa.UnOp)
		if !ok {
			continue
		}
		cell, ok := ld.X.(*ssa.Alloc)
		if !ok {
			continue
		}
		var stored ssa.Value
		n := 0
		for _, ref := range *cell.Referrers() {
			fa, ok := ref.(*ssa.FieldAddr)
			if !ok {
				continue
			}
			for _, r2 := range *fa.Referrers() {
				if stv, ok := r2.(*ssa.Store); ok && stv.Addr == ssa.Value(fa) {
					stored = stv.Val
					n++
				}
			}
		}
		if n != 1 || stored == nil {
			continue
		}
		a := Addr(stored)
		prm, ok := a.Root.(*ssa.Parameter)
		if !ok || len(a.Steps) == 0 {
			continue
		}
		for i, q := range f.Params {
			if q == prm {
				m.HandleCtors[f] = HandleCtor{Param: i, Steps: a.Steps, Key: a.Key()}
			}
		}
	}
}

// inferWrappers finds wrapper helpers to a fixpoint.
func (m *Model) inferWrappers() {
	m.Wrappers = map[*ssa.Function]LockWrapper{}
	for round := 0; round < 4; round++ {
		changed := false
		for _, f := range m.P.Funcs {
			if m.Acquire[f] || m.Release[f] || f.Parent() != nil {
				continue
			}
			if _, done := m.Wrappers[f]; done {
				continue
			}
			var evs []*LockEvent
			deferred := false
			Instrs(f, func(in ssa.Instruction) {
				if ev := m.LockEventOf(in); ev != nil {
					evs = append(evs, ev)
				}
				if d, isDefer := in.(*ssa.Defer); isDefer && m.LockEventOfCall(d) != nil {
					deferred = true // a deferred lock operation: the function pairs its own lock, it is not a wrapper
				}
			})
			if len(evs) == 0 || deferred {
				continue
			}
			uniform := true
			handle := false
			pi := -1
			for _, ev := range evs {
				if ev.Acquire != evs[0].Acquire || ev.Canon != evs[0].Canon {
					uniform = false
				}
				prm, ok := ev.Root.(*ssa.Parameter)
				if !ok {
					// the lock pointer is the single field of a handle passed by value
					if hp := handleParamOf(ev.Root); hp != nil && len(ev.steps) == 0 {
						prm, ok, handle = hp, true, true
					}
				}
				if !ok {
					uniform = false
					continue
				}
				for i, q := range f.Params {
					if q == prm {
						pi = i
					}
				}
			}
			if !uniform || pi < 0 {
				continue
			}
			// exactly one event on every entry->return path
			mc := &Machine[int]{P: m.P, Fn: f, Spec: Spec{}}
			ok := true
			mc.Step = func(ctx *Ctx[int], s int, in ssa.Instruction) []int {
				if m.LockEventOf(in) != nil {
					s++
					if s > 1 {
						ok = false
						return nil
					}
				}
				if _, isRet := in.(*ssa.Return); isRet && s != 1 {
					ok = false
				}
				return []int{s}
			}
			mc.Run()
			if !ok {
				continue
			}
			m.Wrappers[f] = LockWrapper{Acquire: evs[0].Acquire, Param: pi, Steps: evs[0].steps, Class: evs[0].Class, Key: evs[0].Key, Handle: handle}
			changed = true
		}
		if !changed {
			break
		}
	}
}

// LockEvent is an acquire or release of an internal lock.
type LockEvent struct {
	Acquire bool
	Class   string // "bucket" or "resize"
	Canon   string // canonical lock identity within the function
	Key     string // Owner.Field
	Root    ssa.Value
	AddrV   ssa.Value // the address expression of the lock word (or of the wrapper's argument)
	Extra   []string  // wrapper: field steps from the argument to the lock word
	steps   []string
}

// LockEventOf recognises lock operations: structurally recognised spin helpers and
// sync.Mutex Lock/Unlock on struct fields.
func (m *Model) LockEventOf(in ssa.Instruction) *LockEvent {
	c, ok := in.(ssa.CallInstruction)
	if !ok {
		return nil
	}
	if _, isGo := in.(*ssa.Go); isGo {
		return nil
	}
	if _, isDefer := in.(*ssa.Defer); isDefer {
		// deferred unlocks are not used by the library; callers treat them as undecided (LockEventOfCall)
		return nil
	}
	return m.LockEventOfCall(c)
}

// LockEventOfCall classifies the call regardless of call/defer/go mode.
func (m *Model) LockEventOfCall(c ssa.CallInstruction) *LockEvent {
	cal := Callee(c)
	if cal == nil {
		return nil
	}
	args := c.Common().Args
	var ev *LockEvent
	switch {
	case (m.Acquire[cal] || m.Release[cal]) && len(args) == 1:
		a := Addr(args[0])
		key := a.Key()
		var extra []string
		if hw, isM := m.HelperWord[cal]; isM {
			a.Steps = append(append([]string{}, a.Steps...), hw.steps...)
			key, extra = hw.key, hw.steps
		}
		ev = &LockEvent{Acquire: m.Acquire[cal], Canon: a.Canon(), Key: key, Root: a.Root, AddrV: args[0], Extra: extra, steps: a.Steps}
	default:
		if w, ok := m.Wrappers[cal]; ok && w.Param < len(args) && w.Handle {
			// the handle is the result of a handle constructor: the lock is the one that constructor addresses
			hcall, isCall := StripConv(args[w.Param]).(*ssa.Call)
			if !isCall {
				return nil
			}
			hc, isH := m.HandleCtors[Callee(hcall)]
			if !isH || hc.Param >= len(hcall.Call.Args) {
				return nil
			}
			base := hcall.Call.Args[hc.Param]
			a := Addr(base)
			a.Steps = append(append([]string{}, a.Steps...), hc.Steps...)
			ev = &LockEvent{Acquire: w.Acquire, Canon: a.Canon(), Key: hc.Key, Root: a.Root, AddrV: base, Extra: hc.Steps, steps: a.Steps}
			break
		}
		if w, ok := m.Wrappers[cal]; ok && w.Param < len(args) {
			a := Addr(args[w.Param])
			a.Steps = append(append([]string{}, a.Steps...), w.Steps...)
			key := w.Key
			if len(w.Steps) == 0 {
				key = a.Key()
			}
			ev = &LockEvent{Acquire: w.Acquire, Canon: a.Canon(), Key: key, Root: a.Root, AddrV: args[w.Param], Extra: w.Steps, steps: a.Steps}
			break
		}
		id := FuncID(cal)
		if id == "(*sync.Mutex).Lock" || id == "(*sync.Mutex).Unlock" || id == "(*sync.Mutex).TryLock" {
			a := Addr(args[0])
			ev = &LockEvent{Acquire: id != "(*sync.Mutex).Unlock", Canon: a.Canon(), Key: a.Key(), Root: a.Root, AddrV: args[0], steps: a.Steps}
		}
	}
	if ev == nil {
		return nil
	}
	ev.Class = "bucket"
	for _, mm := range m.Maps {
		if ev.Key == mm.StateOwner+"."+mm.MuF {
			ev.Class = "resize"
		}
	}
	return ev
}

// MapOfFunc returns the map model a function belongs to (receiver type, or the role tables).
func (m *Model) MapOfFunc(f *ssa.Function) *MapModel {
	for f.Parent() != nil {
		f = f.Parent()
	}
	for _, mm := range m.Maps {
		if r := f.Signature.Recv(); r != nil && (namedOf(r.Type()) == mm.Name || namedOf(r.Type()) == mm.StateOwner) {
			return mm
		}
		for _, g := range []*ssa.Function{mm.Copy, mm.Append, mm.NewTable, mm.AddSize, mm.AddPlain, mm.SumSize, mm.IsEmpty} {
			if g == f {
				return mm
			}
		}
	}
	return nil
}

// ---- cache layer ----

var cacheAPI = []string{"Set", "SetDefault", "SetForever", "Get", "GetWithExpiration", "GetWithTTL", "GetOrSet", "GetAndSet", "GetAndRefresh", "GetOrCompute", "Compute", "GetAndDelete", "Delete", "DeleteExpired", "Range", "Items", "Clear", "Count", "DefaultExpiration", "SetDefaultExpiration", "EvictedCallback", "SetEvictedCallback"}

func (m *Model) buildCache() {
	p := m.P
	for i, iface := range []string{"Cache", "CacheOf"} {
		impl := p.implementersOf(iface)
		if len(impl) != 1 {
			m.Problems = append(m.Problems, fmt.Sprintf("interface cache.%s: %d concrete implementers, want 1", iface, len(impl)))
			continue
		}
		w := impl[0]
		m.WrapT[i] = w
		ws, _ := w.Underlying().(*types.Struct)
		// the wrapper embeds the inner cache object (and may carry a few fields of its own, e.g. the stop signal)
		embIdx := -1
		if ws != nil {
			for fi := 0; fi < ws.NumFields(); fi++ {
				if ws.Field(fi).Embedded() {
					if embIdx >= 0 {
						embIdx = -2
						break
					}
					embIdx = fi
				}
			}
		}
		if ws == nil || embIdx < 0 {
			m.Problems = append(m.Problems, fmt.Sprintf("cache.%s implementer %s is not a wrapper struct around one embedded object", iface, w.Obj().Name()))
			continue
		}
		it := ws.Field(embIdx).Type()
		if pt, ok := it.(*types.Pointer); ok {
			it = pt.Elem()
		}
		inner, ok := it.(*types.Named)
		if !ok {
			m.Problems = append(m.Problems, "wrapper's embedded field is not a named type")
			continue
		}
		inner = origin(inner)
		m.CacheT[i] = inner
		m.CacheM[i] = p.methodsOf(inner)
		for _, n := range cacheAPI {
			if m.CacheM[i][n] == nil {
				m.Problems = append(m.Problems, fmt.Sprintf("%s: API method %s has no body", inner.Obj().Name(), n))
			}
		}
		// constructor: function allocating the inner type
		var allocFn *ssa.Function
		for _, f := range p.Funcs {
			if f.Pkg != p.Cache || f.Parent() != nil {
				continue
			}
			Instrs(f, func(in ssa.Instruction) {
				if a, ok := in.(*ssa.Alloc); ok {
					if n, ok := a.Type().(*types.Pointer).Elem().(*types.Named); ok && origin(n) == inner {
						m.CacheCtor[i] = f
						allocFn = f
					}
				}
			})
		}
		// built in steps (c := build(cfg); c.startJanitor(..); return c.wrap()): when the allocating function does not
		// itself return the interface, the constructor is its nearest caller that does
		returnsIface := func(f *ssa.Function) bool {
			res := f.Signature.Results()
			if res.Len() != 1 {
				return false
			}
			n, ok := types.Unalias(res.At(0).Type()).(*types.Named)
			return ok && origin(n).Obj().Name() == iface
		}
		if allocFn != nil && !returnsIface(allocFn) {
			level := []*ssa.Function{allocFn}
			seenF := map[*ssa.Function]bool{allocFn: true}
			found := false
			for depth := 0; depth < 3 && !found; depth++ {
				var next []*ssa.Function
				for _, g := range level {
					for _, site := range CallSitesOf(p.Funcs, g) {
						caller := site.Parent()
						for caller.Parent() != nil {
							caller = caller.Parent()
						}
						if caller.Pkg != p.Cache || seenF[caller] {
							continue
						}
						seenF[caller] = true
						if returnsIface(caller) && caller.Signature.Recv() == nil && !found {
							m.CacheCtor[i] = caller
							found = true
						}
						next = append(next, caller)
					}
				}
				level = next
			}
		}
		if m.CacheCtor[i] == nil {
			m.Problems = append(m.Problems, "constructor of "+inner.Obj().Name()+" not found")
		}
	}
	// item types: struct types of package cache with an int64 field and at least one bool-returning method
	// (the expiry predicates); the generic one belongs to the generic twin
	scope := p.Cache.Pkg.Scope()
	// candidates: what the caches actually keep in their maps - the second type argument of the generic twin's map
	// field, and the struct types the other twin asserts the stored interface values to
	storedAs := map[string]bool{}
	for i := 0; i < 2; i++ {
		if m.CacheT[i] == nil {
			continue
		}
		if cs, ok := m.CacheT[i].Underlying().(*types.Struct); ok {
			for fi := 0; fi < cs.NumFields(); fi++ {
				if fn, ok := types.Unalias(cs.Field(fi).Type()).(*types.Named); ok && fn.TypeArgs() != nil && fn.TypeArgs().Len() >= 2 {
					if an, ok := types.Unalias(fn.TypeArgs().At(fn.TypeArgs().Len() - 1)).(*types.Named); ok && an.Obj().Pkg() == p.Cache.Pkg {
						storedAs[origin(an).Obj().Name()] = true
					}
				}
			}
		}
		for _, f := range m.CacheM[i] {
			if f == nil {
				continue
			}
			visit := func(g *ssa.Function) {
				Instrs(g, func(in ssa.Instruction) {
					if ta, ok := in.(*ssa.TypeAssert); ok {
						if an, ok := types.Unalias(ta.AssertedType).(*types.Named); ok && an.Obj().Pkg() == p.Cache.Pkg {
							if _, isSt := an.Underlying().(*types.Struct); isSt {
								storedAs[origin(an).Obj().Name()] = true
							}
						}
					}
				})
			}
			visit(f)
			for _, an := range f.AnonFuncs {
				visit(an)
			}
		}
	}
	for _, n := range scope.Names() {
		tn, ok := scope.Lookup(n).(*types.TypeName)
		if !ok {
			continue
		}
		named, ok := tn.Type().(*types.Named)
		if !ok {
			continue
		}
		st, ok := named.Underlying().(*types.Struct)
		if !ok || st.NumFields() != 2 {
			continue
		}
		if len(storedAs) > 0 && !storedAs[n] {
			continue // some other two-field struct with a bool method (a janitor, a traversal filter)
		}
		hasInt := false
		emb := ""
		for i := 0; i < st.NumFields(); i++ {
			if b, ok := st.Field(i).Type().Underlying().(*types.Basic); ok && b.Kind() == types.Int64 {
				hasInt = true
			}
			// the expiration kept in an embedded one-field struct of this package (shared by both item types)
			if en, ok := st.Field(i).Type().(*types.Named); ok && st.Field(i).Embedded() && en.Obj().Pkg() == p.Cache.Pkg {
				if es, ok := en.Underlying().(*types.Struct); ok && es.NumFields() == 1 {
					if b, ok := es.Field(0).Type().Underlying().(*types.Basic); ok && b.Kind() == types.Int64 {
						hasInt = true
						emb = en.Obj().Name()
					}
				}
			}
		}
		hasPred := false
		ms := types.NewMethodSet(types.NewPointer(named))
		for i := 0; i < ms.Len(); i++ {
			sig, _ := ms.At(i).Type().(*types.Signature)
			if sig != nil && sig.Results().Len() == 1 {
				if b, ok := sig.Results().At(0).Type().(*types.Basic); ok && b.Kind() == types.Bool {
					hasPred = true
				}
			}
		}
		if !hasInt || !hasPred {
			continue
		}
		if named.TypeParams() != nil && named.TypeParams().Len() > 0 {
			m.ItemT[1], m.ItemEmb[1] = n, emb
		} else {
			m.ItemT[0], m.ItemEmb[0] = n, emb
		}
	}
	// one generic item type shared by both caches (type item = itemOf[interface{}])
	if m.ItemT[0] == "" && m.ItemT[1] != "" {
		m.ItemT[0], m.ItemEmb[0] = m.ItemT[1], m.ItemEmb[1]
	}
	for i := 0; i < 2; i++ {
		if m.ItemT[i] == "" {
			m.Problems = append(m.Problems, fmt.Sprintf("cache item type of twin %d not found (struct with an int64 expiration and a bool predicate method)", i))
		}
	}
}

// IsItemRecv: name is an item type or the embedded struct that carries an item type's expiration.
func (m *Model) IsItemRecv(name string) bool {
	if name == "" {
		return false
	}
	return name == m.ItemT[0] || name == m.ItemT[1] || name == m.ItemEmb[0] || name == m.ItemEmb[1]
}

// ItemsInvoke recognises a call through the cache's underlying map interface
// (c.items.<Method>) and returns the method name and the twin index's map model.
func (m *Model) ItemsInvoke(c ssa.CallInstruction) (method string, mm *MapModel, ok bool) {
	cc := c.Common()
	if !cc.IsInvoke() {
		return "", nil, false
	}
	nt, isNamed := cc.Value.Type().(*types.Named)
	if !isNamed || nt.Obj().Pkg() == nil || nt.Obj().Pkg().Path() != CachePath {
		return "", nil, false
	}
	for _, x := range m.Maps {
		if x.Iface == nt.Obj().Name() {
			return cc.Method.Name(), x, true
		}
	}
	return "", nil, false
}

// IsFlag: the address is the resize flag of this map.
func (mm *MapModel) IsFlag(a AddrPath) bool {
	return a.Owner == mm.StateOwner && a.Field == mm.FlagF && mm.FlagF != ""
}

// IsSyncInternal: the address lies inside a sync.Mutex / sync.Cond value (their own CAS words are not ours).
func IsSyncInternal(a AddrPath) bool {
	return a.Owner == "Mutex" || a.Owner == "Cond" || a.Owner == "noCopy"
}

func elemOfPtr(t types.Type) types.Type {
	if p, ok := t.Underlying().(*types.Pointer); ok {
		return p.Elem()
	}
	return t
}

// counterType is the named type of the table's counter field (the slice field whose elements are not buckets), when
// that field has a named type with methods of its own; "" otherwise.
func (mm *MapModel) counterType(p *Prog) string {
	obj := p.Xsync.Pkg.Scope().Lookup(mm.TableT)
	if obj == nil {
		return ""
	}
	ts := structOf(obj.Type())
	if ts == nil {
		return ""
	}
	for i := 0; i < ts.NumFields(); i++ {
		n, ok := ts.Field(i).Type().(*types.Named)
		if !ok {
			continue
		}
		if sl, ok := n.Underlying().(*types.Slice); ok {
			if es := structOf(sl.Elem()); es != nil {
				emb := false
				for j := 0; j < es.NumFields(); j++ {
					if es.Field(j).Embedded() {
						emb = true
					}
				}
				if !emb {
					return n.Obj().Name()
				}
			}
		}
	}
	return ""
}

// CounterOwner maps the receiver argument of a counter helper to the table it counts for: the table itself, or the
// table whose counter field was loaded to obtain the receiver.
func CounterOwner(v ssa.Value) ssa.Value {
	v = StripConv(v)
	if ld, ok := v.(*ssa.UnOp); ok {
		if fa, ok := ld.X.(*ssa.FieldAddr); ok {
			return StripConv(fa.X)
		}
	}
	return v
}

// UniqueArg: the argument passed for parameter p when p's function has exactly one static call site in the program
// (a helper extracted from its only caller); nil otherwise.
func (mm *MapModel) UniqueArg(p *ssa.Parameter) ssa.Value {
	f := p.Parent()
	if f == nil {
		return nil
	}
	idx := -1
	for i, q := range f.Params {
		if q == p {
			idx = i
		}
	}
	if idx < 0 {
		return nil
	}
	mm.sitesOnce.Do(func() {
		mm.sites = map[*ssa.Function][]ssa.CallInstruction{}
		for _, g := range mm.Funcs {
			for _, b := range g.Blocks {
				for _, in := range b.Instrs {
					if c, ok := in.(ssa.CallInstruction); ok {
						if cal := Callee(c); cal != nil && cal != g {
							mm.sites[cal] = append(mm.sites[cal], c)
						}
					}
				}
			}
		}
	})
	ss := mm.sites[f]
	if len(ss) != 1 || idx >= len(ss[0].Common().Args) {
		return nil
	}
	return ss[0].Common().Args[idx]
}

func elemOf2(t types.Type) types.Type {
	if p, ok := t.Underlying().(*types.Pointer); ok {
		return p.Elem()
	}
	return t
}

// newerTblRank orders the candidates for the table identity helper: 2 for a bare (in)equality on every return, +1 when the
// compute core calls it.
func newerTblRank(p *Prog, mm *MapModel, f *ssa.Function) int {
	rank, pure, nRet := 0, true, 0
	Instrs(f, func(in ssa.Instruction) {
		ret, ok := in.(*ssa.Return)
		if !ok || len(ret.Results) != 1 {
			return
		}
		nRet++
		v := ret.Results[0]
		for {
			if u, isU := v.(*ssa.UnOp); isU && u.Op == token.NOT {
				v = u.X
				continue
			}
			break
		}
		if b, isB := v.(*ssa.BinOp); !isB || (b.Op != token.EQL && b.Op != token.NEQ) {
			pure = false
		}
	})
	if pure && nRet > 0 {
		rank += 2
	}
	for _, s := range CallSitesOf(p.Funcs, f) {
		if s.Parent() == mm.Core {
			rank++
			break
		}
	}
	return rank
}

// calledRank: 2 when the compute core calls f, 1 when anything does, 0 for a helper nobody calls.
func calledRank(p *Prog, mm *MapModel, f *ssa.Function) int {
	rank := 0
	for _, s := range CallSitesOf(p.Funcs, f) {
		if s.Parent() == mm.Core {
			return 2
		}
		rank = 1
	}
	return rank
}

package core

import (
	"go/types"
	"sort"
	"strings"

	"golang.org/x/tools/go/ssa"
)

// Effect names.
const (
	EffBucketLock = "acquires-bucket-lock"
	EffResizeMu   = "acquires-resizeMu"
	EffCondWait   = "cond-wait"
	EffChan       = "channel-op"
	EffSleep      = "sleep"
	EffGosched    = "gosched"
	EffWaitGroup  = "waitgroup-wait"
	EffReadsFlag  = "reads-resize-flag"
	EffWrites     = "writes-shared"
	EffSpawn      = "spawns-goroutine"
	EffUnknown    = "unknown-callee"
)

// Blocking is the set of effects that can make the caller wait on another goroutine.
var Blocking = map[string]bool{EffBucketLock: true, EffResizeMu: true, EffCondWait: true, EffChan: true, EffSleep: true, EffWaitGroup: true}

// externalEffects is the frozen table of standard-library callees the library uses.
// A std callee not listed is EffUnknown (fails rules that depend on it).
var externalEffects = map[string][]string{
	"sync/atomic.LoadPointer": nil, "sync/atomic.LoadUint64": nil, "sync/atomic.LoadInt64": nil, "sync/atomic.LoadInt32": nil, "sync/atomic.LoadUint32": nil, "sync/atomic.LoadUintptr": nil,
	"sync/atomic.StorePointer": nil, "sync/atomic.StoreUint64": nil, "sync/atomic.StoreInt64": nil, "sync/atomic.StoreInt32": nil, "sync/atomic.StoreUint32": nil,
	"sync/atomic.AddInt64": nil, "sync/atomic.AddUint64": nil, "sync/atomic.AddInt32": nil,
	"sync/atomic.CompareAndSwapInt64": nil, "sync/atomic.CompareAndSwapUint64": nil, "sync/atomic.CompareAndSwapPointer": nil, "sync/atomic.CompareAndSwapInt32": nil,
	"(*sync/atomic.Value).Load": nil, "(*sync/atomic.Value).Store": nil,
	"(*sync.Mutex).Lock": nil /* classified by LockEventOf */, "(*sync.Mutex).Unlock": nil, "(*sync.Mutex).TryLock": nil,
	"(*sync.RWMutex).Lock": {EffResizeMu}, "(*sync.RWMutex).RLock": {EffResizeMu}, "(*sync.RWMutex).Unlock": nil, "(*sync.RWMutex).RUnlock": nil,
	"(*sync.Cond).Wait": {EffCondWait}, "(*sync.Cond).Broadcast": nil, "(*sync.Cond).Signal": nil, "sync.NewCond": nil,
	"(*sync.WaitGroup).Wait": {EffWaitGroup}, "(*sync.WaitGroup).Add": nil, "(*sync.WaitGroup).Done": nil,
	"(*sync.Once).Do": {EffResizeMu},
	"runtime.Gosched": {EffGosched}, "runtime.SetFinalizer": nil, "runtime.GOMAXPROCS": nil, "runtime.NumCPU": nil, "runtime.KeepAlive": nil,
	"time.Sleep": {EffSleep}, "time.Now": nil, "time.Unix": nil, "time.Until": nil, "time.Since": nil, "time.NewTicker": nil, "(*time.Ticker).Stop": nil,
	"(time.Time).Add": nil, "(time.Time).UnixNano": nil, "(time.Time).Sub": nil, "(time.Time).After": nil, "(time.Time).Before": nil, "(time.Time).IsZero": nil, "(time.Time).Unix": nil,
	"(time.Duration).Nanoseconds": nil,
	"reflect.TypeOf":              nil, "(*reflect.rtype).Elem": nil, "(*reflect.rtype).Kind": nil,
	"fmt.Sprintf": nil, "fmt.Sprint": nil, "fmt.Errorf": nil,
	"math/bits.TrailingZeros64": nil, "math/bits.LeadingZeros64": nil, "math/bits.Len64": nil,
	"(*strings.Builder).WriteString": nil, "(*strings.Builder).String": nil,
	"unsafe.Pointer": nil,
}

// Effects holds bottom-up effect sets over the call graph of the two library packages.
type Effects struct {
	M   *Model
	Of  map[*ssa.Function]map[string]string // effect -> witness ("callee chain @ pos")
	Out map[*ssa.Function][]*ssa.Function   // synchronous callees (static, resolved invoke, closures passed to param-callers)
	// CallsParam[f][i] reports that f (transitively) calls its i-th parameter synchronously.
	CallsParam map[*ssa.Function]map[int]bool
	Unknown    map[string]string // unknown external callee -> first site
}

func isLinkname(f *ssa.Function) bool { return f.Blocks == nil }

// ComputeEffects builds the call graph and the effect sets.
func ComputeEffects(m *Model) *Effects {
	p := m.P
	e := &Effects{M: m, Of: map[*ssa.Function]map[string]string{}, Out: map[*ssa.Function][]*ssa.Function{}, CallsParam: map[*ssa.Function]map[int]bool{}, Unknown: map[string]string{}}
	inLib := map[*ssa.Function]bool{}
	for _, f := range p.Funcs {
		inLib[f] = true
		e.Of[f] = map[string]string{}
		e.CallsParam[f] = map[int]bool{}
	}
	paramIndex := func(f *ssa.Function, v ssa.Value) int {
		for i, prm := range f.Params {
			if ssa.Value(prm) == v {
				return i
			}
		}
		return -1
	}
	// pass 1: CallsParam fixpoint
	for changed := true; changed; {
		changed = false
		for _, f := range p.Funcs {
			Instrs(f, func(in ssa.Instruction) {
				c, ok := in.(ssa.CallInstruction)
				if !ok {
					return
				}
				if _, isGo := in.(*ssa.Go); isGo {
					return
				}
				cc := c.Common()
				if !cc.IsInvoke() {
					if i := paramIndex(f, cc.Value); i >= 0 && !e.CallsParam[f][i] {
						e.CallsParam[f][i] = true
						changed = true
					}
				}
				var cal *ssa.Function
				off := 0
				if cc.IsInvoke() {
					if name, mm, ok := m.ItemsInvoke(c); ok {
						cal = mm.Methods[name]
						off = 1 // receiver is Params[0] in the method body
					}
				} else {
					cal = Callee(c)
				}
				if cal == nil || !inLib[cal] {
					return
				}
				for ai, a := range cc.Args {
					pi := ai + off
					if !cc.IsInvoke() && cal.Signature.Recv() != nil {
						pi = ai // receiver already included in Args for static method calls
					}
					if e.CallsParam[cal][pi] {
						if i := paramIndex(f, a); i >= 0 && !e.CallsParam[f][i] {
							e.CallsParam[f][i] = true
							changed = true
						}
					}
				}
			})
		}
	}
	// pass 2: direct effects and edges
	for _, f := range p.Funcs {
		outSeen := map[*ssa.Function]bool{}
		addOut := func(g *ssa.Function) {
			if g != nil && inLib[g] && !outSeen[g] {
				outSeen[g] = true
				e.Out[f] = append(e.Out[f], g)
			}
		}
		set := func(eff, w string) {
			if _, ok := e.Of[f][eff]; !ok {
				e.Of[f][eff] = w
			}
		}
		Instrs(f, func(in ssa.Instruction) {
			pos := p.InstrPos(in)
			switch x := in.(type) {
			case *ssa.Send, *ssa.Select:
				set(EffChan, FuncName(f)+" @ "+pos)
				return
			case *ssa.UnOp:
				if x.Op.String() == "<-" {
					set(EffChan, FuncName(f)+" @ "+pos)
				}
				return
			case *ssa.Go:
				set(EffSpawn, FuncName(f)+" @ "+pos)
				return
			case *ssa.Store:
				if key := Addr(x.Addr); m.IsSharedWord(key) && !m.freshRoot(key.Root) {
					set(EffWrites, "plain store to "+key.Key()+" in "+FuncName(f)+" @ "+pos)
				}
				return
			}
			c, ok := in.(ssa.CallInstruction)
			if !ok {
				return
			}
			cc := c.Common()
			if ev := m.LockEventOf(in); ev != nil {
				if ev.Acquire {
					if ev.Class == "bucket" {
						set(EffBucketLock, FuncName(f)+" @ "+pos)
					} else {
						set(EffResizeMu, FuncName(f)+" @ "+pos)
					}
				}
				if cal := Callee(c); cal != nil && inLib[cal] {
					addOut(cal) // spin helper: Gosched inside
				}
				return
			}
			if op, addr, ok := AtomicOp(c); ok {
				a := Addr(addr)
				for _, mm := range m.Maps {
					if mm.IsFlag(a) && (op == "Load" || op == "CAS") {
						set(EffReadsFlag, FuncName(f)+" @ "+pos)
					}
				}
				if op != "Load" && m.IsSharedWord(a) && !m.freshRoot(a.Root) {
					set(EffWrites, "atomic "+op+" of "+a.Key()+" in "+FuncName(f)+" @ "+pos)
				}
				return
			}
			if cc.IsInvoke() {
				if name, mm, ok := m.ItemsInvoke(c); ok {
					cal := mm.Methods[name]
					addOut(cal)
					for ai, a := range cc.Args {
						if cal != nil && e.CallsParam[cal][ai+1] {
							if mc, ok := a.(*ssa.MakeClosure); ok {
								addOut(mc.Fn.(*ssa.Function))
							}
						}
					}
					return
				}
				// other interface calls: reflect.Type methods etc.
				id := "(" + cc.Value.Type().String() + ")." + cc.Method.Name()
				if strings.HasPrefix(id, "(reflect.Type).") {
					return
				}
				e.Unknown[id] = pos
				set(EffUnknown, id+" @ "+pos)
				return
			}
			if IsBuiltinCall(c) != "" {
				if IsBuiltinCall(c) == "close" {
					// closing a channel never blocks
				}
				return
			}
			cal := Callee(c)
			if cal == nil {
				// dynamic call of a function value: user function or closure; role decided by callers
				if mc, ok := cc.Value.(*ssa.MakeClosure); ok {
					addOut(mc.Fn.(*ssa.Function))
				} else {
					set("calls-funcvalue:"+FuncValueRole(f, cc.Value), FuncName(f)+" @ "+pos)
				}
				return
			}
			if inLib[cal] {
				addOut(cal)
				for ai, a := range cc.Args {
					if e.CallsParam[cal][ai] {
						if mc, ok := a.(*ssa.MakeClosure); ok {
							addOut(mc.Fn.(*ssa.Function))
						}
					}
				}
				return
			}
			if isLinkname(cal) && cal.Pkg == p.Xsync {
				return // runtime hash primitives / fastrand: pure leaves
			}
			id := FuncID(cal)
			effs, known := externalEffects[id]
			if !known {
				e.Unknown[id] = pos
				set(EffUnknown, id+" @ "+pos)
				return
			}
			for _, ef := range effs {
				set(ef, id+" in "+FuncName(f)+" @ "+pos)
			}
		})
	}
	// pass 3: propagate bottom-up to fixpoint
	for changed := true; changed; {
		changed = false
		for _, f := range p.Funcs {
			for _, g := range e.Out[f] {
				for eff, w := range e.Of[g] {
					if _, ok := e.Of[f][eff]; !ok {
						e.Of[f][eff] = FuncName(f) + " -> " + w
						changed = true
					}
				}
			}
		}
	}
	return e
}

// FuncValueRole names the role of a dynamically called function value: the parameter,
// field or captured variable it was read from.
func FuncValueRole(f *ssa.Function, v ssa.Value) string {
	// the map's hash function is recognised by its shape - func(key, seed uint64) uint64 - not by what it is called
	if sig, ok := v.Type().Underlying().(*types.Signature); ok && sig.Params().Len() == 2 && sig.Results().Len() == 1 {
		isU64 := func(t types.Type) bool {
			b, ok := t.Underlying().(*types.Basic)
			return ok && b.Kind() == types.Uint64
		}
		if isU64(sig.Params().At(1).Type()) && isU64(sig.Results().At(0).Type()) {
			return "hasher:" + funcValueRole(f, v)
		}
	}
	return funcValueRole(f, v)
}

func funcValueRole(f *ssa.Function, v ssa.Value) string {
	switch x := v.(type) {
	case *ssa.Parameter:
		return "param:" + x.Name()
	case *ssa.FreeVar:
		return "captured:" + x.Name()
	case *ssa.UnOp:
		if fv, ok := x.X.(*ssa.FreeVar); ok {
			return "captured:" + fv.Name()
		}
		a := Addr(x.X)
		if a.Field != "" {
			return "field:" + a.Key()
		}
	case *ssa.TypeAssert:
		return "typeassert:" + types.TypeString(x.AssertedType, func(p *types.Package) string { return p.Name() })
	case *ssa.Call:
		if cal := Callee(x); cal != nil {
			return "result:" + FuncName(cal)
		}
	case *ssa.Phi:
		return "phi"
	}
	return "value:" + v.Name()
}

// Has reports whether f has the effect and returns its witness.
func (e *Effects) Has(f *ssa.Function, eff string) (string, bool) {
	w, ok := e.Of[f][eff]
	return w, ok
}

// List returns the sorted effect names of f.
func (e *Effects) List(f *ssa.Function) []string {
	var s []string
	for k := range e.Of[f] {
		s = append(s, k)
	}
	sort.Strings(s)
	return s
}

// Package core holds the loader, SSA helpers, obligation plumbing and the
// generic analysis engines (pathcheck, effects) of cachelint.
package core

import (
	"fmt"
	"go/token"
	"go/types"
	"os"
	"sort"
	"strings"

	"golang.org/x/tools/go/packages"
	"golang.org/x/tools/go/ssa"
	"golang.org/x/tools/go/ssa/ssautil"
)

const (
	CachePath = "github.com/fufuok/cache"
	XsyncPath = "github.com/fufuok/cache/internal/xsync"
)

// Prog is one loaded, type-checked and SSA-built view of the repository.
type Prog struct {
	Dir    string
	Fset   *token.FileSet
	Pkgs   []*packages.Package
	SSA    *ssa.Program
	Cache  *ssa.Package
	Xsync  *ssa.Package
	Funcs  []*ssa.Function // every source function body (incl. closures) of the two library packages, origin bodies for generics
	byName map[string]*ssa.Function
	GOARCH string
}

// LoadOpts selects a build configuration and optional in-memory file overlay.
type LoadOpts struct {
	Dir     string
	GOARCH  string            // "" = host
	Overlay map[string][]byte // absolute path -> content
}

// Load type-checks ./... under opts.Dir and builds SSA. Any type error, a
// package count of 0 or a missing library package is an error (no verdict).
func Load(opts LoadOpts) (*Prog, error) {
	env := append(os.Environ(), "GOFLAGS=-mod=mod", "GOPROXY=off", "GOSUMDB=off", "GOTOOLCHAIN=local", "GOWORK=off", "CGO_ENABLED=0")
	if opts.GOARCH != "" {
		env = append(env, "GOARCH="+opts.GOARCH)
	}
	cfg := &packages.Config{
		Mode:    packages.LoadSyntax,
		Dir:     opts.Dir,
		Env:     env,
		Overlay: opts.Overlay,
		Tests:   false,
	}
	pkgs, err := packages.Load(cfg, "./...")
	if err != nil {
		return nil, fmt.Errorf("packages.Load: %w", err)
	}
	if len(pkgs) == 0 {
		return nil, fmt.Errorf("no packages loaded from %s", opts.Dir)
	}
	var errs []string
	for _, p := range pkgs {
		for _, e := range p.Errors {
			errs = append(errs, e.Error())
		}
	}
	if len(errs) > 0 {
		sort.Strings(errs)
		if len(errs) > 8 {
			errs = errs[:8]
		}
		return nil, fmt.Errorf("type-check errors: %s", strings.Join(errs, "; "))
	}
	sp, spkgs := ssautil.Packages(pkgs, ssa.BuilderMode(0))
	sp.Build()
	p := &Prog{Dir: opts.Dir, Fset: pkgs[0].Fset, Pkgs: pkgs, SSA: sp, byName: map[string]*ssa.Function{}, GOARCH: opts.GOARCH}
	for i, pk := range pkgs {
		switch pk.PkgPath {
		case CachePath:
			p.Cache = spkgs[i]
		case XsyncPath:
			p.Xsync = spkgs[i]
		}
	}
	if p.Cache == nil || p.Xsync == nil {
		return nil, fmt.Errorf("library packages %s / %s not both present", CachePath, XsyncPath)
	}
	p.collectFuncs()
	return p, nil
}

func (p *Prog) collectFuncs() {
	seen := map[*ssa.Function]bool{}
	var add func(f *ssa.Function)
	add = func(f *ssa.Function) {
		if f == nil || seen[f] || f.Blocks == nil {
			return
		}
		seen[f] = true
		p.Funcs = append(p.Funcs, f)
		for _, a := range f.AnonFuncs {
			add(a)
		}
	}
	for _, sp := range []*ssa.Package{p.Xsync, p.Cache} {
		scope := sp.Pkg.Scope()
		names := scope.Names()
		for _, n := range names {
			switch o := scope.Lookup(n).(type) {
			case *types.Func:
				add(p.SSA.FuncValue(o))
			case *types.TypeName:
				if named, ok := o.Type().(*types.Named); ok {
					for i := 0; i < named.NumMethods(); i++ {
						add(p.SSA.FuncValue(named.Method(i)))
					}
				}
			}
		}
		if init := sp.Func("init"); init != nil {
			add(init)
		}
	}
	sort.SliceStable(p.Funcs, func(i, j int) bool { return p.Funcs[i].Pos() < p.Funcs[j].Pos() })
	for _, f := range p.Funcs {
		p.byName[FuncName(f)] = f
	}
}

// FuncName is a stable, position-free display name: "(*Map).doCompute",
// "xsync.copyBucket", closures as "parent$1".
func FuncName(f *ssa.Function) string {
	if f == nil {
		return "<nil>"
	}
	if f.Parent() != nil {
		// closure: name is parent$N
		return FuncName(f.Parent()) + strings.TrimPrefix(f.Name(), f.Parent().Name())
	}
	pk := ""
	if f.Pkg != nil {
		pk = f.Pkg.Pkg.Name() + "."
	} else if o := f.Object(); o != nil && o.Pkg() != nil {
		pk = o.Pkg().Name() + "."
	}
	if recv := f.Signature.Recv(); recv != nil {
		t := recv.Type()
		ptr := ""
		if pt, ok := t.(*types.Pointer); ok {
			t = pt.Elem()
			ptr = "*"
		}
		n := t.String()
		if nt, ok := t.(*types.Named); ok {
			n = nt.Obj().Name()
		}
		return pk + "(" + ptr + n + ")." + f.Name()
	}
	return pk + f.Name()
}

// Func looks a function up by its FuncName.
func (p *Prog) Func(name string) *ssa.Function { return p.byName[name] }

// Pos renders a position relative to the repository root.
func (p *Prog) Pos(pos token.Pos) string {
	if !pos.IsValid() {
		return "-"
	}
	ps := p.Fset.Position(pos)
	fn := strings.TrimPrefix(ps.Filename, p.Dir+"/")
	return fmt.Sprintf("%s:%d", fn, ps.Line)
}

// InstrPos finds the best position for an instruction (falls back to operands / block neighbours).
func (p *Prog) InstrPos(in ssa.Instruction) string {
	if in == nil {
		return "-"
	}
	if in.Pos().IsValid() {
		return p.Pos(in.Pos())
	}
	if v, ok := in.(ssa.Value); ok {
		_ = v
	}
	b := in.Block()
	if b != nil {
		idx := -1
		for i, x := range b.Instrs {
			if x == in {
				idx = i
			}
		}
		for i := idx - 1; i >= 0; i-- {
			if b.Instrs[i].Pos().IsValid() {
				return p.Pos(b.Instrs[i].Pos())
			}
		}
		for i := idx + 1; i >= 0 && i < len(b.Instrs); i++ {
			if b.Instrs[i].Pos().IsValid() {
				return p.Pos(b.Instrs[i].Pos())
			}
		}
	}
	if in.Parent() != nil {
		return p.Pos(in.Parent().Pos())
	}
	return "-"
}

// Sizes returns the sizing function of the analysed target (word size follows GOARCH of the load).
func (p *Prog) Sizes() types.Sizes {
	for _, pk := range p.Pkgs {
		if pk.TypesSizes != nil {
			return pk.TypesSizes
		}
	}
	return types.SizesFor("gc", "amd64")
}

package core

import (
	"go/types"

	"golang.org/x/tools/go/ssa"
)

// IsSharedWord reports whether an access path denotes memory that lock-free readers
// or other goroutines may read concurrently: bucket words, the map header words and
// the counter stripes. Derived from the model's types, not from a name list:
// every field of a bucket struct, the table/flag fields and every int64 field of the
// map struct, and the fields of the counter stripe type.
func (m *Model) IsSharedWord(a AddrPath) bool {
	if a.Owner == "" {
		return false
	}
	for _, mm := range m.Maps {
		if contains(mm.BucketT, a.Owner) {
			// sync.Mutex inside the bucket is not a data word
			return !m.isMutexField(a)
		}
		if a.Owner == mm.StateOwner && mm.StateOwner != mm.Name {
			// resize bookkeeping embedded by value: the flag and the 64-bit statistics words
			if a.Field == mm.FlagF {
				return true
			}
			if obj := m.P.Xsync.Pkg.Scope().Lookup(mm.StateOwner); obj != nil {
				if st := structOf(obj.Type()); st != nil {
					for i := 0; i < st.NumFields(); i++ {
						if st.Field(i).Name() == a.Field {
							if b, ok := st.Field(i).Type().(*types.Basic); ok && b.Kind() == types.Int64 {
								return true
							}
							if IsAtomicWordType(st.Field(i).Type()) {
								return true
							}
						}
					}
				}
			}
			return false
		}
		if a.Owner == mm.Name {
			if a.Field == mm.TableF || a.Field == mm.FlagF {
				return true
			}
			if st, ok := mm.Type.Underlying().(*types.Struct); ok {
				for i := 0; i < st.NumFields(); i++ {
					if st.Field(i).Name() == a.Field {
						if b, ok := st.Field(i).Type().(*types.Basic); ok && b.Kind() == types.Int64 {
							return true
						}
						if IsAtomicWordType(st.Field(i).Type()) {
							return true
						}
					}
				}
			}
			return false
		}
	}
	return a.Owner == m.stripeType()
}

func (m *Model) isMutexField(a AddrPath) bool {
	obj := m.P.Xsync.Pkg.Scope().Lookup(a.Owner)
	if obj == nil {
		return false
	}
	st := structOf(obj.Type())
	if st == nil {
		return false
	}
	for i := 0; i < st.NumFields(); i++ {
		if st.Field(i).Name() == a.Field {
			if n, ok := st.Field(i).Type().(*types.Named); ok && n.Obj().Pkg() != nil && n.Obj().Pkg().Path() == "sync" {
				return true
			}
		}
	}
	return false
}

// stripeType is the element type of the table's counter slice (the slice field whose element has no embedded struct).
func (m *Model) StripeType() string { return m.stripeType() }

func (m *Model) stripeType() string {
	for _, mm := range m.Maps {
		if obj := m.P.Xsync.Pkg.Scope().Lookup(mm.TableT); obj != nil {
			if ts := structOf(obj.Type()); ts != nil {
				for i := 0; i < ts.NumFields(); i++ {
					if sl, ok := ts.Field(i).Type().Underlying().(*types.Slice); ok {
						if n := namedOf(sl.Elem()); n != "" && !contains(mm.BucketT, n) {
							return n
						}
					}
				}
			}
		}
	}
	return ""
}

// freshRoot reports whether the root of an access path is an allocation made by this
// activation (new/make/composite literal). Publication is checked separately by the access rules.
func (m *Model) freshRoot(v ssa.Value) bool { return m.freshRootD(v, 0) }

// FreshRoot is the exported form of freshRoot.
func (m *Model) FreshRoot(v ssa.Value) bool { return m.freshRootD(v, 0) }

func (m *Model) freshRootD(v ssa.Value, depth int) bool {
	if depth > 8 {
		return false
	}
	switch x := StripConv(v).(type) {
	case *ssa.Alloc:
		return true
	case *ssa.MakeSlice:
		return true
	case *ssa.Call:
		// result of a table constructor
		cal := Callee(x)
		for _, mm := range m.Maps {
			if cal != nil && cal == mm.NewTable {
				return true
			}
		}
	case *ssa.UnOp:
		// load of a slice header from a fresh struct: buckets := t.buckets where t is fresh
		a := Addr(x.X)
		if a.Root != nil && a.Root != v {
			return m.freshRootD(a.Root, depth+1)
		}
	case *ssa.Phi:
		for _, e := range x.Edges {
			if !m.freshRootD(e, depth+1) {
				return false
			}
		}
		return len(x.Edges) > 0
	}
	return false
}

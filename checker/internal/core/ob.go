package core

import (
	"encoding/json"
	"fmt"
	"os"
	"path/filepath"
	"sort"
	"strings"
)

// Status of one obligation.
const (
	Pass      = "pass"
	Fail      = "fail"
	Undecided = "undecided" // analyser could not decide; fails the check, reported distinctly
)

// Obligation is one rule instance on one construct. Key() never contains a line number.
type Obligation struct {
	Property  string   `json:"property"`
	Rule      string   `json:"rule"`
	Construct string   `json:"construct"`
	Pos       string   `json:"pos"`
	Status    string   `json:"status"`
	Detail    string   `json:"detail,omitempty"`
	Witness   []string `json:"witness,omitempty"`
	Trivial   bool     `json:"-"` // verdict did not depend on any path/site
}

func (o *Obligation) Key() string { return o.Rule + " @ " + o.Construct }

// Report collects the obligations of one property run.
type Report struct {
	Property string
	Obs      []*Obligation
	Analysed map[string]bool // functions analysed
	Specs    map[string]bool // specialisations analysed
	Notes    []string
	OutScope []string
	keys     map[string]int
}

func NewReport(prop string) *Report {
	return &Report{Property: prop, Analysed: map[string]bool{}, Specs: map[string]bool{}, keys: map[string]int{}}
}

func (r *Report) add(o *Obligation) *Obligation {
	o.Property = r.Property
	// make keys unique but stable: a repeated key gets an ordinal suffix
	k := o.Key()
	r.keys[k]++
	if n := r.keys[k]; n > 1 {
		o.Construct = fmt.Sprintf("%s #%d", o.Construct, n)
	}
	r.Obs = append(r.Obs, o)
	return o
}

func (r *Report) Pass(rule, construct, pos, detail string) *Obligation {
	return r.add(&Obligation{Rule: rule, Construct: construct, Pos: pos, Status: Pass, Detail: detail})
}
func (r *Report) Fail(rule, construct, pos, detail string, witness ...string) *Obligation {
	return r.add(&Obligation{Rule: rule, Construct: construct, Pos: pos, Status: Fail, Detail: detail, Witness: witness})
}
func (r *Report) Undecided(rule, construct, pos, detail string) *Obligation {
	return r.add(&Obligation{Rule: rule, Construct: construct, Pos: pos, Status: Undecided, Detail: detail})
}

// Check adds a pass or fail obligation depending on ok.
func (r *Report) Check(ok bool, rule, construct, pos, passDetail, failDetail string, witness ...string) *Obligation {
	if ok {
		return r.Pass(rule, construct, pos, passDetail)
	}
	return r.Fail(rule, construct, pos, failDetail, witness...)
}

// MinCount adds the non-vacuity obligation for a rule: at least min instances of role were found.
func (r *Report) MinCount(rule, role string, got, min int) {
	c := "nonvacuous/" + role
	if got >= min {
		o := r.Pass(rule, c, "-", fmt.Sprintf("%d instance(s) of %s found (minimum %d)", got, role, min))
		o.Trivial = true
	} else {
		r.Fail(rule, c, "-", fmt.Sprintf("only %d instance(s) of %s found, expected at least %d: the rule would pass vacuously (anchor lost or protocol step deleted)", got, role, min))
	}
}

func (r *Report) Fn(name string)   { r.Analysed[name] = true }
func (r *Report) Spec(name string) { r.Specs[name] = true }
func (r *Report) Note(s string)    { r.Notes = append(r.Notes, s) }

// Merge appends another report's obligations (used when a property borrows rules of another).
func (r *Report) Merge(o *Report) {
	for _, ob := range o.Obs {
		c := *ob
		r.add(&c)
	}
	for k := range o.Analysed {
		r.Analysed[k] = true
	}
	for k := range o.Specs {
		r.Specs[k] = true
	}
	r.Notes = append(r.Notes, o.Notes...)
	r.OutScope = append(r.OutScope, o.OutScope...)
}

// KnownFinding is one committed entry of known_findings.json.
type KnownFinding struct {
	Property string `json:"property"`
	Key      string `json:"key"`    // obligation key prefix (rule @ construct)
	Status   string `json:"status"` // "known" | "fixed"
	Commit   string `json:"commit,omitempty"`
	What     string `json:"what"`
}

func LoadKnown(path string) ([]KnownFinding, error) {
	b, err := os.ReadFile(path)
	if err != nil {
		if os.IsNotExist(err) {
			return nil, nil
		}
		return nil, err
	}
	var f struct {
		Findings []KnownFinding `json:"findings"`
	}
	if err := json.Unmarshal(b, &f); err != nil {
		return nil, err
	}
	return f.Findings, nil
}

// Verdict is the outcome of a property run after known-findings filtering.
type Verdict struct {
	Violations []*Obligation
	Known      []string // KNOWN-FINDING lines
}

func (r *Report) Verdict(known []KnownFinding) Verdict {
	var v Verdict
	seenKnown := map[string]bool{}
	for _, o := range r.Obs {
		if o.Status == Pass {
			continue
		}
		matched := false
		for _, k := range known {
			if k.Status != "known" || k.Property != r.Property {
				continue
			}
			if strings.HasPrefix(o.Key(), k.Key) {
				matched = true
				if !seenKnown[k.Key] {
					seenKnown[k.Key] = true
					v.Known = append(v.Known, fmt.Sprintf("KNOWN-FINDING: property=%s %s", r.Property, k.What))
				}
			}
		}
		if !matched {
			v.Violations = append(v.Violations, o)
		}
	}
	return v
}

// Evidence per EVIDENCE.schema.json, level "other".
type Evidence struct {
	PropertyID  string                 `json:"property_id"`
	Tier        string                 `json:"tier"`
	Seed        int64                  `json:"seed"`
	Level       string                 `json:"level"`
	Coverage    map[string]interface{} `json:"coverage"`
	Assumptions []string               `json:"assumptions"`
	WallS       float64                `json:"wall_s"`
	Violations  int                    `json:"violations"`
}

func sortedKeys(m map[string]bool) []string {
	var s []string
	for k := range m {
		s = append(s, k)
	}
	sort.Strings(s)
	return s
}

// WriteEvidence writes /verif/evidence/<id>.json from what this run measured.
func (r *Report) WriteEvidence(dir, tier string, seed int64, explanation, ruleText string, assumptions []string, configs []string, controls interface{}, wall float64, v Verdict) error {
	total, discharged, nontriv := 0, 0, 0
	distinct := map[string]bool{}
	byRule := map[string][2]int{}
	for _, o := range r.Obs {
		total++
		c := byRule[o.Rule]
		c[0]++
		if o.Status == Pass {
			discharged++
			c[1]++
		}
		byRule[o.Rule] = c
		if !o.Trivial && !distinct[o.Key()] {
			distinct[o.Key()] = true
			nontriv++
		}
	}
	// samples: first obligation of each rule plus every non-pass
	var samples []interface{}
	seenRule := map[string]int{}
	for _, o := range r.Obs {
		if o.Status != Pass || seenRule[o.Rule] < 2 {
			seenRule[o.Rule]++
			samples = append(samples, map[string]interface{}{
				"rule": o.Rule, "construct": o.Construct, "site": o.Pos, "verdict": o.Status, "detail": o.Detail,
			})
		}
		if len(samples) >= 60 {
			break
		}
	}
	rules := map[string]interface{}{}
	for k, c := range byRule {
		rules[k] = map[string]int{"obligations": c[0], "discharged": c[1]}
	}
	cov := map[string]interface{}{
		"explanation":         explanation,
		"obligations":         total,
		"discharged":          discharged,
		"evaluations":         total,
		"distinct_nontrivial": nontriv,
		"rule":                ruleText,
		"samples":             samples,
		"per_rule":            rules,
		"functions_analysed":  sortedKeys(r.Analysed),
		"specialisations":     sortedKeys(r.Specs),
		"configs":             configs,
		"out_of_scope":        r.OutScope,
		"notes":               r.Notes,
		"known_findings":      v.Known,
		"checker_cmd":         "bin/cachelint check " + r.Property + " " + tier,
		"trusted_base":        []string{"go/types", "golang.org/x/tools/go/packages v0.29.0", "golang.org/x/tools/go/ssa v0.29.0", "the rule tables of cachelint (DESIGN.md)"},
	}
	if controls != nil {
		cov["controls"] = controls
	}
	ev := Evidence{PropertyID: r.Property, Tier: tier, Seed: seed, Level: "other", Coverage: cov, Assumptions: assumptions, WallS: wall, Violations: len(v.Violations)}
	b, err := json.MarshalIndent(ev, "", " ")
	if err != nil {
		return err
	}
	if err := os.MkdirAll(dir, 0o755); err != nil {
		return err
	}
	return os.WriteFile(filepath.Join(dir, r.Property+".json"), append(b, '\n'), 0o644)
}

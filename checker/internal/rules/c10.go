package rules

import (
	"fmt"
	"go/constant"
	"go/token"
	"go/types"
	"strings"

	"cachelint/internal/core"

	"golang.org/x/tools/go/ssa"
)

func init() {
	Registry["C10"] = C10
	Metas["C10"] = Meta{
		Explanation: "Decides the structural clauses of C10: (H1) every found-path of the lock-free readers and of the compute core (hit under lock, call of the user function with loaded=true) is dominated by the true edge of a Go == between the stored key and the lookup key - a hash-byte or top-hash match alone is never a hit, so colliding keys cannot alias; (H2) every call of the runtime type-hash primitive receives a pair (type descriptor of X, pointer to a variable of static type X) for one and the same X: descriptors are traced to the type word of an interface built from a value of static non-interface type X or to the data word of a reflect.Type describing X, pointers to the address of a variable of type X; the data word of an interface header is NOT accepted as a pointer to the dynamic value (for pointer-shaped dynamic types it is the value itself) - this is what makes interface-kinded, pointer, nil and padded keys hash like == compares; (H3) the byte-wise memory hash is used only for strings, with the data pointer and length of one and the same string - never for generic keys (+0/-0, padding, nested strings would break ==), and a hash function for generic keys reads the key's raw bits (an unsafe integer reinterpretation) only when it is handed out under reflect.Kind tests for kinds whose == is bit equality (booleans, integers, pointers, channels); (H4) the hash that selects the root bucket and the bucket-local byte - in Load, the compute core and any other method that selects a bucket by key - is the map's hasher applied to the lookup key with the attempt's table seed, and the resize copy re-hashes the stored key with the map's own hasher; (H5) no explicit panic is reachable from the public API (each is in a branch that is dead under every constant mode, or guarded by a flag that is never set); (H6, H7) slot writes pair a bucket with its own index and published entries are never rewritten (C03/C04 P14, P2); (H8) an entry stays reachable under its key: a bucket's packed hash bits are rewritten from that bucket's own word and the lock-free lookup reports a key absent only at the end of the chain (C03/C04 P10, P11). NOT decided: correctness of the runtime's typehash itself; NaN keys (excluded by the property).",
		Rule:        "one obligation per (rule, call site | exit | panic site); non-trivial = decided from value provenance traces, dominance or explored core paths",
		Assumptions: []string{"runtime.typehash(t, p, seed) hashes the value of type t stored at p consistently with == (as the builtin map does)"},
	}
}

func C10(r *Run) *core.Report {
	rep := core.NewReport("C10")
	if !modelOK(r, rep, "C10.H0") {
		return rep
	}
	c10H1(r, rep)
	c10H2H3(r, rep)
	c10H3raw(r, rep)
	c10H4(r, rep)
	c10H5(r, rep)
	// H6: a stored entry lands in the slot that was matched or found free for *this* key - never in a slot of another
	// bucket, where it would replace a different key's entry (the slot pairing rule P14 of the compute core)
	n6 := 0
	for i, mm := range r.M.Maps {
		tmp := core.NewReport("C10")
		p3p5Core(r, tmp, []string{"C03", "C04"}[i], mm)
		n6 += borrow(rep, tmp, "C10.H6", "C03.P14", "C04.P14")
	}
	rep.MinCount("C10.H6", "slot pairing obligations", n6, 4)
	// H8: an entry stays reachable under its key: the hash bits kept in a bucket's packed word are rewritten from that
	// bucket's own word (P10: inserting into one bucket must not replace the bits of the other keys of another), and the
	// lock-free lookup gives up only at the end of the chain (P11: an emptied bucket in the middle hides nothing)
	n8 := 0
	for i, mm := range r.M.Maps {
		tmp := core.NewReport("C10")
		pr := []string{"C03", "C04"}[i]
		p10RMW(r, tmp, pr, mm)
		p11Absence(r, tmp, pr+".P11", mm)
		n8 += borrow(rep, tmp, "C10.H8", pr+".P10", pr+".P11")
	}
	rep.MinCount("C10.H8", "premise obligations (packed-word rewrites, absence only at the end of the chain)", n8, 6)
	// H7: the key a reader compared stays the key of the entry it returns: published entries are never written again and
	// slot pointers are per-call allocations (restated from C14.A3/A4 through C03/C04.P2)
	n7 := 0
	for i, mm := range r.M.Maps {
		tmp := core.NewReport("C10")
		p2Unique(r, tmp, []string{"C03", "C04"}[i], mm)
		n7 += borrow(rep, tmp, "C10.H7", "C03.P2", "C04.P2")
	}
	rep.MinCount("C10.H7", "premise obligations (entries immutable, pointers unique)", n7, 3)
	return rep
}

func c10H1(r *Run, rep *core.Report) {
	n := 0
	for _, mm := range r.M.Maps {
		ords := exitOrdinals(mm.Core)
		for _, sp := range specsFor(r, mm.Core) {
			cf := coreFlow(r, mm, sp)
			rep.Spec(cf.Name)
			worst := map[*ssa.Return]string{}
			seen := map[*ssa.Return]bool{}
			var order []*ssa.Return
			for _, ex := range cf.Exits {
				hitPath := ex.S.Loaded == 1 || (ex.S.Calls == 0 && !ex.S.FastHit)
				if !hitPath {
					continue
				}
				if !seen[ex.Ret] {
					seen[ex.Ret] = true
					order = append(order, ex.Ret)
				}
				if !ex.S.KeyHit && worst[ex.Ret] == "" {
					worst[ex.Ret] = "a hit is reported on a path that has not passed a == comparison of the stored key with the lookup key (hash-byte / top-hash match taken as equality): distinct keys with colliding hashes alias | path: " + fmt.Sprint(ex.Trace)
				}
			}
			for _, ret := range order {
				n++
				rep.Check(worst[ret] == "", "C10.H1", fmt.Sprintf("%s exit#%d", cf.Name, ords[ret]), r.P.InstrPos(ret), "hit path dominated by a key == comparison", worst[ret])
			}
		}
	}
	// readers: borrowed from the protocol rules (P1 / P1')
	for idx, prop := range []string{"C03", "C04"} {
		tmp := core.NewReport("C10")
		mm := r.M.Maps[idx]
		if mm.EntryT == "" {
			p1Snapshot(r, tmp, prop, mm)
		} else {
			p1Entry(r, tmp, prop, mm)
		}
		for _, o := range tmp.Obs {
			if o.Trivial {
				continue
			}
			c := *o
			c.Rule = "C10.H1"
			rep.Obs = append(rep.Obs, &c)
			n++
		}
	}
	rep.MinCount("C10.H1", "hit paths", n, 8)
}

// resolve follows a value through conversions, single-store local cells and captured cells into the
// function that created the closure.
func resolve(v ssa.Value, depth int) ssa.Value {
	for d := depth; d < 12 && v != nil; d++ {
		v = core.StripConv(v)
		ld, ok := v.(*ssa.UnOp)
		if !ok || ld.Op != token.MUL {
			return v
		}
		switch x := ld.X.(type) {
		case *ssa.Alloc:
			st := uniqueStore(x)
			if st == nil {
				return v
			}
			v = st.Val
		case *ssa.FreeVar:
			cl := x.Parent()
			par := cl.Parent()
			if par == nil {
				return v
			}
			var bound ssa.Value
			core.Instrs(par, func(in ssa.Instruction) {
				if mc, ok := in.(*ssa.MakeClosure); ok && mc.Fn == ssa.Value(cl) {
					for i, fv := range cl.FreeVars {
						if fv == x && i < len(mc.Bindings) {
							bound = mc.Bindings[i]
						}
					}
				}
			})
			al, ok := bound.(*ssa.Alloc)
			if !ok {
				return v
			}
			st := uniqueStore(al)
			if st == nil {
				return v
			}
			v = st.Val
		default:
			return v
		}
	}
	return v
}

func uniqueStore(al *ssa.Alloc) *ssa.Store {
	var st *ssa.Store
	n := 0
	for _, ref := range *al.Referrers() {
		if s, ok := ref.(*ssa.Store); ok && s.Addr == ssa.Value(al) {
			st = s
			n++
		}
	}
	if n == 1 {
		return st
	}
	return nil
}

// headerWord recognises a load of word #idx of a two-word interface-header overlay placed on a local
// variable, and returns that variable's allocation.
func headerWord(v ssa.Value) (al *ssa.Alloc, idx int, ok bool) {
	ld, isLd := core.StripConv(v).(*ssa.UnOp)
	if !isLd || ld.Op != token.MUL {
		return nil, 0, false
	}
	fa, isFA := ld.X.(*ssa.FieldAddr)
	if !isFA {
		return nil, 0, false
	}
	st := core.StructOf(fa.X.Type())
	if st == nil || st.NumFields() != 2 {
		return nil, 0, false
	}
	for i := 0; i < 2; i++ {
		b, isB := st.Field(i).Type().Underlying().(*types.Basic)
		if !isB || (b.Kind() != types.Uintptr && b.Kind() != types.UnsafePointer) {
			return nil, 0, false
		}
	}
	base := core.StripConv(fa.X)
	a, isA := base.(*ssa.Alloc)
	if !isA {
		return nil, 0, false
	}
	if _, isIface := elemOf(a.Type()).Underlying().(*types.Interface); !isIface {
		return nil, 0, false
	}
	return a, fa.Field, true
}

type hashArg struct {
	Kind string     // desc | dyn | ptr | ifaceword | unknown
	T    types.Type // the static type X
	Why  string
}

func isIfaceOrParam(t types.Type) bool {
	if _, ok := t.(*types.TypeParam); ok {
		return true
	}
	_, ok := t.Underlying().(*types.Interface)
	return ok
}

// enterHelper follows a value that is the result of a small in-package helper (single return) into the helper's
// body and returns the returned value together with the helper's type-parameter instantiation.
func enterHelper(v ssa.Value, subst map[*types.TypeParam]types.Type) ssa.Value {
	for d := 0; d < 3; d++ {
		v = resolve(v, 0)
		c, ok := v.(*ssa.Call)
		if !ok {
			return v
		}
		inst := c.Call.StaticCallee()
		if inst == nil {
			return v
		}
		cal := inst
		if o := inst.Origin(); o != nil {
			cal = o
			tps := o.TypeParams()
			targs := inst.TypeArgs()
			for i := 0; i < tps.Len() && i < len(targs); i++ {
				subst[tps.At(i)] = targs[i]
			}
		}
		if cal.Blocks == nil || cal.Pkg == nil || cal.Pkg.Pkg.Path() != core.XsyncPath {
			return v
		}
		var ret *ssa.Return
		n := 0
		core.Instrs(cal, func(in ssa.Instruction) {
			if r, isRet := in.(*ssa.Return); isRet {
				ret = r
				n++
			}
		})
		if n != 1 || len(ret.Results) != 1 {
			return v
		}
		v = ret.Results[0]
	}
	return v
}

func applySubst(t types.Type, subst map[*types.TypeParam]types.Type) types.Type {
	for i := 0; i < 4; i++ {
		tp, ok := t.(*types.TypeParam)
		if !ok {
			return t
		}
		if u, ok := subst[tp]; ok {
			t = u
			continue
		}
		return t
	}
	return t
}

func classifyDesc(v ssa.Value) hashArg {
	subst := map[*types.TypeParam]types.Type{}
	v = enterHelper(v, subst)
	h := classifyDescIn(v)
	if h.T != nil {
		h.T = applySubst(h.T, subst)
	}
	return h
}

func classifyDescIn(v ssa.Value) hashArg {
	v = resolve(v, 0)
	al, idx, ok := headerWord(v)
	if !ok {
		return hashArg{Kind: "unknown", Why: "type-descriptor argument is not read from an interface header overlay (" + v.Name() + ")"}
	}
	st := uniqueStore(al)
	if st == nil {
		return hashArg{Kind: "unknown", Why: "interface variable under the overlay has no unique definition"}
	}
	held := st.Val
	if namedOfType(elemOf(al.Type())) == "reflect.Type" {
		if idx != 1 {
			return hashArg{Kind: "unknown", Why: "type word of a reflect.Type value is reflect's own implementation type, not a descriptor of the key type"}
		}
		// reflect.TypeOf(x) or reflect.TypeOf(&x).Elem()
		elem := false
		if c, isCall := held.(*ssa.Call); isCall && c.Call.IsInvoke() && c.Call.Method.Name() == "Elem" {
			elem = true
			held = c.Call.Value
		}
		c, isCall := held.(*ssa.Call)
		if !isCall || core.CalleeID(c) != "reflect.TypeOf" {
			return hashArg{Kind: "unknown", Why: "reflect.Type value does not come from reflect.TypeOf"}
		}
		mi, isMI := c.Call.Args[0].(*ssa.MakeInterface)
		if !isMI {
			return hashArg{Kind: "unknown", Why: "argument of reflect.TypeOf has no static type"}
		}
		t := mi.X.Type()
		if elem {
			p, isP := t.Underlying().(*types.Pointer)
			if !isP {
				return hashArg{Kind: "unknown", Why: "Elem() of a non-pointer type"}
			}
			return hashArg{Kind: "desc", T: p.Elem()}
		}
		if isIfaceOrParam(t) {
			return hashArg{Kind: "dyn", T: t, Why: "reflect.TypeOf of an interface-kinded value yields the dynamic type"}
		}
		return hashArg{Kind: "desc", T: t}
	}
	// plain interface variable: type word of any(x)
	if idx != 0 {
		return hashArg{Kind: "unknown", Why: "data word of an interface used as a type descriptor"}
	}
	mi, isMI := held.(*ssa.MakeInterface)
	if !isMI {
		return hashArg{Kind: "unknown", Why: "interface variable is not built from a statically typed value"}
	}
	t := mi.X.Type()
	if isIfaceOrParam(t) {
		return hashArg{Kind: "dyn", T: t, Why: "type word of an interface built from a value whose static type may be an interface: it is the dynamic type, not the key type"}
	}
	return hashArg{Kind: "desc", T: t}
}

func classifyPtr(v ssa.Value) hashArg {
	v = core.StripConv(v)
	if a, ok := v.(*ssa.Alloc); ok {
		return hashArg{Kind: "ptr", T: elemOf(a.Type())}
	}
	rv := resolve(v, 0)
	if al, idx, ok := headerWord(rv); ok {
		_ = al
		if idx == 1 {
			return hashArg{Kind: "ifaceword", Why: "the data word of an interface header is passed as the pointer to the value: for pointer-shaped dynamic types (pointers, maps, channels, funcs, single-pointer structs) it IS the value, so the key is hashed by what it points to, and for a nil interface it is nil"}
		}
	}
	if a, ok := rv.(*ssa.Alloc); ok {
		return hashArg{Kind: "ptr", T: elemOf(a.Type())}
	}
	return hashArg{Kind: "unknown", Why: "pointer argument is not the address of a local variable (" + v.Name() + ")"}
}

func namedOfType(t types.Type) string {
	if n, ok := t.(*types.Named); ok && n.Obj().Pkg() != nil {
		return n.Obj().Pkg().Name() + "." + n.Obj().Name()
	}
	return ""
}

// hashPrimitives finds the link-named runtime hash functions by signature.
func hashPrimitives(r *Run) (typehash, memhash *ssa.Function) {
	for name, m := range r.P.Xsync.Members {
		f, ok := m.(*ssa.Function)
		if !ok || f.Blocks != nil || f.Signature.Params().Len() != 3 {
			continue
		}
		_ = name
		p0, _ := f.Signature.Params().At(0).Type().Underlying().(*types.Basic)
		p1, _ := f.Signature.Params().At(1).Type().Underlying().(*types.Basic)
		if p0 == nil || p1 == nil {
			continue
		}
		if p0.Kind() == types.Uintptr && p1.Kind() == types.UnsafePointer {
			typehash = f
		}
		if p0.Kind() == types.UnsafePointer && p1.Kind() == types.Uintptr {
			memhash = f
		}
	}
	return
}

// effectiveSites lifts call sites of fnc through wrappers whose arguments at position idxs are their own parameters.
func effectiveSites(r *Run, fnc *ssa.Function, a0, a1 int, depth int) [][3]interface{} {
	var out [][3]interface{}
	for _, f := range r.P.Funcs {
		core.Instrs(f, func(in ssa.Instruction) {
			c, ok := in.(ssa.CallInstruction)
			if !ok || c.Common().StaticCallee() == nil {
				return
			}
			cal := c.Common().StaticCallee()
			if cal != fnc && cal.Origin() != fnc {
				return
			}
			args := c.Common().Args
			x, y := args[a0], args[a1]
			px, okx := x.(*ssa.Parameter)
			py, oky := y.(*ssa.Parameter)
			if okx && oky && depth < 3 {
				ix, iy := paramIndexOf(f, px), paramIndexOf(f, py)
				if ix >= 0 && iy >= 0 {
					out = append(out, effectiveSites(r, f, ix, iy, depth+1)...)
					return
				}
			}
			out = append(out, [3]interface{}{in, x, y})
		})
	}
	return out
}

func c10H2H3(r *Run, rep *core.Report) {
	typehash, memhash := hashPrimitives(r)
	if typehash == nil {
		rep.Undecided("C10.H2", "type-hash primitive", "-", "no link-named function with signature (uintptr, unsafe.Pointer, uintptr) found")
	} else {
		sites := effectiveSites(r, typehash, 0, 1, 0)
		seen := map[ssa.Instruction]bool{}
		n := 0
		for _, s := range sites {
			in := s[0].(ssa.Instruction)
			if seen[in] {
				continue
			}
			seen[in] = true
			n++
			d := classifyDesc(s[1].(ssa.Value))
			p := classifyPtr(s[2].(ssa.Value))
			cons := fn(in.Parent()) + " typehash(t, p)"
			switch {
			case d.Kind == "desc" && p.Kind == "ptr" && types.Identical(d.T, p.T):
				rep.Pass("C10.H2", cons, r.P.InstrPos(in), "t describes "+typeName(d.T)+" and p points to a variable of that static type")
			case d.Kind == "desc" && p.Kind == "ptr":
				rep.Fail("C10.H2", cons, r.P.InstrPos(in), "type descriptor describes "+typeName(d.T)+" but the pointer addresses a variable of type "+typeName(p.T)+": the runtime hashes the wrong bytes")
			case d.Kind == "dyn" && p.Kind == "ptr" && nonInterfaceGuard(in):
				rep.Pass("C10.H2", cons, r.P.InstrPos(in), "dynamic type equals the static key type on this branch (guarded by a reflect Kind != Interface test)")
			case p.Kind == "ifaceword":
				rep.Fail("C10.H2", cons, r.P.InstrPos(in), p.Why)
			case d.Kind == "dyn":
				rep.Fail("C10.H2", cons, r.P.InstrPos(in), d.Why+"; for an interface-kinded key type the pointer then addresses an interface header, not a value of the dynamic type")
			default:
				rep.Undecided("C10.H2", cons, r.P.InstrPos(in), "cannot establish (descriptor of X, pointer to X): "+d.Why+" "+p.Why)
			}
		}
		rep.MinCount("C10.H2", "type-hash call sites", n, 1)
	}
	if memhash == nil {
		rep.Note("no link-named memhash primitive found")
		return
	}
	n := 0
	for _, f := range r.P.Funcs {
		core.Instrs(f, func(in ssa.Instruction) {
			c, ok := in.(ssa.CallInstruction)
			if !ok || c.Common().StaticCallee() != memhash {
				return
			}
			n++
			args := c.Common().Args
			okp, okl := false, false
			var base1, base2 ssa.Value
			if ld, isLd := resolveNoCell(args[0]).(*ssa.UnOp); isLd {
				if fa, isFA := ld.X.(*ssa.FieldAddr); isFA && namedOfType(elemOf(fa.X.Type())) == "reflect.StringHeader" && fa.Field == 0 {
					base1 = core.StripConv(fa.X)
					okp = true
				}
			}
			if cc, isCall := core.StripConv(args[0]).(*ssa.Call); isCall && (core.CalleeID(cc) == "unsafe.StringData" || core.IsBuiltinCall(cc) == "StringData") {
				base1 = cc.Call.Args[0]
				okp = true
			}
			// a helper func(s string) unsafe.Pointer that returns the data pointer of its argument (unsafe.StringData, or
			// the first word of a string header overlay): the string is the call's argument
			if cc, isCall := core.StripConv(args[0]).(*ssa.Call); isCall && !okp {
				if g := core.Callee(cc); g != nil && stringDataHelper(g) && len(cc.Call.Args) == 1 {
					base1 = cc.Call.Args[0]
					okp = true
				}
			}
			if ld, isLd := resolveNoCell(args[2]).(*ssa.UnOp); isLd {
				if fa, isFA := ld.X.(*ssa.FieldAddr); isFA && namedOfType(elemOf(fa.X.Type())) == "reflect.StringHeader" && fa.Field == 1 {
					base2 = core.StripConv(fa.X)
					okl = true
				}
			}
			if cc, isCall := core.StripConv(args[2]).(*ssa.Call); isCall && core.IsBuiltinCall(cc) == "len" {
				base2 = cc.Call.Args[0]
				okl = true
			}
			same := okp && okl && (base1 == base2 || sameStringVar(base1, base2))
			isStr := false
			if a, isA := base1.(*ssa.Alloc); isA {
				if b, isB := elemOf(a.Type()).Underlying().(*types.Basic); isB && b.Kind() == types.String {
					isStr = true
				}
			}
			if okp && !isStr && base1 != nil {
				if b, isB := base1.Type().Underlying().(*types.Basic); isB && b.Kind() == types.String {
					isStr = true
				}
			}
			rep.Check(same && isStr, "C10.H3", fn(f)+" memhash(p, seed, n)", r.P.InstrPos(in), "bytes hashed are the data and length of one string",
				"the byte-wise memory hash is applied to something other than the bytes of one string: for generic keys, bytes-equal is not == (+0/-0, padding, nested strings and interfaces hash differently for equal keys)")
		})
	}
	rep.MinCount("C10.H3", "memhash call sites", n, 1)
}

func resolveNoCell(v ssa.Value) ssa.Value { return core.StripConv(v) }

func sameStringVar(a, b ssa.Value) bool {
	if a == nil || b == nil {
		return false
	}
	la, ok1 := a.(*ssa.UnOp)
	lb, ok2 := b.(*ssa.UnOp)
	return ok1 && ok2 && la.X == lb.X
}

// nonInterfaceGuard: the call's enclosing closure is created on the branch where a reflect Kind() test
// established that the key type is not an interface.
func nonInterfaceGuard(in ssa.Instruction) bool {
	cl := in.Parent()
	par := cl.Parent()
	if par == nil {
		return false
	}
	var mcBlock *ssa.BasicBlock
	core.Instrs(par, func(x ssa.Instruction) {
		if mc, ok := x.(*ssa.MakeClosure); ok && mc.Fn == ssa.Value(cl) {
			mcBlock = x.Block()
		}
	})
	if mcBlock == nil {
		return false
	}
	for _, b := range par.Blocks {
		iff, ok := b.Instrs[len(b.Instrs)-1].(*ssa.If)
		if !ok {
			continue
		}
		cmp, ok := iff.Cond.(*ssa.BinOp)
		if !ok || (cmp.Op != token.EQL && cmp.Op != token.NEQ) {
			continue
		}
		isKind := func(v ssa.Value) bool {
			c, ok := v.(*ssa.Call)
			return ok && c.Call.IsInvoke() && c.Call.Method.Name() == "Kind"
		}
		isIfaceConst := func(v ssa.Value) bool {
			c, ok := v.(*ssa.Const)
			if !ok || c.Value == nil || c.Value.Kind() != constant.Int {
				return false
			}
			k, _ := constant.Int64Val(c.Value)
			return k == 20 // reflect.Interface
		}
		if !((isKind(cmp.X) && isIfaceConst(cmp.Y)) || (isKind(cmp.Y) && isIfaceConst(cmp.X))) {
			continue
		}
		nonIface := b.Succs[1]
		if cmp.Op == token.NEQ {
			nonIface = b.Succs[0]
		}
		other := b.Succs[0]
		if cmp.Op == token.NEQ {
			other = b.Succs[1]
		}
		if nonIface.Dominates(mcBlock) && !blockReach(other)[mcBlock] {
			return true
		}
	}
	return false
}

// ---- H4: what is hashed, with which function and seed ----

// hashCallOf: the call (key, seed uint64) in the backward slice of a bucket index, if any.
func hashCallOf(idx ssa.Value) *ssa.Call {
	var hcall *ssa.Call
	seen := map[ssa.Value]bool{}
	var walk func(v ssa.Value, d int)
	walk = func(v ssa.Value, d int) {
		if v == nil || seen[v] || d > 10 || hcall != nil {
			return
		}
		seen[v] = true
		switch x := v.(type) {
		case *ssa.BinOp:
			walk(x.X, d+1)
			walk(x.Y, d+1)
		case *ssa.Convert:
			walk(x.X, d+1)
		case *ssa.Call:
			if core.IsBuiltinCall(x) != "" {
				return
			}
			if len(x.Call.Args) == 2 && !x.Call.IsInvoke() {
				// candidate hash call: (key, seed)
				if b, isB := x.Call.Args[1].Type().Underlying().(*types.Basic); isB && b.Kind() == types.Uint64 {
					hcall = x
					return
				}
			}
			for _, a := range x.Call.Args {
				walk(a, d+1)
			}
		}
	}
	walk(idx, 0)
	return hcall
}

// rootSelectors: the functions in which a root bucket is selected by key - the lock-free reader, the compute core and
// the copy, plus (extra) any other method of the map reachable from the API that indexes a bucket array with a value
// derived from a hash call: a second reader, a fast path, a new operation.
func rootSelectors(r *Run, mm *core.MapModel) ([]*ssa.Function, map[*ssa.Function]bool) {
	base := []*ssa.Function{mm.Methods["Load"], mm.Core, mm.Copy}
	isBase := map[*ssa.Function]bool{}
	var out []*ssa.Function
	for _, f := range base {
		if f != nil {
			isBase[f] = true
			out = append(out, f)
		}
	}
	extra := map[*ssa.Function]bool{}
	reach := apiReachable(r)
	for _, f := range r.P.Funcs {
		if isBase[f] || !reach[f] || f.Blocks == nil || f.Pkg != r.P.Xsync || f.Signature.Recv() == nil || core.NamedOf(f.Signature.Recv().Type()) != mm.Name {
			continue
		}
		hashed := false
		core.Instrs(f, func(in ssa.Instruction) {
			ia, ok := in.(*ssa.IndexAddr)
			if !ok || !isBucketType(r, elemOf(ia.Type())) {
				return
			}
			if _, isSlice := ia.X.Type().Underlying().(*types.Slice); !isSlice {
				return
			}
			if hashCallOf(ia.Index) != nil {
				hashed = true
			}
		})
		if hashed {
			extra[f] = true
			out = append(out, f)
		}
	}
	return out, extra
}

func c10H4(r *Run, rep *core.Report) {
	n := 0
	for _, mm := range r.M.Maps {
		sel, extra := rootSelectors(r, mm)
		for _, f := range sel {
			rep.Fn(fn(f))
			core.Instrs(f, func(in ssa.Instruction) {
				ia, ok := in.(*ssa.IndexAddr)
				if !ok || !isBucketType(r, elemOf(ia.Type())) {
					return
				}
				if _, isSlice := ia.X.Type().Underlying().(*types.Slice); !isSlice {
					return
				}
				// find the hash call in the backward slice of the index
				hcall := hashCallOf(ia.Index)
				if hcall == nil && extra[f] {
					return // a bucket picked by position (a scan), not by key
				}
				n++
				cons := fn(f) + " hashed key"
				if hcall == nil {
					rep.Fail("C10.H4", cons, r.P.InstrPos(in), "the root bucket index does not derive from a hash of a key with a seed")
					return
				}
				// which function hashes
				if hcall.Call.StaticCallee() == nil {
					rep.Check(hasherRole(r, f, hcall.Call.Value), "C10.H4", fn(f)+" hash function", r.P.InstrPos(hcall), "the map's own hasher", "the hash function called here is not the map's configured hasher: entries hashed with a different function at insert, lookup or resize become unreachable under their own key")
				}
				keyArg := resolve(hcall.Call.Args[0], 0)
				if f == mm.Copy {
					// stored key: read from the source bucket chain
					var src *ssa.Parameter
					for _, p := range f.Params {
						if isBucketType(r, elemOf(p.Type())) {
							src = p
						}
					}
					fromSrc := storedKeyFrom(r, keyArg, src)
					rep.Check(fromSrc, "C10.H4", cons, r.P.InstrPos(hcall), "the stored key of the entry being moved is re-hashed", "the resize copy does not hash the stored key of the entry it moves")
				} else {
					var keyParam *ssa.Parameter
					for _, p := range f.Params {
						if isKeyType(mm, p.Type()) {
							keyParam = p
							break
						}
					}
					rep.Check(keyParam != nil && keyArg == ssa.Value(keyParam), "C10.H4", cons, r.P.InstrPos(hcall), "the lookup key itself is hashed", "the value hashed to select the bucket is not the lookup key parameter")
				}
			})
		}
	}
	rep.MinCount("C10.H4", "root bucket selections", n, 6)
}

func storedKeyFrom(r *Run, v ssa.Value, src *ssa.Parameter) bool {
	for d := 0; d < 8 && v != nil; d++ {
		v = core.StripConv(v)
		switch x := v.(type) {
		case *ssa.Call:
			if len(x.Call.Args) == 1 {
				v = x.Call.Args[0]
				continue
			}
			return false
		case *ssa.UnOp:
			if bucketRoots(r, x.X)[src] {
				return true
			}
			v = x.X
			continue
		case *ssa.FieldAddr:
			v = x.X
			continue
		}
		return false
	}
	return false
}

// ---- H5: explicit panics ----

func c10H5(r *Run, rep *core.Report) {
	reach := apiReachable(r)
	n := 0
	// siteOK: the instruction (a panic, or a call of a helper that panics) cannot execute on a valid call: it sits behind
	// the 'is nil' edge of a function-typed argument, in a block that is dead under every constant mode, or behind a
	// flag that is never set
	siteOK := func(f *ssa.Function, in ssa.Instruction) (bool, string) {
		if nilFuncArgGuard(f, in.Block()) {
			return true, "panic taken only for a nil function argument (a call outside every property's quantifier)"
		}
		if why := nilObjectGuard(r, f, in.Block()); why != "" {
			return true, why
		}
		dead := true
		for _, sp := range specsFor(r, f) {
			if sp.Reachable(f)[in.Block()] {
				dead = false
			}
		}
		if dead {
			return true, "unreachable: dead under every constant mode"
		}
		for _, b := range f.Blocks {
			iff, isIf := b.Instrs[len(b.Instrs)-1].(*ssa.If)
			if !isIf {
				continue
			}
			ld, isLd := iff.Cond.(*ssa.UnOp)
			if !isLd {
				continue
			}
			g, isG := ld.X.(*ssa.Global)
			if !isG || globalEverSet(r, g) {
				continue
			}
			// (dominance is enough: every path to the panic takes the flag's true edge, which is never taken - that the
			// false edge reaches the same block again in a later loop iteration does not matter)
			if b.Succs[0] != b.Succs[1] && len(b.Succs[0].Preds) == 1 && (b.Succs[0] == in.Block() || b.Succs[0].Dominates(in.Block())) {
				return true, "guarded by a flag that is never set"
			}
			// short-circuit forms: the flag's true edge leads to a block that dominates the panic
			for _, s := range blockReachList(b.Succs[0]) {
				if s.Dominates(in.Block()) && !blockReach(b.Succs[1])[in.Block()] {
					return true, "guarded by a flag that is never set"
				}
			}
		}
		return false, ""
	}
	// panics no evaluated path of a constructor reaches (a sanity check of the normalised configuration)
	var ctorPanics map[string]bool
	ctorPanicAt := func(pos string) bool {
		if ctorPanics == nil {
			ctorPanics = map[string]bool{}
			for i := 0; i < 2; i++ {
				if ctor := r.M.CacheCtor[i]; ctor != nil {
					it := newInterp(r, false)
					it.MaxPaths = 2000
					for _, p := range it.Run(ctor) {
						if p.Panic {
							ctorPanics[p.PanicPos] = true
						}
					}
					if it.Overflow {
						ctorPanics["*"] = true
					}
				}
			}
		}
		return ctorPanics[pos] || ctorPanics["*"]
	}
	var helperOK func(f *ssa.Function, depth int) (bool, string)
	helperOK = func(f *ssa.Function, depth int) (bool, string) {
		// a helper that panics (panicNilFunc, assert): judged where it is called
		if depth > 2 || f.Object() != nil && f.Object().Exported() {
			return false, ""
		}
		sites := core.CallSitesOf(r.P.Funcs, f)
		nSites := 0
		why := ""
		for _, site := range sites {
			g := site.Parent()
			if !reach[g] {
				continue
			}
			nSites++
			in, _ := site.(ssa.Instruction)
			if ok, w := siteOK(g, in); ok {
				why = w
				continue
			}
			if ok, w := helperOK(g, depth+1); ok {
				why = w
				continue
			}
			return false, ""
		}
		if nSites == 0 {
			return false, ""
		}
		return true, "every call of this helper: " + why
	}
	for _, f := range r.P.Funcs {
		if !reach[f] {
			continue
		}
		core.Instrs(f, func(in ssa.Instruction) {
			pn, ok := in.(*ssa.Panic)
			if !ok {
				return
			}
			if mi, isMI := pn.X.(*ssa.MakeInterface); isMI {
				if c, isC := mi.X.(*ssa.Const); isC && c.Value != nil && c.Value.Kind() == constant.String && !pn.Pos().IsValid() {
					return // compiler-synthesised (blocking select with no case)
				}
			}
			n++
			if nilFuncArgGuard(f, in.Block()) {
				rep.Pass("C10.H5", fn(f)+" argument validation", r.P.InstrPos(in), "panic taken only for a nil function argument (a call outside every property's quantifier)")
				return
			}
			okv, why := siteOK(f, in)
			if !okv {
				okv, why = helperOK(f, 0)
			}
			if !okv && nilFlagHelper(r, reach, f, in.Block()) {
				okv, why = true, "panic taken only when a flag parameter is set, and every caller sets it to 'the function argument is nil' (argument validation, tested at the call site)"
			}
			if !okv && f.Pkg == r.P.Cache && ctorOnlyReach(r, f) && !ctorPanicAt(r.P.InstrPos(in)) {
				okv, why = true, "no evaluated path of the constructors reaches it (the configuration is normalised before)"
			}
			if why == "" {
				why = "unreachable: dead under every constant mode or guarded by a flag that is never set"
			}
			rep.Check(okv, "C10.H5", fn(f)+" explicit panic", r.P.InstrPos(in), why,
				"an explicit panic is reachable from the public API: some valid call can make the operation panic")
		})
	}
	rep.MinCount("C10.H5", "explicit panic sites examined", n, 2)
}

// nilObjectGuard: the block is entered only through the 'is nil' edge of a test of the method's receiver (a method
// called on a nil map: not a call of the API) or of the table pointer loaded from the map (never nil on a map made by
// its constructor: the constructor and resize store fresh tables only - C03/C04.P4).
func nilObjectGuard(r *Run, f *ssa.Function, b *ssa.BasicBlock) string {
	for d := b; d != nil; d = d.Idom() {
		if len(d.Preds) != 1 {
			continue
		}
		p := d.Preds[0]
		iff, ok := p.Instrs[len(p.Instrs)-1].(*ssa.If)
		if !ok {
			continue
		}
		bo, ok := iff.Cond.(*ssa.BinOp)
		if !ok || (bo.Op != token.EQL && bo.Op != token.NEQ) {
			continue
		}
		nilEdge := 0
		if bo.Op == token.NEQ {
			nilEdge = 1
		}
		if p.Succs[nilEdge] != d {
			continue
		}
		for _, pair := range [][2]ssa.Value{{bo.X, bo.Y}, {bo.Y, bo.X}} {
			if !core.IsNilConst(pair[1]) {
				continue
			}
			v := core.StripConv(pair[0])
			if prm, isP := v.(*ssa.Parameter); isP && f.Signature.Recv() != nil && len(f.Params) > 0 && prm == f.Params[0] {
				return "panic taken only for a nil receiver (not a call of the API on a map)"
			}
			if c, isCall := v.(*ssa.Call); isCall {
				if op, addr, isAt := core.AtomicOp(c); isAt && op == "Load" {
					a := core.Addr(addr)
					for _, mm := range r.M.Maps {
						if a.Owner == mm.Name && a.Field == mm.TableF {
							return "panic taken only for a nil table pointer (a map not made by its constructor; constructor and resize store fresh tables only)"
						}
					}
				}
			}
		}
	}
	return ""
}

// ctorOnlyReach: f is called (transitively, statically) only from the cache constructors.
func ctorOnlyReach(r *Run, f *ssa.Function) bool {
	seen := map[*ssa.Function]bool{}
	var up func(g *ssa.Function, d int) bool
	up = func(g *ssa.Function, d int) bool {
		if g == r.M.CacheCtor[0] || g == r.M.CacheCtor[1] {
			return true
		}
		if seen[g] || d > 4 {
			return seen[g]
		}
		seen[g] = true
		sites := core.CallSitesOf(r.P.Funcs, g)
		if len(sites) == 0 {
			return false
		}
		for _, s := range sites {
			p := s.Parent()
			if p.Pkg != r.P.Cache {
				return false
			}
			if strings.HasSuffix(r.P.Pos(p.Pos()), "_test.go") {
				continue
			}
			if !up(p, d+1) {
				return false
			}
		}
		return true
	}
	return up(f, 0)
}

func blockReachList(b *ssa.BasicBlock) []*ssa.BasicBlock {
	var out []*ssa.BasicBlock
	for x := range blockReach(b) {
		out = append(out, x)
	}
	return out
}

func globalEverSet(r *Run, g *ssa.Global) bool {
	set := false
	for _, f := range r.P.Funcs {
		core.Instrs(f, func(in ssa.Instruction) {
			if st, ok := in.(*ssa.Store); ok && st.Addr == ssa.Value(g) {
				if b, isC := core.ConstBool(st.Val); !isC || b {
					set = true
				}
			}
		})
	}
	return set
}

// nilFlagHelper: f panics only on the true edge of a test of one of its boolean parameters, and at every call site
// reachable from the API the argument for that parameter is the comparison 'X == nil' of a function value the caller
// was handed (mustNotBeNilFunc(valueFn == nil, ...)).
func nilFlagHelper(r *Run, reach map[*ssa.Function]bool, f *ssa.Function, b *ssa.BasicBlock) bool {
	var flag *ssa.Parameter
	for d := b; d != nil && flag == nil; d = d.Idom() {
		if len(d.Preds) != 1 {
			continue
		}
		p := d.Preds[0]
		iff, ok := p.Instrs[len(p.Instrs)-1].(*ssa.If)
		if !ok || p.Succs[0] != d {
			continue
		}
		if prm, isP := iff.Cond.(*ssa.Parameter); isP && typeName(prm.Type()) == "bool" {
			flag = prm
		}
	}
	if flag == nil {
		return false
	}
	idx := paramIndexOf(f, flag)
	sites := core.CallSitesOf(r.P.Funcs, f)
	n := 0
	for _, site := range sites {
		g := site.Parent()
		if !reach[g] {
			continue
		}
		n++
		if idx < 0 || idx >= len(site.Common().Args) {
			return false
		}
		bo, ok := site.Common().Args[idx].(*ssa.BinOp)
		if !ok || bo.Op != token.EQL {
			return false
		}
		okSite := false
		for _, pair := range [][2]ssa.Value{{bo.X, bo.Y}, {bo.Y, bo.X}} {
			if core.IsNilConst(pair[1]) && isFuncTyped(pair[0].Type()) && funcArgument(g, pair[0], 0) {
				okSite = true
			}
		}
		if !okSite {
			return false
		}
	}
	return n > 0
}

// nilFuncArgGuard: the block is entered only through the 'is nil' edge of a test of a function-typed parameter.
func nilFuncArgGuard(f *ssa.Function, b *ssa.BasicBlock) bool {
	// the panic block itself or one of its dominators is entered only through the 'is nil' edge
	for d := b; d != nil; d = d.Idom() {
		if nilFuncArgEdge(f, d) {
			return true
		}
	}
	return false
}

// funcArgument: the function value is one the caller handed in: a function-typed parameter, an element of a
// parameter that is a slice of functions (options ...Option), or such a value captured by the closure f.
func funcArgument(f *ssa.Function, v ssa.Value, depth int) bool {
	if depth > 3 {
		return false
	}
	switch x := core.StripConv(v).(type) {
	case *ssa.Parameter:
		return true
	case *ssa.UnOp:
		if x.Op != token.MUL {
			return false
		}
		switch a := x.X.(type) {
		case *ssa.IndexAddr:
			_, isP := core.StripConv(a.X).(*ssa.Parameter)
			return isP
		case *ssa.Alloc:
			if st := uniqueStore(a); st != nil {
				return funcArgument(f, st.Val, depth+1)
			}
		case *ssa.FreeVar:
			// the captured cell of the enclosing function's parameter
			par := f.Parent()
			if par == nil {
				return false
			}
			for bi, fv := range f.FreeVars {
				if fv != a {
					continue
				}
				found := false
				core.Instrs(par, func(in ssa.Instruction) {
					mc, ok := in.(*ssa.MakeClosure)
					if !ok || mc.Fn != ssa.Value(f) || bi >= len(mc.Bindings) {
						return
					}
					if cell, isCell := mc.Bindings[bi].(*ssa.Alloc); isCell {
						if st := uniqueStore(cell); st != nil && funcArgument(par, st.Val, depth+1) {
							found = true
						}
					}
				})
				return found
			}
		}
	case *ssa.FreeVar:
		return false
	}
	return false
}

func nilFuncArgEdge(f *ssa.Function, b *ssa.BasicBlock) bool {
	if len(b.Preds) != 1 {
		return false
	}
	p := b.Preds[0]
	iff, ok := p.Instrs[len(p.Instrs)-1].(*ssa.If)
	if !ok {
		return false
	}
	cond := iff.Cond
	neg := false
	for {
		if u, isU := cond.(*ssa.UnOp); isU && u.Op == token.NOT {
			neg = !neg
			cond = u.X
			continue
		}
		break
	}
	bo, ok := cond.(*ssa.BinOp)
	if !ok || (bo.Op != token.EQL && bo.Op != token.NEQ) {
		return false
	}
	for _, pair := range [][2]ssa.Value{{bo.X, bo.Y}, {bo.Y, bo.X}} {
		v := pair[0]
		// a parameter captured by a closure lives in a cell: the load of that cell is the parameter
		if ld, isLd := v.(*ssa.UnOp); isLd && ld.Op == token.MUL {
			if cell, isCell := ld.X.(*ssa.Alloc); isCell {
				if st := uniqueStore(cell); st != nil {
					v = st.Val
				}
			}
		}
		if !core.IsNilConst(pair[1]) {
			continue
		}
		if _, isFn := v.Type().Underlying().(*types.Signature); !isFn {
			continue
		}
		if !funcArgument(f, v, 0) {
			continue
		}
		nilOnTrue := (bo.Op == token.EQL) != neg
		edge := 1
		if nilOnTrue {
			edge = 0
		}
		return p.Succs[edge] == b
	}
	return false
}

// c10H3raw: a hash function for generic keys (func(K, uint64) uint64 with K a type parameter) never takes the raw bits
// of the key as hash input - reading the key through an unsafe reinterpretation as an integer - unless the function is
// only handed out for key kinds whose == is equality of exactly those bits (booleans, integers, pointers, channels).
// For floats (+0 == -0, different bits), complex numbers, strings, interfaces, structs and arrays, bits-equal is not
// ==: equal keys would hash differently under the same seed and become two keys.
func c10H3raw(r *Run, rep *core.Report) {
	bitsOK := map[int64]string{1: "Bool", 2: "Int", 3: "Int8", 4: "Int16", 5: "Int32", 6: "Int64", 7: "Uint", 8: "Uint8", 9: "Uint16", 10: "Uint32", 11: "Uint64", 12: "Uintptr", 18: "Chan", 22: "Pointer", 26: "UnsafePointer"}
	kindName := map[int64]string{13: "Float32", 14: "Float64", 15: "Complex64", 16: "Complex128", 17: "Array", 19: "Func", 20: "Interface", 21: "Map", 23: "Slice", 24: "String", 25: "Struct"}
	for _, f := range r.P.Funcs {
		if f.Pkg != r.P.Xsync || f.Blocks == nil || len(f.Params) != 2 || f.Signature.Results().Len() != 1 {
			continue
		}
		if _, isTP := f.Params[0].Type().(*types.TypeParam); !isTP {
			continue
		}
		if b, ok := f.Params[1].Type().Underlying().(*types.Basic); !ok || b.Kind() != types.Uint64 {
			continue
		}
		// raw reads: *(*uintN)(unsafe.Pointer(&key))
		var raw ssa.Instruction
		core.Instrs(f, func(in ssa.Instruction) {
			ld, ok := in.(*ssa.UnOp)
			if !ok || ld.Op != token.MUL {
				return
			}
			cv, ok := ld.X.(*ssa.Convert)
			if !ok {
				return
			}
			bt, isB := elemOf(cv.Type()).Underlying().(*types.Basic)
			if !isB || bt.Info()&(types.IsInteger|types.IsFloat|types.IsComplex|types.IsBoolean) == 0 {
				return
			}
			src := core.StripConv(cv.X)
			cell, isCell := src.(*ssa.Alloc)
			if !isCell {
				return
			}
			if st := uniqueStore(cell); st != nil && st.Val == ssa.Value(f.Params[0]) {
				raw = in
			}
		})
		// ... or the key's address handed, as an unsafe.Pointer, to an in-package helper that reads through it
		// (loadWord(unsafe.Pointer(&key), size)): the helper's result is the key's raw bits all the same. The runtime's
		// own hash primitives have no body here and are judged by H2 / the byte-hash rule.
		if raw == nil {
			core.Instrs(f, func(in ssa.Instruction) {
				c, ok := in.(*ssa.Call)
				if !ok || raw != nil {
					return
				}
				cal := core.Callee(c)
				if cal == nil || cal.Blocks == nil || cal.Pkg != r.P.Xsync {
					return
				}
				for ai, a := range c.Call.Args {
					cv, isCv := a.(*ssa.Convert)
					if !isCv {
						continue
					}
					if bt, isB := cv.Type().Underlying().(*types.Basic); !isB || bt.Kind() != types.UnsafePointer {
						continue
					}
					cell, isCell := core.StripConv(cv.X).(*ssa.Alloc)
					if !isCell {
						continue
					}
					st := uniqueStore(cell)
					if st == nil || st.Val != ssa.Value(f.Params[0]) || ai >= len(cal.Params) {
						continue
					}
					// the helper dereferences the pointer as a number
					reads := false
					core.Instrs(cal, func(in2 ssa.Instruction) {
						ld, isLd := in2.(*ssa.UnOp)
						if !isLd || ld.Op != token.MUL {
							return
						}
						cv2, isCv2 := ld.X.(*ssa.Convert)
						if !isCv2 || core.StripConv(cv2.X) != ssa.Value(cal.Params[ai]) {
							return
						}
						if bt, isB := elemOf(cv2.Type()).Underlying().(*types.Basic); isB && bt.Info()&(types.IsInteger|types.IsFloat|types.IsComplex|types.IsBoolean) != 0 {
							reads = true
						}
					})
					if reads {
						raw = in
					}
				}
			})
		}
		if raw == nil {
			continue
		}
		cons := fn(f) + " raw bits of the key"
		par := f.Parent()
		if par == nil {
			rep.Fail("C10.H3", cons, r.P.InstrPos(raw), "a hash function for generic keys reads the raw bits of the key: for key types whose == is not bit equality (floats: +0 == -0) equal keys hash differently and become two keys")
			continue
		}
		// where the function is handed out, and under which reflect kinds
		var made []ssa.Instruction
		core.Instrs(par, func(in ssa.Instruction) {
			// (a literal that captures nothing is used as a plain function value, not through MakeClosure)
			for _, op := range in.Operands(nil) {
				if op != nil && *op == ssa.Value(f) {
					made = append(made, in)
					return
				}
			}
		})
		okAll := len(made) > 0
		why := "the function is handed out without a test of the key type's kind"
		// kindsAt: the reflect kinds under which an instruction of g executes (case values of the switch on Kind() whose
		// body contains it)
		kindsAt := func(g *ssa.Function, m ssa.Instruction) []int64 {
			var kinds []int64
			core.Instrs(g, func(in ssa.Instruction) {
				iff, ok := in.(*ssa.If)
				if !ok {
					return
				}
				bo, ok := iff.Cond.(*ssa.BinOp)
				if !ok || bo.Op != token.EQL {
					return
				}
				for _, pair := range [][2]ssa.Value{{bo.X, bo.Y}, {bo.Y, bo.X}} {
					k, isK := core.ConstInt(pair[1])
					c, isCall := core.StripConv(pair[0]).(*ssa.Call)
					if !isK || !isCall || !(c.Call.IsInvoke() && c.Call.Method.Name() == "Kind" || core.CalleeID(c) == "(*reflect.rtype).Kind") {
						continue
					}
					t := iff.Block().Succs[0]
					if t == m.Block() || t.Dominates(m.Block()) || blockReachUntil(t, nil)[m.Block()] {
						kinds = append(kinds, k)
					}
				}
			})
			return kinds
		}
		var judge func(g *ssa.Function, m ssa.Instruction, depth int)
		judge = func(g *ssa.Function, m ssa.Instruction, depth int) {
			kinds := kindsAt(g, m)
			if len(kinds) == 0 {
				// a factory for such functions (intBitsHasher[T]()): judged where the factory is called
				sites := core.CallSitesOf(r.P.Funcs, g)
				if depth < 2 && len(sites) > 0 {
					for _, site := range sites {
						if in, isIn := site.(ssa.Instruction); isIn {
							judge(site.Parent(), in, depth+1)
						}
					}
					return
				}
				okAll = false
				return
			}
			for _, k := range kinds {
				if _, good := bitsOK[k]; !good {
					okAll = false
					why = "the function is handed out for keys of kind " + kindName[k] + ", whose == is not equality of the value's bits"
				}
			}
		}
		for _, m := range made {
			judge(par, m, 0)
		}
		rep.Check(okAll, "C10.H3", cons, r.P.InstrPos(raw), "raw bits are hashed only for kinds whose == is bit equality", "a hash function for generic keys takes the raw bits of the key as hash input and "+why+": equal keys (+0 and -0) hash differently under one seed and become two keys")
	}
}

// stringDataHelper: func(s string) unsafe.Pointer whose every return is the data pointer of s.
func stringDataHelper(g *ssa.Function) bool {
	if g.Blocks == nil || len(g.Params) != 1 || g.Signature.Results().Len() != 1 {
		return false
	}
	if b, ok := g.Params[0].Type().Underlying().(*types.Basic); !ok || b.Kind() != types.String {
		return false
	}
	n, okAll := 0, true
	core.Instrs(g, func(in ssa.Instruction) {
		ret, isRet := in.(*ssa.Return)
		if !isRet {
			return
		}
		n++
		v := core.StripConv(ret.Results[0])
		if c, isCall := v.(*ssa.Call); isCall && (core.IsBuiltinCall(c) == "StringData" || core.CalleeID(c) == "unsafe.StringData") && core.StripConv(c.Call.Args[0]) == ssa.Value(g.Params[0]) {
			return
		}
		// (*struct{data unsafe.Pointer; len int})(unsafe.Pointer(&s)).data - also reflect.StringHeader.Data
		if ld, isLd := v.(*ssa.UnOp); isLd && ld.Op == token.MUL {
			if fa, isFA := ld.X.(*ssa.FieldAddr); isFA && fa.Field == 0 {
				if cell, isCell := core.StripConv(fa.X).(*ssa.Alloc); isCell {
					if st := uniqueStore(cell); st != nil && st.Val == ssa.Value(g.Params[0]) {
						return
					}
				}
			}
		}
		okAll = false
	})
	return okAll && n > 0
}

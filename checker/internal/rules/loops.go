package rules

import (
	"go/token"
	"go/types"

	"cachelint/internal/core"

	"golang.org/x/tools/go/ssa"
)

// Loop is a natural loop identified by its header and the sources of its back edges.
type Loop struct {
	Header *ssa.BasicBlock
	Backs  []*ssa.BasicBlock
	Body   map[*ssa.BasicBlock]bool
}

// naturalLoops finds the natural loops of f (back edge u->h where h dominates u), merged per header.
func naturalLoops(f *ssa.Function) []*Loop {
	byHeader := map[*ssa.BasicBlock]*Loop{}
	var order []*ssa.BasicBlock
	for _, u := range f.Blocks {
		for _, h := range u.Succs {
			if h.Dominates(u) {
				l := byHeader[h]
				if l == nil {
					l = &Loop{Header: h, Body: map[*ssa.BasicBlock]bool{h: true}}
					byHeader[h] = l
					order = append(order, h)
				}
				l.Backs = append(l.Backs, u)
				// body: nodes that reach u without passing h
				stack := []*ssa.BasicBlock{u}
				for len(stack) > 0 {
					x := stack[len(stack)-1]
					stack = stack[:len(stack)-1]
					if l.Body[x] {
						continue
					}
					l.Body[x] = true
					stack = append(stack, x.Preds...)
				}
			}
		}
	}
	var out []*Loop
	for _, h := range order {
		out = append(out, byHeader[h])
	}
	return out
}

// irreducibleOrOther reports cycles that are not natural loops (none expected in Go-generated SSA
// without goto into loops); callers treat them as undecided.

// atomicLoadPath describes the word read when v is (a conversion of) a sync/atomic Load, directly or through a
// small accessor function whose body is just such a load of a word reachable from one of its parameters
// (e.g. a currentTable() helper). ok=false otherwise.
func atomicLoadPath(v ssa.Value) (core.AddrPath, bool) {
	v = core.StripConv(v)
	c, ok := v.(*ssa.Call)
	if !ok {
		return core.AddrPath{}, false
	}
	if op, addr, ok := core.AtomicOp(c); ok {
		if op != "Load" {
			return core.AddrPath{}, false
		}
		return core.Addr(addr), true
	}
	cal := core.Callee(c)
	if cal == nil || cal.Blocks == nil || len(cal.Blocks) != 1 {
		return core.AddrPath{}, false
	}
	var ret *ssa.Return
	for _, in := range cal.Blocks[0].Instrs {
		if r, isRet := in.(*ssa.Return); isRet {
			ret = r
		}
	}
	if ret == nil || len(ret.Results) != 1 {
		return core.AddrPath{}, false
	}
	inner, ok := atomicLoadPath(ret.Results[0])
	if !ok {
		return core.AddrPath{}, false
	}
	p, isP := inner.Root.(*ssa.Parameter)
	if !isP {
		return core.AddrPath{}, false
	}
	for i, q := range cal.Params {
		if q == p && i < len(c.Call.Args) {
			outer := core.Addr(c.Call.Args[i])
			res := inner
			res.Root = outer.Root
			if outer.Root == nil {
				res.Root = c.Call.Args[i]
			}
			res.Steps = append(append([]string{}, outer.Steps...), inner.Steps...)
			return res, true
		}
	}
	return core.AddrPath{}, false
}

// atomicLoadAddr returns the address operand when v is (a conversion of) a direct sync/atomic Load call.
func atomicLoadAddr(v ssa.Value) (ssa.Value, bool) {
	v = core.StripConv(v)
	c, ok := v.(*ssa.Call)
	if !ok {
		return nil, false
	}
	op, addr, ok := core.AtomicOp(c)
	if !ok || op != "Load" {
		return nil, false
	}
	return addr, true
}

// classifyLoop returns the accepted non-waiting kind of a loop, or "" with a reason.
// Kinds: counted (integer induction with constant step and a bound that is a constant or the
// length of a slice/array), chain (pointer advanced by a load of a link word of itself, exit on nil),
// swar (w &= w-1 until 0), snapshot-retry (repeat only if two atomic loads of one slot differ).
func classifyLoop(r *Run, l *Loop) (kind, why string) {
	h := l.Header
	isBack := func(b *ssa.BasicBlock) bool {
		for _, x := range l.Backs {
			if x == b {
				return true
			}
		}
		return false
	}
	for _, in := range h.Instrs {
		phi, ok := in.(*ssa.Phi)
		if !ok {
			break
		}
		for i, e := range phi.Edges {
			if !isBack(h.Preds[i]) {
				continue
			}
			// follow phis in the body that merge values back (for.post merging continue edges)
			vals := flattenPhi(e, l, 0)
			allCounted, allChain, allSwar := len(vals) > 0, len(vals) > 0, len(vals) > 0
			for _, v := range vals {
				if v == ssa.Value(phi) {
					continue
				}
				// counted: phi + const
				if b, ok := v.(*ssa.BinOp); !(ok && (b.Op == token.ADD || b.Op == token.SUB) && b.X == ssa.Value(phi) && isConst(b.Y)) {
					allCounted = false
				}
				// chain: conversion of a load (atomic or plain) of a pointer-typed field of the bucket the phi points to
				if !chainStep(r, v, phi) {
					allChain = false
				}
				// swar: phi & (phi - 1)
				if b, ok := v.(*ssa.BinOp); ok && b.Op == token.AND {
					x, y := b.X, b.Y
					if y == ssa.Value(phi) {
						x, y = y, x
					}
					s, ok2 := y.(*ssa.BinOp)
					if !(x == ssa.Value(phi) && ok2 && s.Op == token.SUB && s.X == ssa.Value(phi) && isOne(s.Y)) {
						allSwar = false
					}
				} else {
					allSwar = false
				}
			}
			switch {
			case allCounted && isIntegral(phi.Type()) && boundedExit(l, phi):
				return "counted", ""
			case allChain:
				return "chain", ""
			case allSwar && exitOnZero(l, phi):
				return "swar", ""
			}
		}
	}
	// snapshot retry: every back edge is taken only on the 'differ' outcome of comparing two atomic
	// loads of the same slot
	okAll := len(l.Backs) > 0
	for _, u := range l.Backs {
		if !retryEdge(u, h) {
			okAll = false
		}
	}
	if okAll {
		return "snapshot-retry", ""
	}
	return "", "loop matches none of the accepted non-waiting kinds (counted, chain walk, SWAR scan, snapshot retry)"
}

func flattenPhi(v ssa.Value, l *Loop, depth int) []ssa.Value {
	if p, ok := v.(*ssa.Phi); ok && depth < 4 && l.Body[p.Block()] && p.Block() != l.Header {
		var out []ssa.Value
		for _, e := range p.Edges {
			out = append(out, flattenPhi(e, l, depth+1)...)
		}
		return out
	}
	return []ssa.Value{v}
}

func isConst(v ssa.Value) bool { _, ok := v.(*ssa.Const); return ok }
func isOne(v ssa.Value) bool   { k, ok := core.ConstInt(v); return ok && k == 1 }
func isIntegral(t types.Type) bool {
	b, ok := t.Underlying().(*types.Basic)
	return ok && b.Info()&types.IsInteger != 0
}

// chainStep: v = convert(load(&phi.<link>)) where the load is atomic (readers) or plain.
func chainStep(r *Run, v ssa.Value, phi *ssa.Phi) bool {
	v = core.StripConv(v)
	var addr ssa.Value
	if a, ok := atomicLoadAddr(v); ok {
		addr = a
	} else if u, ok := v.(*ssa.UnOp); ok && u.Op == token.MUL {
		addr = u.X
	} else {
		return false
	}
	a := core.Addr(addr)
	return a.Root == ssa.Value(phi) && isBucketOwner(r, a.Owner)
}

// boundedExit: some If inside the loop compares the induction variable (or its successor) with a
// constant or a len()/cap() and has a successor outside the loop.
func boundedExit(l *Loop, phi *ssa.Phi) bool {
	for b := range l.Body {
		iff, ok := b.Instrs[len(b.Instrs)-1].(*ssa.If)
		if !ok {
			continue
		}
		leaves := !l.Body[b.Succs[0]] || !l.Body[b.Succs[1]]
		if !leaves {
			continue
		}
		cmp, ok := iff.Cond.(*ssa.BinOp)
		if !ok {
			continue
		}
		uses := func(v ssa.Value) bool {
			if v == ssa.Value(phi) {
				return true
			}
			if bo, ok := v.(*ssa.BinOp); ok && bo.X == ssa.Value(phi) && isConst(bo.Y) {
				return true
			}
			return false
		}
		bound := func(v ssa.Value) bool {
			if isConst(v) {
				return true
			}
			if c, ok := v.(*ssa.Call); ok {
				n := core.IsBuiltinCall(c)
				return n == "len" || n == "cap"
			}
			return false
		}
		if (uses(cmp.X) && bound(cmp.Y)) || (uses(cmp.Y) && bound(cmp.X)) {
			return true
		}
	}
	return false
}

func exitOnZero(l *Loop, phi *ssa.Phi) bool {
	for b := range l.Body {
		iff, ok := b.Instrs[len(b.Instrs)-1].(*ssa.If)
		if !ok {
			continue
		}
		if l.Body[b.Succs[0]] && l.Body[b.Succs[1]] {
			continue
		}
		if cmp, ok := iff.Cond.(*ssa.BinOp); ok && (cmp.Op == token.NEQ || cmp.Op == token.EQL) {
			if (cmp.X == ssa.Value(phi) && isZero(cmp.Y)) || (cmp.Y == ssa.Value(phi) && isZero(cmp.X)) {
				return true
			}
		}
	}
	return false
}

func isZero(v ssa.Value) bool { k, ok := core.ConstInt(v); return ok && k == 0 }

// retryEdge: the back edge u->h is controlled by an If comparing two atomic loads of one address,
// and is taken on the unequal outcome.
func retryEdge(u, h *ssa.BasicBlock) bool {
	// walk up through single-predecessor blocks to the deciding If
	cur, next := u, h
	for i := 0; i < 6; i++ {
		if iff, ok := cur.Instrs[len(cur.Instrs)-1].(*ssa.If); ok {
			cmp, ok := iff.Cond.(*ssa.BinOp)
			if !ok || (cmp.Op != token.EQL && cmp.Op != token.NEQ) {
				return false
			}
			ax, ok1 := atomicLoadAddr(cmp.X)
			ay, ok2 := atomicLoadAddr(cmp.Y)
			if !ok1 || !ok2 || core.Addr(ax).Canon() != core.Addr(ay).Canon() {
				return false
			}
			takenOnTrue := cur.Succs[0] == next
			// back edge must be on the 'differ' side
			if cmp.Op == token.EQL {
				return !takenOnTrue
			}
			return takenOnTrue
		}
		if len(cur.Preds) != 1 {
			return false
		}
		next, cur = cur, cur.Preds[0]
	}
	return false
}

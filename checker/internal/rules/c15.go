package rules

import (
	"fmt"
	"go/token"
	"go/types"
	"sort"
	"strings"

	"cachelint/internal/core"

	"golang.org/x/tools/go/ssa"
)

func init() {
	Registry["C15"] = C15
	Metas["C15"] = Meta{
		Explanation: "Decides the structural clauses of C15 for both constructors. The constructor is evaluated abstractly over all its paths (sym: symbolic configuration, default configuration opaque); a go statement is an event with callee, argument terms and the memory of that path, and the goroutine body is evaluated under those terms (select forks a path per case; ticker creation, receives and DeleteExpired calls are events; paths cut at the loop bound are kept) - wherever the code lives (function literal, helper, method of a janitor struct, another file): (J1) a goroutine is started exactly on the paths whose condition establishes that the interval its ticker is built from is strictly positive, and on no path that establishes a positive interval without starting it; every tick is followed by DeleteExpired on the cache object built by this call and then by waiting again; the interval reaches that guard as the caller gave it (every option function, evaluated together with the function it returns on a symbolic config, replaces exactly its own field by its own argument; the NewDefault family stores each duration argument on every path); (J2) the values handed to the goroutine and every function that runs inside it hold nothing through which the outer wrapper is reachable, and the wrapper allocation is used only to embed the inner object, as SetFinalizer's first argument and as the returned interface value; (J3) runtime.SetFinalizer(wrapper, fn) is executed on every path to the constructor's return, fn captures nothing and - evaluated on the wrapper of the same path - closes the very channel that path's janitor waits on; the constructor returns the wrapper; (J4) receiving the stop signal ends the goroutine, no completed path ends without it, the stop channel is one created by this constructor call and only the finalizer (and what it calls) closes a channel; (J5) the goroutine does nothing besides waiting, cleaning up and stopping (diagnostic hooks apart), every go statement of the package is one reached from a constructor path, and nothing outside the janitor calls DeleteExpired internally; (J6) what the janitor relies on is restated: every DeleteExpired call makes its pass over the map (C08.S6) and decides per entry as the reference table says, on every path and without panicking (the DeleteExpired rows of C01.T3). (J7) no normalisation step squeezes the interval through an integer type that is 32 bits wide on 32-bit platforms (restated from C09.X6: 3 s would become 0, a negative interval positive). NOT decided: 'within a bounded number of intervals', GC / finalizer timing, goroutine counts.",
		Rule:        "one obligation per (rule, constructor | goroutine function | call site); non-trivial = decided from the evaluated paths of the constructor and of the goroutine it starts, or from dominance, capture and use-set queries on SSA",
		Assumptions: []string{"runtime.SetFinalizer runs fn when the wrapper becomes unreachable", "time.Ticker delivers ticks"},
	}
}

func C15(r *Run) *core.Report {
	rep := core.NewReport("C15")
	if !modelOKFor(r, rep, "C15.J0", "cache") {
		return rep
	}
	nGo := 0
	janitors := map[*ssa.Function]bool{}
	reachedGo := map[ssa.Instruction]bool{}
	finalizers := map[*ssa.Function]bool{}
	r.c15Twin = [2]map[string]bool{{}, {}}
	for i := 0; i < 2; i++ {
		ctor := r.M.CacheCtor[i]
		if ctor == nil {
			continue
		}
		obsBefore := len(rep.Obs)
		defer func(twin, from int) {}(i, obsBefore)
		recordTwin := func() {
			for _, o := range rep.Obs[obsBefore:] {
				if _, seen := r.c15Twin[i][o.Rule]; !seen {
					r.c15Twin[i][o.Rule] = true
				}
				if o.Status != core.Pass {
					r.c15Twin[i][o.Rule] = false
				}
			}
		}
		_ = recordTwin
		rep.Fn(fn(ctor))
		inner := r.M.CacheT[i]
		wrap := r.M.WrapT[i]
		// wrapper allocation
		var wrapAlloc *ssa.Alloc
		core.Instrs(ctor, func(in ssa.Instruction) {
			if a, ok := in.(*ssa.Alloc); ok {
				if n, ok := elemOf(a.Type()).(*types.Named); ok && (n == wrap || n.Origin() == wrap) {
					wrapAlloc = a
				}
			}
		})
		// ... or in a step function the constructor calls and whose result it returns (return c.wrap())
		wrapHost := ctor
		if wrapAlloc == nil {
			core.Instrs(ctor, func(in ssa.Instruction) {
				c, ok := in.(*ssa.Call)
				if !ok || wrapAlloc != nil {
					return
				}
				cal := core.Callee(c)
				if cal == nil || cal.Pkg != r.P.Cache || cal.Blocks == nil {
					return
				}
				core.Instrs(cal, func(in2 ssa.Instruction) {
					if a, ok := in2.(*ssa.Alloc); ok {
						if n, ok := elemOf(a.Type()).(*types.Named); ok && (n == wrap || n.Origin() == wrap) {
							wrapAlloc, wrapHost = a, cal
						}
					}
				})
				if wrapHost == cal {
					// every return of the constructor hands back what the step function returned
					allRet := true
					core.Instrs(ctor, func(in3 ssa.Instruction) {
						if ret, isRet := in3.(*ssa.Return); isRet {
							if len(ret.Results) != 1 || core.StripConv(ret.Results[0]) != ssa.Value(c) {
								allRet = false
							}
						}
					})
					rep.Check(allRet, "C15.J3", fn(ctor)+" returns the wrapper built by "+fn(cal), r.P.InstrPos(in), "the constructor returns the step function's result on every path", "the constructor does not return the wrapper its step function builds on every path: callers hold an object without a finalizer")
				}
			})
		}
		if wrapAlloc == nil {
			rep.Fail("C15.J3", fn(ctor)+" wrapper", r.P.Pos(ctor.Pos()), "constructor does not allocate the outer wrapper object: without it no finalizer can stop the janitor while the goroutine keeps the cache reachable")
			continue
		}
		// the janitor: launch condition and body, decided on the evaluated paths of the constructor
		launch := c15Sym(r, rep, i, ctor, inner)
		nGo += launch.nGo
		for f := range launch.entered {
			janitors[f] = true
		}
		for gi := range launch.goInstrs {
			reachedGo[gi] = true
		}
		var goes []*ssa.Go
		for gi := range launch.goInstrs {
			if g, ok := gi.(*ssa.Go); ok {
				goes = append(goes, g)
			}
		}
		sort.Slice(goes, func(a, b int) bool { return goes[a].Pos() < goes[b].Pos() })
		for _, g := range goes {
			var cl *ssa.Function
			mc, _ := g.Common().Value.(*ssa.MakeClosure)
			if mc != nil {
				cl = mc.Fn.(*ssa.Function)
			} else if cal := core.Callee(g); cal != nil && cal.Blocks != nil {
				cl = cal
			}
			if cl == nil {
				continue // reported by c15Sym
			}
			janitors[cl] = true
			rep.Fn(fn(cl))
			// J2 captures / arguments
			var inputs []ssa.Value
			var inNames []string
			if mc != nil {
				for bi, b := range mc.Bindings {
					inputs = append(inputs, b)
					inNames = append(inNames, cl.FreeVars[bi].Name())
				}
			} else {
				for ai, a := range g.Common().Args {
					inputs = append(inputs, a)
					nm := fmt.Sprintf("arg%d", ai)
					if ai < len(cl.Params) {
						nm = cl.Params[ai].Name()
					}
					inNames = append(inNames, nm)
				}
			}
			for bi, b := range inputs {
				t := b.Type()
				bad := reachesType(t, wrap, 0)
				rep.Check(!bad, "C15.J2", fmt.Sprintf("%s receives %s", fn(cl), inNames[bi]), r.P.InstrPos(g), "value handed to the goroutine cannot reference the wrapper", "the janitor goroutine is handed a value through which the outer wrapper is reachable ("+typeName(t)+"): the wrapper never becomes unreachable, its finalizer never runs and the goroutine leaks")
				if b == ssa.Value(wrapAlloc) {
					rep.Fail("C15.J2", fmt.Sprintf("%s receives the wrapper", fn(cl)), r.P.InstrPos(g), "the janitor goroutine is handed the wrapper object itself")
				}
			}
		}
		// nothing that runs inside the janitor goroutine may hold a value of the wrapper type either
		var inJanitor []*ssa.Function
		for f := range launch.entered {
			inJanitor = append(inJanitor, f)
		}
		sort.Slice(inJanitor, func(a, b int) bool { return fn(inJanitor[a]) < fn(inJanitor[b]) })
		for _, cl := range inJanitor {
			if r.M.CacheM[0]["DeleteExpired"] == cl || r.M.CacheM[1]["DeleteExpired"] == cl {
				continue
			}
			core.Instrs(cl, func(in ssa.Instruction) {
				if v, ok := in.(ssa.Value); ok && reachesType(v.Type(), wrap, 0) {
					rep.Fail("C15.J2", fn(cl)+" uses the wrapper type", r.P.InstrPos(in), "a value of the wrapper type is live inside the janitor goroutine")
				}
			})
		}
		// wrapper uses
		okUses := true
		var retOK, finOK bool
		var finCall ssa.Instruction
		for _, ref := range *wrapAlloc.Referrers() {
			switch x := ref.(type) {
			case *ssa.FieldAddr:
				// only as destination of the embedding store
				for _, r2 := range *x.Referrers() {
					if st, ok := r2.(*ssa.Store); !ok || st.Addr != ssa.Value(x) {
						okUses = false
					}
				}
			case *ssa.MakeInterface:
				for _, r2 := range *x.Referrers() {
					switch y := r2.(type) {
					case *ssa.Return:
						retOK = true
					case ssa.CallInstruction:
						if core.CalleeID(y) == "runtime.SetFinalizer" && y.Common().Args[0] == ssa.Value(x) {
							finOK = true
							finCall = r2
						} else {
							okUses = false
						}
					default:
						okUses = false
					}
				}
			case *ssa.DebugRef:
			default:
				okUses = false
				rep.Fail("C15.J2", fn(ctor)+" wrapper escapes", r.P.InstrPos(ref), fmt.Sprintf("the wrapper object is used by %T: it may stay reachable from something other than the caller's reference", ref))
			}
		}
		rep.Check(okUses, "C15.J2", fn(ctor)+" wrapper uses", r.P.InstrPos(wrapAlloc), "wrapper is only initialised, registered with SetFinalizer and returned", "the wrapper object has uses besides embedding the inner object, SetFinalizer and the return value")
		rep.Check(retOK, "C15.J3", fn(ctor)+" returns the wrapper", r.P.InstrPos(wrapAlloc), "constructor returns the wrapper (the only object with a finalizer)", "the constructor does not return the wrapper object: callers hold the inner object, the wrapper is collected at once (janitor stops immediately) or never")
		// J3 SetFinalizer on every path, closes stop
		if !finOK {
			rep.Fail("C15.J3", fn(ctor)+" SetFinalizer", r.P.Pos(ctor.Pos()), "no runtime.SetFinalizer on the wrapper: the janitor goroutine is never told to stop, every dropped cache leaks a goroutine and its contents")
		} else {
			all := true
			core.Instrs(wrapHost, func(in ssa.Instruction) {
				if ret, ok := in.(*ssa.Return); ok && !core.Dominates(finCall, ret) {
					all = false
				}
			})
			rep.Check(all, "C15.J3", fn(ctor)+" SetFinalizer on every path", r.P.InstrPos(finCall), "SetFinalizer dominates every return", "a path to the constructor's return skips SetFinalizer")
			fc := finCall.(ssa.CallInstruction)
			arg := fc.Common().Args[1]
			if mi, ok := arg.(*ssa.MakeInterface); ok {
				arg = mi.X
			}
			var ff *ssa.Function
			free := false
			switch x := arg.(type) {
			case *ssa.Function:
				ff = x
			case *ssa.MakeClosure:
				ff = x.Fn.(*ssa.Function)
				free = len(x.Bindings) > 0
			}
			if m := boundMethod(ff); m != nil {
				ff = m // method expression / method value: the finalizer is that method
			}
			if ff != nil && ff.Origin() != nil {
				ff = ff.Origin() // instantiation of a generic function: its declared body
			}
			if ff == nil {
				rep.Undecided("C15.J3", fn(ctor)+" finalizer function", r.P.InstrPos(finCall), "finalizer is not a function literal")
			} else {
				finalizers[ff] = true
				rep.Check(!free, "C15.J3", fn(ff)+" has no free variables", r.P.Pos(ff.Pos()), "finalizer captures nothing", "the finalizer closure captures variables: if they reach the wrapper the object is never finalized")
				closes := false
				for f2 := range launch.finEntered {
					finalizers[f2] = true // helpers the finalizer closes the channel through (m.stop.fire())
				}
				core.Instrs(ff, func(in ssa.Instruction) {
					if c, ok := in.(ssa.CallInstruction); ok && core.IsBuiltinCall(c) == "close" {
						if ld, ok := c.Common().Args[0].(*ssa.UnOp); ok {
							a := core.Addr(ld.X)
							if a.Owner == inner.Obj().Name() && isChanField(inner, a.Field) {
								closes = true
							}
						}
					}
				})
				if launch.finChecked {
					// decided on the evaluated paths: the finalizer closes the very channel the janitor of that path waits on
					rep.Check(launch.finOK, "C15.J3", fn(ff)+" closes stop", r.P.Pos(ff.Pos()), "finalizer closes the channel the janitor waits on", launch.finWhy)
				} else {
					rep.Check(closes, "C15.J3", fn(ff)+" closes stop", r.P.Pos(ff.Pos()), "finalizer closes the inner object's stop channel", "the finalizer does not close the inner object's stop channel: the janitor goroutine is never released")
				}
			}
		}
		// stop channel created in the constructor
		made := false
		core.Instrs(ctor, func(in ssa.Instruction) {
			if st, ok := in.(*ssa.Store); ok {
				a := core.Addr(st.Addr)
				if a.Owner == inner.Obj().Name() && isChanField(inner, a.Field) {
					if _, ok := st.Val.(*ssa.MakeChan); ok {
						made = true
					}
				}
			}
		})
		if launch.nGo == 0 {
			// (with an evaluated janitor the rule is decided on its paths: the channel it waits on was made by this call)
			rep.Check(made, "C15.J4", fn(ctor)+" creates stop", r.P.Pos(ctor.Pos()), "stop channel created by the constructor", "the stop channel is not created by the constructor (a nil channel never delivers: the janitor would never stop)")
		}
		recordTwin()
	}
	rep.MinCount("C15.J1", "janitor go statements", nGo, 2)
	// J7: 'the interval the guard tests is the caller's' also needs that no normalisation step squeezes it through a
	// 32-bit integer on the way (restated from C09.X6)
	{
		tmp := core.NewReport("C15")
		c09X6(r, tmp, "C09.X6")
		borrow(rep, tmp, "C15.J7", "C09.X6")
	}
	// the interval the guard tests is the caller's: the NewDefault family hands its arguments on unconditionally
	for _, v := range defaultCtorFlow(r, rep, "C15.J1") {
		// per twin (the generic constructor family is CacheOf's), for the twins' comparison
		tw := 0
		if v.F.TypeParams().Len() > 0 || (v.F.Origin() != nil && v.F.Origin().TypeParams().Len() > 0) {
			tw = 1
		}
		k := fmt.Sprintf("C15.J1/default-constructor-arg%d", v.Arg)
		if old, seen := r.c15Twin[tw][k]; !seen || old {
			r.c15Twin[tw][k] = v.OK
		}
	}
	optionFlow(r, rep, "C15.J1")
	// J6: what the janitor relies on: each DeleteExpired call really makes its pass over the map (C08.S6) and decides
	// per entry exactly as the reference says, on every path and without panicking (the DeleteExpired rows of C01.T3) -
	// a pass that is skipped, or that can blow up inside the janitor goroutine, leaves expired entries behind for good
	{
		sub := core.NewReport("C15")
		for _, o := range C08(r).Obs {
			if o.Rule == "C08.S6" && strings.Contains(o.Construct, "DeleteExpired") {
				sub.Obs = append(sub.Obs, o)
			}
		}
		for _, o := range C01(r).Obs {
			if o.Rule == "C01.T3" && strings.Contains(o.Construct, "DeleteExpired") {
				sub.Obs = append(sub.Obs, o)
			}
		}
		n6 := borrow(rep, sub, "C15.J6", "C08.S6", "C01.T3")
		rep.MinCount("C15.J6", "premise obligations (DeleteExpired makes its pass and decides as the reference)", n6, 4)
	}
	// J4/J5 module-wide
	for _, f := range r.P.Funcs {
		if f.Pkg != r.P.Cache {
			continue
		}
		core.Instrs(f, func(in ssa.Instruction) {
			if g, ok := in.(*ssa.Go); ok {
				rep.Check(reachedGo[g], "C15.J5", fn(f)+" go statement", r.P.InstrPos(g), "goroutines are started only on the constructors' evaluated paths (subject to J1-J4)", "a goroutine is started outside the analysed constructors: its lifetime is not tied to the cache")
			}
			c, ok := in.(ssa.CallInstruction)
			if !ok {
				return
			}
			if core.IsBuiltinCall(c) == "close" {
				rep.Check(finalizers[f], "C15.J4", fn(f)+" closes a channel", r.P.InstrPos(in), "only the finalizer closes the stop channel", "a channel is closed outside the finalizer: a second close panics, an early close stops the janitor while the cache is in use")
			}
			isDE := false
			if cal := core.Callee(c); cal != nil && (cal == r.M.CacheM[0]["DeleteExpired"] || cal == r.M.CacheM[1]["DeleteExpired"]) {
				isDE = true
			}
			if c.Common().IsInvoke() && c.Common().Method.Name() == "DeleteExpired" {
				isDE = true
			}
			if isDE && !syntheticForwarder(f) {
				rep.Check(janitors[f], "C15.J5", fn(f)+" calls DeleteExpired", r.P.InstrPos(in), "only the janitor goroutine calls DeleteExpired internally", "DeleteExpired is called internally outside the janitor goroutine: entries would be removed on their own even with an interval <= 0")
			}
		})
	}
	return rep
}

// syntheticForwarder: a compiler-made wrapper (bound method value, method expression thunk) that only forwards.
func syntheticForwarder(f *ssa.Function) bool {
	return f != nil && f.Synthetic != "" && (strings.Contains(f.Synthetic, "bound method wrapper") || strings.Contains(f.Synthetic, "thunk") || strings.Contains(f.Synthetic, "wrapper for"))
}

func isChanField(t *types.Named, field string) bool {
	st, ok := t.Underlying().(*types.Struct)
	if !ok {
		return false
	}
	for i := 0; i < st.NumFields(); i++ {
		if st.Field(i).Name() == field {
			_, ok := st.Field(i).Type().Underlying().(*types.Chan)
			return ok
		}
	}
	return false
}

// reachesType reports whether a value of type t can reference an object of the named type target.
func reachesType(t types.Type, target *types.Named, depth int) bool {
	if depth > 6 {
		return false
	}
	switch x := t.(type) {
	case *types.Named:
		if x == target || x.Origin() == target {
			return true
		}
		if x.Obj().Pkg() == nil || x.Obj().Pkg().Path() != core.CachePath {
			return false
		}
		return reachesType(x.Underlying(), target, depth+1)
	case *types.Pointer:
		return reachesType(x.Elem(), target, depth+1)
	case *types.Struct:
		for i := 0; i < x.NumFields(); i++ {
			if reachesType(x.Field(i).Type(), target, depth+1) {
				return true
			}
		}
	case *types.Slice:
		return reachesType(x.Elem(), target, depth+1)
	case *types.Array:
		return reachesType(x.Elem(), target, depth+1)
	case *types.Interface:
		// the Cache interface value could hold the wrapper
		return false
	}
	return false
}

// positiveTest recognises conditions implying 'field > 0' for a duration/int field loaded from a cell:
// x > c (c >= 0), x >= c (c >= 1), c < x, c <= x. Returns which edge is the positive one.
func positiveTest(cond ssa.Value) (posOnTrue bool, field string, cell ssa.Value, ok bool) {
	neg := false
	for {
		if u, isU := cond.(*ssa.UnOp); isU && u.Op == token.NOT {
			neg = !neg
			cond = u.X
			continue
		}
		break
	}
	b, isB := cond.(*ssa.BinOp)
	if !isB {
		return
	}
	x, y, op := b.X, b.Y, b.Op
	if _, isC := core.ConstInt(x); isC {
		x, y = y, x
		switch op {
		case token.LSS:
			op = token.GTR
		case token.LEQ:
			op = token.GEQ
		case token.GTR:
			op = token.LSS
		case token.GEQ:
			op = token.LEQ
		}
	}
	k, isC := core.ConstInt(y)
	ld, isLd := x.(*ssa.UnOp)
	if !isC || !isLd || ld.Op != token.MUL {
		return
	}
	a := core.Addr(ld.X)
	if a.Field == "" {
		return
	}
	field, cell = a.Field, a.Root
	switch {
	case op == token.GTR && k >= 0, op == token.GEQ && k >= 1:
		return !neg, field, cell, true
	case op == token.LEQ && k >= 0, op == token.LSS && k >= 1:
		// x <= 0 : positive on the false edge
		return neg, field, cell, true
	}
	return
}

// c15select checks the janitor loop: the ticker case calls DeleteExpired on the captured inner object and
// the stop case leaves the goroutine.
func c15select(r *Run, rep *core.Report, idx int, ctor, cl *ssa.Function, ticker ssa.Value, inner *types.Named, argOf func(ssa.Value) ssa.Value) {
	var sel *ssa.Select
	core.Instrs(cl, func(in ssa.Instruction) {
		if s, ok := in.(*ssa.Select); ok {
			sel = s
		}
	})
	if sel == nil {
		rep.Fail("C15.J4", fn(cl)+" select", r.P.Pos(cl.Pos()), "the janitor goroutine has no select over the ticker and the stop channel")
		return
	}
	tickIdx, stopIdx := -1, -1
	for i, st := range sel.States {
		ld, ok := argOf(st.Chan).(*ssa.UnOp)
		if !ok {
			continue
		}
		a := core.Addr(ld.X)
		if a.Owner == inner.Obj().Name() && isChanField(inner, a.Field) {
			stopIdx = i
		} else if ticker != nil && core.StripConv(a.Root) == ticker {
			tickIdx = i
		}
	}
	if call, ok := ticker.(*ssa.Call); ok && tickIdx < 0 {
		// time.Tick / time.After return the channel directly
		for i, st := range sel.States {
			if st.Chan == ssa.Value(call) {
				tickIdx = i
			}
		}
	}
	rep.Check(stopIdx >= 0, "C15.J4", fn(cl)+" stop case", r.P.InstrPos(sel), "select receives from the inner object's stop channel", "the janitor's select has no receive on the inner object's stop channel: closing it in the finalizer cannot stop the goroutine")
	rep.Check(tickIdx >= 0, "C15.J1", fn(cl)+" ticker case", r.P.InstrPos(sel), "select receives from the ticker", "the janitor's select has no receive on its ticker")
	// case bodies: find the block entered when index == k
	var idxVal ssa.Value
	for _, ref := range *sel.Referrers() {
		if ex, ok := ref.(*ssa.Extract); ok && ex.Index == 0 {
			idxVal = ex
		}
	}
	caseBlock := func(k int) *ssa.BasicBlock {
		if idxVal == nil {
			return nil
		}
		for _, ref := range *idxVal.Referrers() {
			if b, ok := ref.(*ssa.BinOp); ok && b.Op == token.EQL {
				if c, isC := core.ConstInt(b.Y); isC && int(c) == k {
					for _, r2 := range *b.Referrers() {
						if iff, ok := r2.(*ssa.If); ok {
							return iff.Block().Succs[0]
						}
					}
				}
			}
		}
		return nil
	}
	if tickIdx >= 0 {
		cb := caseBlock(tickIdx)
		calls := false
		if cb != nil {
			for b := range blockReachUntil(cb, sel.Block()) {
				for _, in := range b.Instrs {
					if c, ok := in.(ssa.CallInstruction); ok {
						de := r.M.CacheM[idx]["DeleteExpired"]
						if cal := core.Callee(c); cal != nil && (cal == de || (cal == pureDelegate(de) && len(c.Common().Args) == 1)) {
							calls = true
						}
						// through a small interface: the method of that name on the cache object handed to the goroutine
						if cc := c.Common(); cc.IsInvoke() && de != nil && cc.Method.Name() == de.Name() {
							if n, ok := elemOf(argOf(cc.Value).Type()).(*types.Named); ok {
								if n.Origin() != nil {
									n = n.Origin()
								}
								if n == inner {
									calls = true
								}
							}
						}
					}
				}
			}
		}
		rep.Check(calls, "C15.J1", fn(cl)+" ticker case cleans up", r.P.InstrPos(sel), "each tick calls DeleteExpired on the cache", "the ticker case does not call DeleteExpired: expired entries are never removed without a user call")
	}
	if stopIdx >= 0 {
		cb := caseBlock(stopIdx)
		leaves := false
		if cb != nil {
			leaves = true
			for b := range blockReachUntil(cb, nil) {
				if b == sel.Block() {
					leaves = false // loops back to the select
				}
			}
			hasRet := false
			for b := range blockReachUntil(cb, nil) {
				for _, in := range b.Instrs {
					if _, ok := in.(*ssa.Return); ok {
						hasRet = true
					}
				}
			}
			leaves = leaves && hasRet
		}
		rep.Check(leaves, "C15.J4", fn(cl)+" stop case returns", r.P.InstrPos(sel), "receiving from stop ends the goroutine", "the stop case does not leave the goroutine (it loops back to the select): the janitor outlives its cache")
	}
}

// blockReachUntil returns the blocks reachable from `from`, not expanding `until` (if non-nil).
func blockReachUntil(from, until *ssa.BasicBlock) map[*ssa.BasicBlock]bool {
	seen := map[*ssa.BasicBlock]bool{}
	var walk func(b *ssa.BasicBlock)
	walk = func(b *ssa.BasicBlock) {
		if seen[b] {
			return
		}
		seen[b] = true
		if b == until {
			return
		}
		for _, s := range b.Succs {
			walk(s)
		}
	}
	walk(from)
	return seen
}

// pureDelegate: f does nothing but call g with exactly its own parameters (a public method kept as a thin wrapper of
// an internal one); calling g with the same arguments is then the same as calling f.
func pureDelegate(f *ssa.Function) *ssa.Function {
	if f == nil || len(f.Blocks) != 1 {
		return nil
	}
	var g *ssa.Function
	n := 0
	for _, in := range f.Blocks[0].Instrs {
		switch x := in.(type) {
		case *ssa.Call:
			n++
			cal := core.Callee(x)
			if cal == nil || cal.Blocks == nil || len(x.Call.Args) != len(f.Params) {
				return nil
			}
			for i, a := range x.Call.Args {
				if a != ssa.Value(f.Params[i]) {
					return nil
				}
			}
			g = cal
		case *ssa.Return, *ssa.DebugRef:
		default:
			return nil
		}
	}
	if n != 1 {
		return nil
	}
	if o := g.Origin(); o != nil {
		g = o
	}
	return g
}

package rules

import (
	"encoding/json"
	"fmt"
	"math/rand"
	"os"
	"os/exec"
	"path/filepath"
	"runtime"
	"sort"
	"strings"

	"cachelint/internal/core"
)

// Control is one catalogue entry: a textual variant of the current tree that either breaks one
// instance (positive: the property's check must report it) or preserves behaviour (negative: must stay silent).
type Control struct {
	ID         string   `json:"id"`
	Kind       string   `json:"kind"` // "positive" | "negative"
	Properties []string `json:"properties"`
	Edits      []Edit   `json:"edits"`
	ExpectRule string   `json:"expect_rule,omitempty"` // prefix of the rule that must report (positive)
	Note       string   `json:"note"`
	PatchFile  string   `json:"patch_file,omitempty"` // seeded change: a unified diff applied to a scratch copy of the touched files
}

type Edit struct {
	File string `json:"file"`
	Old  string `json:"old"`
	New  string `json:"new"`
	Nth  int    `json:"nth,omitempty"` // 0 = first occurrence
}

type ControlResult struct {
	ID       string   `json:"id"`
	Kind     string   `json:"kind"`
	Outcome  string   `json:"outcome"` // detected | MISSED | silent | FALSE-ALARM | skipped(anchor) | skipped(no-compile)
	Rules    []string `json:"reporting_rules,omitempty"`
	Expected string   `json:"expected_rule,omitempty"`
	Note     string   `json:"note,omitempty"`
}

func loadCatalogue(verif string) ([]Control, error) {
	var all []Control
	files, _ := filepath.Glob(filepath.Join(verif, "controls", "*.json"))
	sort.Strings(files)
	for _, f := range files {
		b, err := os.ReadFile(f)
		if err != nil {
			return nil, err
		}
		var cs []Control
		if err := json.Unmarshal(b, &cs); err != nil {
			return nil, fmt.Errorf("%s: %w", f, err)
		}
		all = append(all, cs...)
	}
	// seeded changes (independent mutants and regressions of repaired defects) are positive controls of the
	// property they break
	metas, _ := filepath.Glob(filepath.Join(verif, "seeded", "*", "meta.json"))
	sort.Strings(metas)
	for _, mf := range metas {
		b, err := os.ReadFile(mf)
		if err != nil {
			continue
		}
		var m struct {
			ID     string   `json:"id"`
			Kind   string   `json:"kind"`
			Files  []string `json:"files"`
			Breaks string   `json:"breaks_property"`
			Prop   string   `json:"property"`
			Also   []string `json:"also"`
			Needs  string   `json:"needs_to_manifest"`
			Needs2 string   `json:"needs"`
		}
		if json.Unmarshal(b, &m) != nil {
			continue
		}
		if m.Kind == "negative" {
			// a behaviour-preserving refactoring: every property's check must stay silent on it
			var all16 []string
			for id := range Registry {
				all16 = append(all16, id)
			}
			sort.Strings(all16)
			id := m.ID
			if id == "" {
				id = filepath.Base(filepath.Dir(mf))
			}
			all = append(all, Control{ID: "seeded/" + id, Kind: "negative", Properties: all16, Note: "refactoring of " + strings.Join(m.Files, ", "), PatchFile: filepath.Join(filepath.Dir(mf), "patch.diff")})
			continue
		}
		prop := m.Breaks
		if prop == "" {
			prop = m.Prop
		}
		id := m.ID
		if id == "" {
			id = filepath.Base(filepath.Dir(mf))
		}
		note := m.Needs
		if note == "" {
			note = m.Needs2
		}
		all = append(all, Control{ID: "seeded/" + id, Kind: "positive", Properties: append([]string{prop}, m.Also...), Note: note, PatchFile: filepath.Join(filepath.Dir(mf), "patch.diff")})
	}
	return all, nil
}

// patchOverlay applies a unified diff to scratch copies of the files it touches and returns them as an overlay.
func patchOverlay(repo, patchFile string) (map[string][]byte, bool) {
	b, err := os.ReadFile(patchFile)
	if err != nil {
		return nil, false
	}
	var files, deleted []string
	lines := strings.Split(string(b), "\n")
	for li, line := range lines {
		if strings.HasPrefix(line, "+++ b/") {
			files = append(files, strings.TrimSpace(strings.TrimPrefix(line, "+++ b/")))
		}
		// a file the change removes (its declarations moved elsewhere): '--- a/f' followed by '+++ /dev/null'
		if strings.HasPrefix(line, "+++ /dev/null") && li > 0 && strings.HasPrefix(lines[li-1], "--- a/") {
			deleted = append(deleted, strings.TrimSpace(strings.TrimPrefix(lines[li-1], "--- a/")))
		}
	}
	if len(files)+len(deleted) == 0 {
		return nil, false
	}
	tmp, err := os.MkdirTemp("", "cachelint-seed-")
	if err != nil {
		return nil, false
	}
	defer os.RemoveAll(tmp)
	for _, f := range files {
		dst := filepath.Join(tmp, f)
		os.MkdirAll(filepath.Dir(dst), 0o755)
		src, err := os.ReadFile(filepath.Join(repo, f))
		if err != nil {
			continue // a file the change adds: the patch creates it
		}
		if os.WriteFile(dst, src, 0o644) != nil {
			return nil, false
		}
	}
	delPkg := map[string]string{}
	for _, f := range deleted {
		src, err := os.ReadFile(filepath.Join(repo, f))
		if err != nil {
			return nil, false
		}
		dst := filepath.Join(tmp, f)
		os.MkdirAll(filepath.Dir(dst), 0o755)
		if os.WriteFile(dst, src, 0o644) != nil {
			return nil, false
		}
		for _, l := range strings.Split(string(src), "\n") {
			if strings.HasPrefix(l, "package ") {
				delPkg[f] = strings.TrimSpace(l)
				break
			}
		}
	}
	cmd := exec.Command("patch", "-p1", "-s", "-f", "-i", patchFile)
	cmd.Dir = tmp
	if err := cmd.Run(); err != nil {
		return nil, false
	}
	ov := map[string][]byte{}
	for _, f := range files {
		nb, err := os.ReadFile(filepath.Join(tmp, f))
		if err != nil {
			return nil, false
		}
		ov[filepath.Join(repo, f)] = nb
	}
	// a removed file is overlaid by its bare package clause (the loader cannot unlist a file)
	for _, f := range deleted {
		if delPkg[f] == "" {
			return nil, false
		}
		ov[filepath.Join(repo, f)] = []byte(delPkg[f] + "\n")
	}
	return ov, true
}

// overlayFor builds the in-memory variant; ok=false when an anchor no longer exists.
func overlayFor(repo string, c Control) (map[string][]byte, bool) {
	if c.PatchFile != "" {
		return patchOverlay(repo, c.PatchFile)
	}
	ov := map[string][]byte{}
	for _, e := range c.Edits {
		path := filepath.Join(repo, e.File)
		var src string
		if b, ok := ov[path]; ok {
			src = string(b)
		} else {
			b, err := os.ReadFile(path)
			if err != nil {
				return nil, false
			}
			src = string(b)
		}
		idx := -1
		from := 0
		for k := 0; k <= e.Nth; k++ {
			i := strings.Index(src[from:], e.Old)
			if i < 0 {
				return nil, false
			}
			idx = from + i
			from = idx + len(e.Old)
		}
		src = src[:idx] + e.New + src[idx+len(e.Old):]
		ov[path] = []byte(src)
	}
	return ov, true
}

// RunControl evaluates one control for one property.
func RunControl(repo, prop string, c Control) ControlResult {
	res := ControlResult{ID: c.ID, Kind: c.Kind, Expected: c.ExpectRule, Note: c.Note}
	ov, ok := overlayFor(repo, c)
	if !ok {
		res.Outcome = "skipped(anchor)"
		return res
	}
	rep := core.NewReport(prop)
	for _, arch := range append([]string{""}, ExtraArchs[prop]...) {
		p, err := core.Load(core.LoadOpts{Dir: repo, Overlay: ov, GOARCH: arch})
		if err != nil {
			res.Outcome = "skipped(no-compile)"
			res.Note = err.Error()
			return res
		}
		pf := Registry[prop]
		func() {
			defer func() {
				if e := recover(); e != nil {
					rep.Undecided(prop+".panic", "analyser", "-", fmt.Sprint(e))
				}
			}()
			rep.Merge(pf(NewRun(p, "quick")))
		}()
	}
	seen := map[string]bool{}
	for _, o := range rep.Obs {
		if o.Status != core.Pass && !seen[o.Rule] {
			seen[o.Rule] = true
			res.Rules = append(res.Rules, o.Rule)
		}
	}
	sort.Strings(res.Rules)
	fired := len(res.Rules) > 0
	switch c.Kind {
	case "positive":
		named := c.ExpectRule == ""
		for _, r := range res.Rules {
			if strings.HasPrefix(r, c.ExpectRule) {
				named = true
			}
		}
		switch {
		case fired && named:
			res.Outcome = "detected"
		case fired:
			res.Outcome = "detected(other-rule)"
		default:
			res.Outcome = "MISSED"
		}
	default:
		if fired {
			res.Outcome = "FALSE-ALARM"
		} else {
			res.Outcome = "silent"
		}
	}
	return res
}

// baselineRules returns the rules that already report on the unmodified tree (so that a control is
// judged on what it adds).
func init() {
	ControlsHook = func(id, tier string, seed int64, repo string) interface{} {
		verif := os.Getenv("CACHELINT_VERIF")
		if verif == "" {
			verif = "/verif"
		}
		cat, err := loadCatalogue(verif)
		if err != nil {
			return map[string]interface{}{"error": err.Error()}
		}
		var mine []Control
		for _, c := range cat {
			for _, p := range c.Properties {
				if p == id {
					mine = append(mine, c)
				}
			}
		}
		if len(mine) == 0 {
			return map[string]interface{}{"catalogue": 0}
		}
		rng := rand.New(rand.NewSource(seed))
		rng.Shuffle(len(mine), func(i, j int) { mine[i], mine[j] = mine[j], mine[i] })
		if tier == "quick" {
			// two canaries: one positive, one negative if available
			var pick []Control
			for _, k := range []string{"positive", "negative"} {
				for _, c := range mine {
					if c.Kind == k {
						pick = append(pick, c)
						break
					}
				}
			}
			mine = pick
		}
		results := make([]ControlResult, len(mine))
		sem := make(chan struct{}, max(1, runtime.NumCPU()/2))
		done := make(chan int)
		for i := range mine {
			go func(i int) {
				sem <- struct{}{}
				results[i] = RunControl(repo, id, mine[i])
				<-sem
				done <- i
			}(i)
		}
		for range mine {
			<-done
		}
		sort.Slice(results, func(i, j int) bool { return results[i].ID < results[j].ID })
		sum := map[string]int{}
		for _, r := range results {
			sum[r.Outcome]++
		}
		return map[string]interface{}{"catalogue": len(cat), "run": len(results), "summary": sum, "results": results,
			"note": "controls are in-memory overlay variants of the current tree; they never influence the exit code"}
	}
}

// Package rules holds the per-property rule sets of cachelint.
package rules

import (
	"fmt"
	"go/constant"
	"go/token"
	"go/types"
	"sort"
	"strings"

	"cachelint/internal/core"

	"golang.org/x/tools/go/ssa"
)

// Run is one analysed program with its model and effect sets.
type Run struct {
	P    *core.Prog
	M    *core.Model
	E    *core.Effects
	Tier string
	// per-run memo tables (a Run is used by one goroutine)
	lfMemo     map[string]*LockFacts
	cfMemo     map[string]*CoreFlow
	mpMemo     map[string]*MethodPaths
	inlineMemo map[*ssa.Function]bool
	depthSpecs int
	// per twin constructor, whether each C15 rule family held (written by C15, read by C12.W4)
	c15Twin [2]map[string]bool
}

func NewRun(p *core.Prog, tier string) *Run {
	m := core.BuildModel(p)
	return &Run{P: p, M: m, E: core.ComputeEffects(m), Tier: tier, lfMemo: map[string]*LockFacts{}, cfMemo: map[string]*CoreFlow{}, mpMemo: map[string]*MethodPaths{}}
}

// PropertyFunc evaluates all rules of one property on one loaded program.
type PropertyFunc func(r *Run) *core.Report

// Registry maps property ids to their rule sets.
var Registry = map[string]PropertyFunc{}

// Meta describes a property's claim (shared by evidence writer and MANIFEST generator).
type Meta struct {
	Explanation string
	Rule        string
	Assumptions []string
}

var Metas = map[string]Meta{}

func fn(f *ssa.Function) string { return core.FuncName(f) }

// modelOK adds an undecided obligation for every model discovery problem and reports whether
// the model is usable.
func modelOK(r *Run, rep *core.Report, rule string) bool { return modelOKFor(r, rep, rule, "all") }

// modelOKFor: scope limits which discovery problems matter to a property: "cache" - only the cache layer (problems
// of the map implementations are not its business), "map0" / "map1" - one map implementation and the shared helpers,
// "all" - everything. A problem outside the scope is not reported by this property (the properties it concerns do).
func modelOKFor(r *Run, rep *core.Report, rule, scope string) bool {
	var probs []string
	for _, pr := range r.M.Problems {
		isMap0 := len(r.M.Maps) > 0 && strings.HasPrefix(pr, r.M.Maps[0].Name+": ")
		isMap1 := len(r.M.Maps) > 1 && strings.HasPrefix(pr, r.M.Maps[1].Name+": ")
		isCache := !isMap0 && !isMap1 && (strings.Contains(pr, "cache") || strings.Contains(pr, "constructor of") || strings.Contains(pr, "API method") || strings.Contains(pr, "wrapper") || strings.Contains(pr, "interface cache."))
		switch scope {
		case "cache":
			if isMap0 || isMap1 {
				continue
			}
		case "map0":
			if isMap1 || isCache {
				continue
			}
		case "map1":
			if isMap0 || isCache {
				continue
			}
		}
		probs = append(probs, pr)
	}
	if len(probs) == 0 && len(r.M.Maps) == 2 {
		return true
	}
	for _, pr := range probs {
		rep.Undecided(rule, "model/"+pr, "-", "structural anchor not found: "+pr)
	}
	if len(r.M.Maps) != 2 {
		rep.Undecided(rule, "model/maps", "-", fmt.Sprintf("%d map implementations discovered, want 2", len(r.M.Maps)))
	}
	return false
}

// specsFor enumerates the constant specialisations of f's bool / constant-int parameters
// seen at its call sites. A parameter that receives a non-constant argument at some call
// site is left unspecialised. With no specialisable parameter one empty spec is returned.
func specsFor(r *Run, f *ssa.Function) []core.Spec {
	sites := core.CallSitesOf(r.P.Funcs, f)
	if len(sites) == 0 {
		return []core.Spec{{}}
	}
	off := 0
	_ = off
	type tup = string
	var cand []int
	for i, p := range f.Params {
		switch t := p.Type().Underlying().(type) {
		case *types.Basic:
			if t.Kind() == types.Bool || (t.Info()&types.IsInteger != 0 && isNamed(p.Type())) {
				cand = append(cand, i)
			}
		}
	}
	// per call site, the constant values an argument can take: a literal constant, or - when the argument is a
	// parameter of the caller - the values the caller's own specialisations give it (one level up)
	valuesAt := func(s ssa.CallInstruction, i int) ([]constant.Value, bool) {
		args := s.Common().Args
		if i >= len(args) {
			return nil, false
		}
		if c, ok := args[i].(*ssa.Const); ok && c.Value != nil {
			return []constant.Value{c.Value}, true
		}
		if prm, ok := args[i].(*ssa.Parameter); ok && r.depthSpecs < 2 {
			r.depthSpecs++
			defer func() { r.depthSpecs-- }()
			var vals []constant.Value
			for _, csp := range specsFor(r, prm.Parent()) {
				v, bound := csp[prm]
				if !bound {
					return nil, false
				}
				vals = append(vals, v)
			}
			return vals, len(vals) > 0
		}
		return nil, false
	}
	var keep []int
	for _, i := range cand {
		all := true
		for _, s := range sites {
			if _, ok := valuesAt(s, i); !ok {
				all = false
				break
			}
		}
		if all {
			keep = append(keep, i)
		}
	}
	if len(keep) == 0 {
		return []core.Spec{{}}
	}
	seen := map[tup]bool{}
	var out []core.Spec
	for _, s := range sites {
		// cartesian product of the values of the kept parameters at this site
		combos := []core.Spec{{}}
		for _, i := range keep {
			vals, _ := valuesAt(s, i)
			var next []core.Spec
			for _, c := range combos {
				for _, v := range vals {
					n := core.Spec{}
					for k2, v2 := range c {
						n[k2] = v2
					}
					n[f.Params[i]] = v
					next = append(next, n)
				}
			}
			combos = next
		}
		for _, sp := range combos {
			var key []string
			for _, i := range keep {
				key = append(key, sp[f.Params[i]].ExactString())
			}
			k := strings.Join(key, ",")
			if !seen[k] {
				seen[k] = true
				out = append(out, sp)
			}
		}
	}
	sort.Slice(out, func(i, j int) bool { return out[i].String(f) < out[j].String(f) })
	return out
}

func isNamed(t types.Type) bool { _, ok := t.(*types.Named); return ok }

func constBoolOf(sp core.Spec, p *ssa.Parameter) (bool, bool) {
	if c, ok := sp[p]; ok && c.Kind() == constant.Bool {
		return constant.BoolVal(c), true
	}
	return false, false
}

// exitName names the k-th exit of a function in block order (position-free).
func exitOrdinals(f *ssa.Function) map[ssa.Instruction]int {
	m := map[ssa.Instruction]int{}
	n := 0
	for _, b := range f.Blocks {
		for _, in := range b.Instrs {
			switch in.(type) {
			case *ssa.Return:
				n++
				m[in] = n
			}
		}
	}
	return m
}

// isFuncTyped reports whether t is (or is a named) function type.
func isFuncTyped(t types.Type) bool {
	_, ok := t.Underlying().(*types.Signature)
	return ok
}

// typeName renders a type without package qualification.
func typeName(t types.Type) string {
	return types.TypeString(t, func(*types.Package) string { return "" })
}

// ControlsHook, when set, runs the control battery for a property and returns the kill matrix for the evidence.
var ControlsHook func(id, tier string, seed int64, repo string) interface{}

// apiReachable computes the functions reachable from the public API roots: exported functions of
// package cache, the methods of the cache implementations and the interface methods of the map
// implementations. Closures are reachable from the function that creates them.
func apiReachable(r *Run) map[*ssa.Function]bool {
	reach := map[*ssa.Function]bool{}
	var visit func(f *ssa.Function)
	visit = func(f *ssa.Function) {
		if f == nil || reach[f] {
			return
		}
		if _, lib := r.E.Of[f]; !lib {
			return
		}
		reach[f] = true
		for _, g := range r.E.Out[f] {
			visit(g)
		}
		core.Instrs(f, func(in ssa.Instruction) {
			if mc, ok := in.(*ssa.MakeClosure); ok {
				visit(mc.Fn.(*ssa.Function))
			}
			if c, ok := in.(ssa.CallInstruction); ok {
				if cal := core.Callee(c); cal != nil {
					visit(cal)
				}
				// function values passed as arguments (e.g. the default hasher)
				for _, a := range c.Common().Args {
					if fv, ok := a.(*ssa.Function); ok {
						visit(fv)
					}
				}
			}
		})
	}
	for _, f := range r.P.Funcs {
		if f.Pkg == r.P.Cache && f.Parent() == nil && f.Signature.Recv() == nil && f.Object() != nil && f.Object().Exported() {
			visit(f)
		}
	}
	for i := 0; i < 2; i++ {
		for _, f := range r.M.CacheM[i] {
			visit(f)
		}
	}
	for _, mm := range r.M.Maps {
		for _, n := range []string{"Load", "Store", "LoadOrStore", "LoadAndStore", "LoadOrCompute", "Compute", "LoadAndDelete", "Delete", "Range", "Clear", "Size"} {
			visit(mm.Methods[n])
		}
		// ... and whatever else the public interface of this map (cache.Map / cache.MapOf) lists: a method added to the
		// interface later is API, an exported method of the internal type that the interface does not list is not
		if mm.Iface != "" {
			if obj := r.P.Cache.Pkg.Scope().Lookup(mm.Iface); obj != nil {
				if it, ok := obj.Type().Underlying().(*types.Interface); ok {
					for i := 0; i < it.NumMethods(); i++ {
						name := it.Method(i).Name()
						for _, f := range r.P.Funcs {
							if f.Pkg == r.P.Xsync && f.Parent() == nil && f.Signature.Recv() != nil && f.Name() == name && core.NamedOf(f.Signature.Recv().Type()) == mm.Name {
								visit(f)
							}
						}
					}
				}
			}
		}
	}
	return reach
}

func contains(s []string, x string) bool {
	for _, y := range s {
		if x == y {
			return true
		}
	}
	return false
}

// ExtraArchs lists, per property, build configurations analysed in addition to the host one already in the quick tier.
var ExtraArchs = map[string][]string{"C14": {"386"}, "C11": {"386"}, "C12": {"386"}, "C03": {"386"}, "C16": {"386"}, "C01": {"386"}, "C09": {"386"}}

// borrow copies the non-trivial obligations of another property's rule families into rep under a new
// rule name: a property whose statement rests on premises decided elsewhere restates them, so that its own
// check reports when a premise breaks.
func borrow(rep *core.Report, from *core.Report, newRule string, rulePrefixes ...string) int {
	n := 0
	for _, o := range from.Obs {
		if o.Trivial {
			continue
		}
		ok := len(rulePrefixes) == 0
		for _, p := range rulePrefixes {
			if strings.HasPrefix(o.Rule, p) {
				ok = true
			}
		}
		if !ok {
			continue
		}
		c := *o
		c.Construct = "[" + o.Rule + "] " + o.Construct
		c.Rule = newRule
		rep.Obs = append(rep.Obs, &c)
		n++
	}
	return n
}

// coreCallOf finds the call through which an API wrapper reaches the compute core: directly, or by
// delegating to another method of the same map (Store -> LoadAndStore). The returned call is the one
// into the core; via lists the delegation chain.
func coreCallOf(mm *core.MapModel, w *ssa.Function, depth int) (ssa.CallInstruction, *ssa.Function) {
	if w == nil || depth > 3 {
		return nil, nil
	}
	var direct ssa.CallInstruction
	var next *ssa.Function
	core.Instrs(w, func(in ssa.Instruction) {
		c, ok := in.(ssa.CallInstruction)
		if !ok {
			return
		}
		cal := core.Callee(c)
		if cal == nil {
			return
		}
		if cal == mm.Core {
			direct = c
			return
		}
		if cal != w && cal.Signature.Recv() != nil && core.NamedOf(cal.Signature.Recv().Type()) == mm.Name {
			for _, m := range mm.Methods {
				if m == cal {
					next = cal
				}
			}
		}
	})
	if direct != nil {
		return direct, w
	}
	if next != nil {
		return coreCallOf(mm, next, depth+1)
	}
	return nil, nil
}

// funcOfValue resolves a function-typed argument to the function literal it denotes: a closure, a plain
// function value, or the result of a small closure factory (a helper whose every return is one closure).
func funcOfValue(v ssa.Value, depth int) (*ssa.Function, *ssa.MakeClosure) {
	if depth > 3 {
		return nil, nil
	}
	switch x := core.StripConv(v).(type) {
	case *ssa.MakeClosure:
		f := x.Fn.(*ssa.Function)
		if m := boundMethod(f); m != nil {
			return m, x // method value: the closure is the bound-method wrapper around m
		}
		return f, x
	case *ssa.Function:
		if o := x.Origin(); o != nil {
			return o, nil
		}
		return x, nil
	case *ssa.Call:
		cal := core.Callee(x)
		if cal == nil || cal.Blocks == nil {
			return nil, nil
		}
		var res *ssa.Function
		var mc *ssa.MakeClosure
		n := 0
		core.Instrs(cal, func(in ssa.Instruction) {
			if ret, ok := in.(*ssa.Return); ok && len(ret.Results) == 1 {
				n++
				f, m := funcOfValue(ret.Results[0], depth+1)
				if f != nil && (res == nil || res == f) {
					res, mc = f, m
				} else {
					res = nil
				}
			}
		})
		if n >= 1 {
			return res, mc
		}
	}
	return nil, nil
}

// roleFuncs are the functions the rules treat by identity (never analysed in place).
func roleFuncs(r *Run) map[*ssa.Function]bool {
	out := map[*ssa.Function]bool{}
	for _, mm := range r.M.Maps {
		for _, f := range []*ssa.Function{mm.Core, mm.Resize, mm.Wait, mm.Copy, mm.Append, mm.NewTable, mm.AddSize, mm.AddPlain, mm.SumSize, mm.InProg, mm.NewerTbl, mm.IsEmpty} {
			if f != nil {
				out[f] = true
			}
		}
		for _, n := range mapAPINames {
			if f := mm.Methods[n]; f != nil {
				out[f] = true
			}
		}
		for _, f := range mm.Ctor {
			out[f] = true
		}
	}
	for f := range r.M.Acquire {
		out[f] = true
	}
	for f := range r.M.Release {
		out[f] = true
	}
	for f := range r.M.Wrappers {
		out[f] = true
	}
	return out
}

// helperInline returns the predicate used by the path engines: an in-package helper that is not a role
// function and contains something an automaton can care about (memory writes, atomics, lock operations,
// calls of function values or of role functions) is analysed in place.
func helperInline(r *Run) func(*ssa.Function, ssa.CallInstruction) bool {
	if r.inlineMemo == nil {
		r.inlineMemo = map[*ssa.Function]bool{}
		roles := roleFuncs(r)
		interesting := map[*ssa.Function]bool{}
		for changed := true; changed; {
			changed = false
			for _, f := range r.P.Funcs {
				if interesting[f] || f.Pkg != r.P.Xsync {
					continue
				}
				core.Instrs(f, func(in ssa.Instruction) {
					if interesting[f] {
						return
					}
					switch x := in.(type) {
					case *ssa.Store:
						if _, isAlloc := x.Addr.(*ssa.Alloc); !isAlloc {
							interesting[f] = true
						}
					case ssa.CallInstruction:
						if _, _, ok := core.AtomicOp(x); ok {
							interesting[f] = true
						} else if cal := core.Callee(x); cal == nil && core.IsBuiltinCall(x) == "" {
							interesting[f] = true
						} else if cal != nil && (roles[cal] || interesting[cal]) {
							interesting[f] = true
						}
					}
					if interesting[f] {
						changed = true
					}
				})
			}
		}
		for f, ok := range interesting {
			if ok && !roles[f] && f.Parent() == nil {
				r.inlineMemo[f] = true
			}
		}
	}
	return func(f *ssa.Function, _ ssa.CallInstruction) bool { return r.inlineMemo[f] }
}

// mapFuncs lists the xsync functions that belong to one map implementation: everything statically reachable
// from its API methods (helpers extracted from them included), lock helpers excluded.
func mapFuncs(r *Run, mm *core.MapModel) []*ssa.Function {
	seen := map[*ssa.Function]bool{}
	var out []*ssa.Function
	var visit func(f *ssa.Function)
	visit = func(f *ssa.Function) {
		if f == nil || seen[f] || f.Pkg != r.P.Xsync || f.Blocks == nil || r.M.Acquire[f] || r.M.Release[f] {
			return
		}
		seen[f] = true
		out = append(out, f)
		core.Instrs(f, func(in ssa.Instruction) {
			if c, ok := in.(ssa.CallInstruction); ok {
				visit(core.Callee(c))
			}
			if mc, ok := in.(*ssa.MakeClosure); ok {
				visit(mc.Fn.(*ssa.Function))
			}
		})
	}
	for _, n := range mapAPINames {
		visit(mm.Methods[n])
	}
	sort.Slice(out, func(i, j int) bool { return out[i].Pos() < out[j].Pos() })
	return out
}

var mapAPINames = []string{"Load", "Store", "LoadOrStore", "LoadAndStore", "LoadOrCompute", "Compute", "LoadAndDelete", "Delete", "Range", "Clear", "Size"}

// boundMethod returns the method a compiler-generated bound-method wrapper (the closure behind a method
// value such as x.fn) forwards to, or nil when f is not such a wrapper.
func boundMethod(f *ssa.Function) *ssa.Function {
	if f == nil || !(strings.Contains(f.Synthetic, "bound method wrapper") || strings.Contains(f.Synthetic, "thunk") || strings.Contains(f.Synthetic, "wrapper for")) {
		return nil
	}
	var m *ssa.Function
	core.Instrs(f, func(in ssa.Instruction) {
		if c, ok := in.(ssa.CallInstruction); ok {
			if cal := core.Callee(c); cal != nil && cal.Blocks != nil {
				m = cal
			}
		}
	})
	return m
}

// flagCASIn finds, in f, the instruction whose value is the outcome of the compare-and-swap on the resize flag:
// the atomic CAS itself, or the call of a helper of the embedded bookkeeping struct that returns the CAS result.
func flagCASIn(mm *core.MapModel, f *ssa.Function) ssa.Value {
	var out ssa.Value
	core.Instrs(f, func(in ssa.Instruction) {
		c, ok := in.(*ssa.Call)
		if !ok {
			return
		}
		if op, addr, ok := core.AtomicOp(c); ok && op == "CAS" && mm.IsFlag(core.Addr(addr)) {
			out = c
			return
		}
		if cal := core.Callee(c); cal != nil && cal == mm.FlagCAS && returnsFlagCAS(mm, cal) {
			out = c
		}
	})
	return out
}

func returnsFlagCAS(mm *core.MapModel, g *ssa.Function) bool {
	n, ok := 0, true
	core.Instrs(g, func(in ssa.Instruction) {
		ret, isRet := in.(*ssa.Return)
		if !isRet {
			return
		}
		n++
		if len(ret.Results) != 1 {
			ok = false
			return
		}
		// 'return false' gives the flag up without owning it (after waiting): fine; 'return true' must lie behind the
		// winning edge of the CAS (a step function holding the whole wait-and-retry loop: beginResize)
		if b, isConst := core.ConstBool(ret.Results[0]); isConst {
			if !b {
				return
			}
			won := false
			core.Instrs(g, func(in2 ssa.Instruction) {
				iff, isIf := in2.(*ssa.If)
				if !isIf {
					return
				}
				cond := iff.Cond
				neg := false
				if u, isU := cond.(*ssa.UnOp); isU && u.Op == token.NOT {
					cond, neg = u.X, true
				}
				c, isCall := cond.(*ssa.Call)
				if !isCall {
					return
				}
				if op, addr, isAt := core.AtomicOp(c); !isAt || op != "CAS" || !mm.IsFlag(core.Addr(addr)) {
					return
				}
				edge := 0
				if neg {
					edge = 1
				}
				t := iff.Block().Succs[edge]
				if len(t.Preds) == 1 && (t == ret.Block() || t.Dominates(ret.Block())) {
					won = true
				}
			})
			if !won {
				ok = false
			}
			return
		}
		c, isCall := ret.Results[0].(*ssa.Call)
		if !isCall {
			ok = false
			return
		}
		if op, addr, isAt := core.AtomicOp(c); !isAt || op != "CAS" || !mm.IsFlag(core.Addr(addr)) {
			ok = false
		}
	})
	return ok && n > 0
}

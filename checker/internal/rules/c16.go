package rules

import (
	"fmt"
	"go/token"
	"go/types"
	"strings"

	"cachelint/internal/core"
	"cachelint/internal/sym"

	"golang.org/x/tools/go/ssa"
)

func init() {
	Registry["C16"] = C16
	Metas["C16"] = Meta{
		Explanation: "Decides the structural clauses of C16: (R1) the lookup entry points (Map/MapOf Load, Size and the counter sum, cache Count) have an empty transitive effect set w.r.t. blocking primitives, locks, reads of the resize flag, writes to shared memory, yielding and calls of user functions other than the hasher; (R2) every loop in them is of an accepted non-waiting kind (bounded counted scan, chain walk exiting on nil, SWAR scan, snapshot retry whose back edge needs two atomic loads of one slot to differ, i.e. a step by another goroutine); (R3) in the load-if-exists specialisation of the compute core the lock-free lookup precedes every lock acquire and every call of a function with a blocking effect, its hit edge returns without locking, and the wrappers selecting that mode block nowhere but inside the core - or the get-or-create wrappers make the lock-free attempt themselves: a call of a lock-free reader of the map that dominates the call into the core and whose found edge returns without a lock, a blocking call or the core; (R4) on every evaluated abstract path of Get / GetWithExpiration / GetWithTTL a map operation other than the lock-free Load follows only a Load of the same call that observed an expired entry; (R5) the bucket copy of a resize writes nothing reachable from its source bucket except the lock word. NOT decided: step counts, progress of the snapshot retry against a never-pausing writer (lock-free, not wait-free), cost of user hashers.",
		Rule:        "one obligation per (rule, entry function | loop | call site); non-trivial = verdict depended on an effect set, a loop classification or a dominance query",
		Assumptions: []string{"effects of standard-library callees come from a frozen table (an unknown callee fails)", "hash functions are non-blocking leaves"},
	}
}

func C16(r *Run) *core.Report {
	rep := core.NewReport("C16")
	if !modelOK(r, rep, "C16.R0") {
		return rep
	}
	c16R1R2(r, rep)
	c16R3(r, rep)
	c16R4(r, rep)
	c16R5(r, rep)
	// R6 (32-bit layout only): the 64-bit words the lookups load atomically are 8-byte aligned - a misaligned one makes
	// every lookup fault there (restated from C14.A7)
	if r.P.GOARCH == "386" {
		n6 := borrow(rep, C14(r), "C16.R6", "C14.A7")
		rep.MinCount("C16.R6", "premise obligations (64-bit atomic operands aligned on 386)", n6, 2)
	}
	return rep
}

func readerEntries(r *Run) []*ssa.Function {
	var out []*ssa.Function
	for _, mm := range r.M.Maps {
		out = append(out, mm.Methods["Load"], mm.Methods["Size"], mm.SumSize)
	}
	for i := 0; i < 2; i++ {
		if f := r.M.CacheM[i]["Count"]; f != nil {
			out = append(out, f)
		}
	}
	return out
}

func c16R1R2(r *Run, rep *core.Report) {
	forbidden := []string{core.EffBucketLock, core.EffResizeMu, core.EffCondWait, core.EffChan, core.EffSleep, core.EffWaitGroup, core.EffGosched, core.EffReadsFlag, core.EffWrites, core.EffUnknown, core.EffSpawn}
	nLoops := 0
	for _, f := range readerEntries(r) {
		if f == nil {
			continue
		}
		rep.Fn(fn(f))
		var why []string
		for _, e := range forbidden {
			if w, ok := r.E.Has(f, e); ok {
				why = append(why, e+" via "+w)
			}
		}
		for _, e := range r.E.List(f) {
			if strings.HasPrefix(e, "calls-funcvalue:") && !strings.Contains(e, "hasher") {
				w, _ := r.E.Has(f, e)
				why = append(why, e+" via "+w)
			}
		}
		rep.Check(len(why) == 0, "C16.R1", fn(f)+" effects", r.P.Pos(f.Pos()),
			"no lock, blocking primitive, yield, resize-flag read, shared write or user call reachable", "a lock-free read entry point reaches: "+strings.Join(why, "; "))
		// loops in f and its in-library callees
		seen := map[*ssa.Function]bool{}
		var visit func(g *ssa.Function)
		visit = func(g *ssa.Function) {
			if seen[g] {
				return
			}
			seen[g] = true
			for _, l := range naturalLoops(g) {
				nLoops++
				kind, whyNot := classifyLoop(r, l)
				pos := "-"
				for _, in := range l.Header.Instrs {
					if in.Pos().IsValid() {
						pos = r.P.Pos(in.Pos())
						break
					}
				}
				if pos == "-" {
					for b := range l.Body {
						for _, in := range b.Instrs {
							if in.Pos().IsValid() && pos == "-" {
								pos = r.P.Pos(in.Pos())
							}
						}
					}
				}
				cons := fmt.Sprintf("%s loop@b%d(%s)", fn(g), l.Header.Index, l.Header.Comment)
				rep.Check(kind != "", "C16.R2", cons, pos, "accepted non-waiting loop kind: "+kind, "potentially waiting loop in a lock-free reader: "+whyNot)
			}
			for _, h := range r.E.Out[g] {
				visit(h)
			}
		}
		visit(f)
	}
	rep.MinCount("C16.R2", "loops in lock-free readers", nLoops, 6)
	rep.MinCount("C16.R1", "reader entry points", len(readerEntries(r)), 8)
}

// c16R3: fast path first in the load-if-exists specialisation of the compute core.
func c16R3(r *Run, rep *core.Report) {
	n := 0
	for _, mm := range r.M.Maps {
		f := mm.Core
		for _, sp := range specsFor(r, f) {
			isLoadIf := false
			for p, c := range sp {
				_ = p
				_ = c
			}
			// the load-if-exists parameter is the bool parameter that guards the call to Load
			var loadCall *ssa.Call
			core.Instrs(f, func(in ssa.Instruction) {
				if c, ok := in.(*ssa.Call); ok && core.Callee(c) == mm.Methods["Load"] {
					loadCall = c
				}
			})
			name := fn(f) + sp.String(f)
			if loadCall == nil {
				if hasTrueSpec(sp) {
					// decided below per spec: a specialisation that never reaches Load but has a 'true' mode flag
				}
				continue
			}
			reach := sp.Reachable(f)
			if !reach[loadCall.Block()] {
				continue // this mode has no lock-free attempt (Store, Compute, ...): nothing promised by C16
			}
			isLoadIf = true
			_ = isLoadIf
			n++
			rep.Spec(name)
			// (a) every acquire reachable under sp is preceded by the Load call on every path of this specialisation
			okDom := true
			avoid := reachAvoiding(f, sp, loadCall)
			core.Instrs(f, func(in ssa.Instruction) {
				if !reach[in.Block()] {
					return
				}
				if ev := r.M.LockEventOf(in); ev != nil && ev.Acquire {
					if avoid(in) {
						okDom = false
						rep.Fail("C16.R3", name+" acquire before lookup", r.P.InstrPos(in), "in the load-if-exists mode a lock is taken on a path that has not tried the lock-free lookup first")
					}
					return
				}
				// a callee that can block (waits for a resize, takes a lock, sleeps) before the lookup was tried
				if c, ok := in.(ssa.CallInstruction); ok && in != ssa.Instruction(loadCall) {
					if cal := core.Callee(c); cal != nil && cal != mm.Methods["Load"] {
						for e := range core.Blocking {
							if why, has := r.E.Has(cal, e); has && avoid(in) {
								okDom = false
								rep.Fail("C16.R3", name+" blocking call before lookup", r.P.InstrPos(in), "in the load-if-exists mode "+fn(cal)+" can block ("+e+": "+why+") on a path that has not tried the lock-free lookup first: the hit path of LoadOrStore / LoadOrCompute would wait for a stalled writer or resize")
								break
							}
						}
					}
				}
			})
			// (b) the hit edge returns without locking or blocking
			var okVal ssa.Value
			for _, ref := range *loadCall.Referrers() {
				if ex, ok := ref.(*ssa.Extract); ok && ex.Index == 1 {
					okVal = ex
				}
			}
			hitOK := false
			if okVal != nil {
				for _, ref := range *okVal.Referrers() {
					iff, ok := ref.(*ssa.If)
					if !ok {
						continue
					}
					hit := iff.Block().Succs[0]
					clean := true
					seen := map[*ssa.BasicBlock]bool{}
					var walk func(b *ssa.BasicBlock)
					returns := false
					walk = func(b *ssa.BasicBlock) {
						if seen[b] {
							return
						}
						seen[b] = true
						for _, in := range b.Instrs {
							if r.M.LockEventOf(in) != nil {
								clean = false
							}
							if c, ok := in.(ssa.CallInstruction); ok {
								if cal := core.Callee(c); cal != nil {
									for e := range core.Blocking {
										if _, has := r.E.Has(cal, e); has {
											clean = false
										}
									}
								}
							}
							if _, ok := in.(*ssa.Return); ok {
								returns = true
							}
						}
						for _, s := range sp.Succs(b) {
							walk(s)
						}
					}
					walk(hit)
					hitOK = clean && returns
					if !hitOK {
						rep.Note(fmt.Sprintf("R3 debug %s: clean=%v returns=%v hit=b%d", name, clean, returns, hit.Index))
					}
				}
			}
			rep.Check(okDom && hitOK, "C16.R3", name+" fast path", r.P.InstrPos(loadCall),
				"lock-free lookup precedes every acquire and its hit edge returns without locking",
				"the load-if-exists mode does not return straight from a successful lock-free lookup (hit path takes a lock, blocks, or no lookup result is tested)")
		}
		// at least one specialisation with a true mode flag must have the fast path at all
		hasFast := false
		for _, sp := range specsFor(r, f) {
			core.Instrs(f, func(in ssa.Instruction) {
				if c, ok := in.(*ssa.Call); ok && core.Callee(c) == mm.Methods["Load"] && sp.Reachable(f)[c.Block()] {
					hasFast = true
				}
			})
		}
		// ... or the get-or-create wrappers make the attempt themselves before they enter the core
		wrapperFast := map[string]bool{}
		allWrappers := true
		for _, w := range []string{"LoadOrStore", "LoadOrCompute"} {
			wrapperFast[w] = wrapperFastPath(r, mm, mm.Methods[w])
			if !wrapperFast[w] {
				allWrappers = false
			} else {
				n++
			}
		}
		if allWrappers {
			hasFast = true
		}
		rep.Check(hasFast, "C16.R3", fn(f)+" has a lock-free attempt", r.P.Pos(f.Pos()), "LoadOrStore/LoadOrCompute try the lock-free lookup first", "no specialisation of the compute core performs the lock-free lookup: the hit path of LoadOrStore/LoadOrCompute always locks")
		// and the wrappers that promise it must select that mode: LoadOrStore / LoadOrCompute
		for _, w := range []string{"LoadOrStore", "LoadOrCompute"} {
			wf := mm.Methods[w]
			ok := false
			if c, _ := coreCallOf(mm, wf, 0); c != nil {
				sp := core.Spec{}
				for i, a := range c.Common().Args {
					if k, isC := a.(*ssa.Const); isC && k.Value != nil && i < len(f.Params) {
						sp[f.Params[i]] = k.Value
					}
				}
				core.Instrs(f, func(in2 ssa.Instruction) {
					if c2, isCall := in2.(*ssa.Call); isCall && core.Callee(c2) == mm.Methods["Load"] && sp.Reachable(f)[c2.Block()] {
						ok = true
					}
				})
			}
			if wrapperFast[w] {
				ok = true // the wrapper's own lock-free attempt comes first
			}
			rep.Check(ok, "C16.R3", fn(wf)+" selects the fast-path mode", r.P.Pos(wf.Pos()), "calls the core in a mode that tries the lock-free lookup", "get-or-create wrapper calls the compute core in a mode without the lock-free lookup")
			// the wrapper itself (and any wrapper it delegates to) blocks nowhere but inside the core
			blocked := ""
			for g, d := wf, 0; g != nil && d < 4; d++ {
				var nextG *ssa.Function
				core.Instrs(g, func(in2 ssa.Instruction) {
					c2, isCall := in2.(ssa.CallInstruction)
					if !isCall {
						return
					}
					if ev := r.M.LockEventOf(in2); ev != nil && ev.Acquire && blocked == "" {
						blocked = "takes a lock at " + r.P.InstrPos(in2)
					}
					cal := core.Callee(c2)
					if cal == nil || cal == mm.Core {
						return
					}
					if c3, _ := coreCallOf(mm, cal, 0); c3 != nil {
						nextG = cal
						return
					}
					for e := range core.Blocking {
						if why, has := r.E.Has(cal, e); has && blocked == "" {
							blocked = "calls " + fn(cal) + " at " + r.P.InstrPos(in2) + " which can block (" + e + ": " + why + ")"
						}
					}
				})
				g = nextG
			}
			rep.Check(blocked == "", "C16.R3", fn(wf)+" blocks only inside the core", r.P.Pos(wf.Pos()), "the wrapper reaches the core's lock-free attempt without a blocking step of its own", "the get-or-create wrapper "+blocked+" before the compute core's lock-free lookup: its hit path can wait for a stalled writer or resize")
		}
	}
	rep.MinCount("C16.R3", "load-if-exists specialisations", n, 2)
}

// wrapperFastPath: the wrapper calls a lock-free reader of the map (Load, or a second reader judged by P1) before it
// calls into the compute core, and the found edge of that call returns without taking a lock, blocking or entering the
// core.
func wrapperFastPath(r *Run, mm *core.MapModel, wf *ssa.Function) bool {
	if wf == nil {
		return false
	}
	readers, _ := secondReadersAll(r, mm)
	is := map[*ssa.Function]bool{mm.Methods["Load"]: true}
	for _, g := range readers {
		is[g] = true
	}
	coreCall, _ := coreCallOf(mm, wf, 0)
	if coreCall == nil || coreCall.Parent() != wf {
		return false
	}
	found := false
	core.Instrs(wf, func(in ssa.Instruction) {
		c, ok := in.(*ssa.Call)
		if !ok || !is[core.Callee(c)] || found {
			return
		}
		if !core.Dominates(c, coreCall) {
			return
		}
		for _, b := range wf.Blocks {
			if !onFlagEdge(b, c, true) {
				continue
			}
			clean, returns := true, false
			seen := map[*ssa.BasicBlock]bool{}
			var walk func(x *ssa.BasicBlock)
			walk = func(x *ssa.BasicBlock) {
				if seen[x] {
					return
				}
				seen[x] = true
				for _, in2 := range x.Instrs {
					if r.M.LockEventOf(in2) != nil {
						clean = false
					}
					if c2, isC := in2.(ssa.CallInstruction); isC {
						if cal := core.Callee(c2); cal != nil {
							if cal == mm.Core {
								clean = false
							}
							if cc, _ := coreCallOf(mm, cal, 0); cc != nil {
								clean = false
							}
							for e := range core.Blocking {
								if _, has := r.E.Has(cal, e); has {
									clean = false
								}
							}
						}
					}
					if _, isRet := in2.(*ssa.Return); isRet {
						returns = true
					}
				}
				for _, nx := range x.Succs {
					walk(nx)
				}
			}
			walk(b)
			if clean && returns {
				found = true
			}
		}
	})
	return found
}

func hasTrueSpec(sp core.Spec) bool { return len(sp) > 0 }

// reachAvoiding returns a predicate telling whether an instruction can be reached from the entry of f
// under sp on a path that does not execute `avoid` first.
func reachAvoiding(f *ssa.Function, sp core.Spec, avoid ssa.Instruction) func(ssa.Instruction) bool {
	idx := func(in ssa.Instruction) int {
		for i, x := range in.Block().Instrs {
			if x == in {
				return i
			}
		}
		return -1
	}
	ab, ai := avoid.Block(), idx(avoid)
	seen := map[*ssa.BasicBlock]bool{}
	var walk func(b *ssa.BasicBlock)
	walk = func(b *ssa.BasicBlock) {
		if seen[b] {
			return
		}
		seen[b] = true
		if b == ab {
			return // the path is cut at `avoid`
		}
		for _, s := range sp.Succs(b) {
			walk(s)
		}
	}
	if len(f.Blocks) > 0 {
		walk(f.Blocks[0])
	}
	return func(in ssa.Instruction) bool {
		if !seen[in.Block()] {
			return false
		}
		if in.Block() == ab {
			return idx(in) < ai
		}
		return true
	}
}

// isExpiryTest reports whether v (modulo negation) is a call of a bool method on the cache item type.
func expiryTest(r *Run, v ssa.Value) (call *ssa.Call, neg bool, ok bool) {
	for {
		if u, isU := v.(*ssa.UnOp); isU && u.Op == token.NOT {
			neg = !neg
			v = u.X
			continue
		}
		break
	}
	c, isCall := v.(*ssa.Call)
	if !isCall {
		return nil, false, false
	}
	cal := core.Callee(c)
	if cal == nil || cal.Signature.Recv() == nil {
		return nil, false, false
	}
	rt := cal.Signature.Recv().Type()
	if p, ok := rt.(*types.Pointer); ok {
		rt = p.Elem()
	}
	n, isNamed := rt.(*types.Named)
	if !isNamed || !r.M.IsItemRecv(n.Obj().Name()) {
		return nil, false, false
	}
	if b, isB := cal.Signature.Results().At(0).Type().(*types.Basic); cal.Signature.Results().Len() != 1 || !isB || b.Kind() != types.Bool {
		return nil, false, false
	}
	return c, neg, true
}

func blockReach(from *ssa.BasicBlock) map[*ssa.BasicBlock]bool {
	seen := map[*ssa.BasicBlock]bool{}
	var walk func(b *ssa.BasicBlock)
	walk = func(b *ssa.BasicBlock) {
		if seen[b] {
			return
		}
		seen[b] = true
		for _, s := range b.Succs {
			walk(s)
		}
	}
	walk(from)
	return seen
}

// c16R4: cache read path falls back to a locking map operation only for an expired entry (role evaluation):
// on every abstract path of Get / GetWithExpiration / GetWithTTL an operation of the underlying map other than the
// lock-free Load appears only after a Load of the same call observed an entry that tested expired.
func c16R4(r *Run, rep *core.Report) {
	guarded := 0
	for i := 0; i < 2; i++ {
		for _, name := range []string{"Get", "GetWithExpiration", "GetWithTTL"} {
			mp := methodPaths(r, i, name)
			if undecidedPaths(r, rep, "C16.R0", mp) {
				continue
			}
			rep.Fn(fn(mp.Fn))
			bad := ""
			for pi := range mp.Paths {
				p := &mp.Paths[pi]
				sawExpired := false
				for _, ev := range p.Events {
					if ev.Kind != "mapop" {
						continue
					}
					if ev.Name == "Load" || ev.Name == "Size" {
						if ev.Loaded == 1 && itemStatus(p.PC, sym.Leaf("mapold", fmt.Sprint(ev.N))).Status == "expired" {
							sawExpired = true
						}
						continue
					}
					if sawExpired {
						guarded++
						continue
					}
					if bad == "" {
						bad = fmt.Sprintf("the locking map operation %s at %s is reached on a path where no lock-free Load observed an expired entry (path: %s): a lookup of an absent or live key would wait for writers holding that bucket", ev.Name, ev.Pos, sym.DescribePC(p.PC))
					}
				}
			}
			rep.Check(bad == "", "C16.R4", fn(mp.Fn)+" locks only for an expired entry", r.P.Pos(mp.Fn.Pos()), "locking map operations are confined to paths on which the lock-free Load found an expired entry", bad)
		}
	}
	rep.MinCount("C16.R4", "guarded fall-backs to a locking operation", guarded, 6)
}

// c16R5: the resize copy leaves its source chain intact (readers of the old generation keep working).
func c16R5(r *Run, rep *core.Report) {
	for _, mm := range r.M.Maps {
		f := mm.Copy
		rep.Fn(fn(f))
		var src *ssa.Parameter
		for _, p := range f.Params {
			if isBucketType(r, elemOf(p.Type())) {
				src = p
			}
		}
		if src == nil {
			rep.Undecided("C16.R5", fn(f)+" source parameter", r.P.Pos(f.Pos()), "no bucket-typed parameter")
			continue
		}
		bad := 0
		core.Instrs(f, func(in ssa.Instruction) {
			var addr ssa.Value
			switch x := in.(type) {
			case *ssa.Store:
				addr = x.Addr
			case ssa.CallInstruction:
				if op, a, ok := core.AtomicOp(x); ok && op != "Load" {
					addr = a
				}
			}
			if addr == nil {
				return
			}
			if bucketRoots(r, addr)[src] {
				bad++
				rep.Fail("C16.R5", fn(f)+" writes source bucket", r.P.InstrPos(in), "the resize copy modifies its source chain ("+core.Addr(addr).Key()+"): readers of the old table generation would miss entries before the new table is published")
			}
		})
		if bad == 0 {
			rep.Pass("C16.R5", fn(f)+" source intact", r.P.Pos(f.Pos()), "no store through the source chain except its lock word")
		}
	}
}

package rules

// goldenTables is the reviewed reference: for every public cache method, the abstract state of the key as seen
// by the deciding (last) map operation -> the set of observable outcomes (map effect after normalisation,
// user-function calls with argument roles, callbacks with argument roles, returned roles). It was produced by
// `cachelint tables` on the repaired tree and checked row by row against the TTL-map semantics of C01/C06/C07/C09
// (DESIGN.md C01.T3). Legend: A absent, L0 present/never expires, L+ present/unexpired, E expired;
// mapold = the item the deciding operation observed (mapold.stale: an item observed by an earlier operation); param:aN = the method's N-th parameter (a0 = receiver); opq:Exp(x) = expiration(x) of this call; zero = zero value / false / nil.
var goldenTables = map[string]map[string][]string{
	"Clear": {
		"-": {"clear; return()"},
	},
	"Compute": {
		"A user=false":  {"user a2(zero,zero); store {v=uret:a2.0,e=opq:Exp(param:a3)}; return(uret:a2.0,const:true)"},
		"A user=true":   {"user a2(zero,zero); return(zero,zero)"},
		"E user=false":  {"user a2(zero,zero); store {v=uret:a2.0,e=opq:Exp(param:a3)}; return(uret:a2.0,const:true)"},
		"E user=true":   {"user a2(zero,zero); return(zero,zero)"},
		"L+ user=false": {"user a2(field:v(mapold),const:true); store {v=uret:a2.0,e=opq:Exp(param:a3)}; return(uret:a2.0,const:true)"},
		"L+ user=true":  {"user a2(field:v(mapold),const:true); delete; return(field:v(mapold),zero)"},
		"L0 user=false": {"user a2(field:v(mapold),const:true); store {v=uret:a2.0,e=opq:Exp(param:a3)}; return(uret:a2.0,const:true)"},
		"L0 user=true":  {"user a2(field:v(mapold),const:true); delete; return(field:v(mapold),zero)"},
	},
	"Count": {
		"": {"return(size)"},
	},
	"DefaultExpiration": {
		"": {"return(aload:defaultExpiration)"},
	},
	"Delete": {
		"A":              {"return()"},
		"E cbnil=false":  {"callback(param:a1,field:v(mapold)); return()"},
		"E cbnil=true":   {"return()"},
		"L+ cbnil=false": {"delete; callback(param:a1,field:v(mapold)); return()"},
		"L+ cbnil=true":  {"delete; return()"},
		"L0 cbnil=false": {"delete; callback(param:a1,field:v(mapold)); return()"},
		"L0 cbnil=true":  {"delete; return()"},
	},
	"DeleteExpired": {
		"A":             {"continue=const:true; return()"},
		"E cbnil=false": {"continue=const:true; callback(rangekey,field:v(mapold)); return()"},
		"E cbnil=true":  {"continue=const:true; return()"},
		"L+":            {"continue=const:true; return()"},
		"L0":            {"continue=const:true; return()"},
	},
	"EvictedCallback": {
		"": {"return(aload:evictedCallback)"},
	},
	"Get": {
		"A":  {"return(zero,zero)"},
		"E":  {"return(zero,zero)"},
		"L+": {"return(field:v(mapold),const:true)"},
		"L0": {"return(field:v(mapold),const:true)"},
	},
	"GetAndDelete": {
		"A":              {"return(zero,zero)"},
		"E cbnil=false":  {"callback(param:a1,field:v(mapold)); return(zero,zero)"},
		"E cbnil=true":   {"return(zero,zero)"},
		"L+ cbnil=false": {"delete; callback(param:a1,field:v(mapold)); return(field:v(mapold),const:true)"},
		"L+ cbnil=true":  {"delete; return(field:v(mapold),const:true)"},
		"L0 cbnil=false": {"delete; callback(param:a1,field:v(mapold)); return(field:v(mapold),const:true)"},
		"L0 cbnil=true":  {"delete; return(field:v(mapold),const:true)"},
	},
	"GetAndRefresh": {
		"A":  {"return(zero,zero)"},
		"E":  {"return(zero,zero)"},
		"L+": {"store {v=field:v(mapold),e=opq:Exp(param:a2)}; return(field:v(mapold),const:true)"},
		"L0": {"store {v=field:v(mapold),e=opq:Exp(param:a2)}; return(field:v(mapold),const:true)"},
	},
	"GetAndSet": {
		"A":  {"store {v=param:a2,e=opq:Exp(param:a3)}; return(param:a2,zero)"},
		"E":  {"store {v=param:a2,e=opq:Exp(param:a3)}; return(param:a2,zero)"},
		"L+": {"store {v=param:a2,e=opq:Exp(param:a3)}; return(field:v(mapold),const:true)"},
		"L0": {"store {v=param:a2,e=opq:Exp(param:a3)}; return(field:v(mapold),const:true)"},
	},
	"GetOrCompute": {
		"A":  {"user a2(); store {v=uret:a2.0,e=opq:Exp(param:a3)}; return(uret:a2.0,zero)"},
		"E":  {"user a2(); store {v=uret:a2.0,e=opq:Exp(param:a3)}; return(uret:a2.0,zero)"},
		"L+": {"return(field:v(mapold),const:true)"},
		"L0": {"return(field:v(mapold),const:true)"},
	},
	"GetOrSet": {
		"A":  {"store {v=param:a2,e=opq:Exp(param:a3)}; return(param:a2,zero)"},
		"E":  {"store {v=param:a2,e=opq:Exp(param:a3)}; return(param:a2,zero)"},
		"L+": {"return(field:v(mapold),const:true)"},
		"L0": {"return(field:v(mapold),const:true)"},
	},
	"GetWithExpiration": {
		"A":  {"return(zero,zero,zero)"},
		"E":  {"return(zero,zero,zero)"},
		"L+": {"return(field:v(mapold),unix(zero,field:e(mapold)),const:true)"},
		"L0": {"return(field:v(mapold),zero,const:true)"},
	},
	"GetWithTTL": {
		"A":  {"return(zero,zero,zero)"},
		"E":  {"return(zero,zero,zero)"},
		"L+": {"return(field:v(mapold),until(unix(zero,field:e(mapold))),const:true)"},
		"L0": {"return(field:v(mapold),const:-2000000000,const:true)"},
	},
	"Items": {
		"E":  {"continue=const:true; return(newmap())"},
		"L+": {"items[rangekey]=field:v(mapold); continue=const:true; return(newmap())"},
		"L0": {"items[rangekey]=field:v(mapold); continue=const:true; return(newmap())"},
	},
	"Range": {
		"E nilarg=false":  {"continue=const:true; return()"},
		"L+ nilarg=false": {"user a1(rangekey,field:v(mapold)); continue=uret:a1.0; return()"},
		"L0 nilarg=false": {"user a1(rangekey,field:v(mapold)); continue=uret:a1.0; return()"},
		"nilarg=true":     {"return()"},
	},
	"Set": {
		"-": {"store {v=param:a2,e=opq:Exp(param:a3)}; return()"},
	},
	"SetDefault": {
		"-": {"store {v=param:a2,e=opq:Exp(const:-1000000000)}; return()"},
	},
	"SetDefaultExpiration": {
		"": {"setting defaultExpiration=param:a1; return()"},
	},
	"SetEvictedCallback": {
		"": {"setting evictedCallback=param:a1; return()"},
	},
	"SetForever": {
		"-": {"store {v=param:a2,e=opq:Exp(const:-2000000000)}; return()"},
	},
}

package rules

import (
	"fmt"
	"go/constant"
	"go/token"
	"go/types"
	"sort"
	"strings"

	"cachelint/internal/core"

	"golang.org/x/tools/go/ssa"
)

func init() {
	Registry["C11"] = C11
	Metas["C11"] = Meta{
		Explanation: "Decides the layout-independence clauses of C11: (L1) in the compute core every return is classified by (hit|miss, delete flag, mode) from the user-function call that reaches it, and all returns of a class carry the same result roles and the same map effect, equal to the operation contract (hit+load-if-exists: old value, no change; hit+delete: old value, slot cleared; hit+update: new or old value per mode, slot replaced; miss+delete: zero value, no change; miss+insert: new value, slot filled or bucket linked) - so results cannot depend on which slot-occupancy path (free slot, full chain, new bucket) was taken; wrapper adapters return the documented (value, delete) pair, and every result of a value-returning wrapper is the compute core's result for that call - or 'not found' on the miss edge of a lock-free reader or presence filter of the map, or, in LoadOrStore / LoadOrCompute only, the value on the found edge of a lock-free reader (the operations that replace or remove report what the locked step saw); (L2) every slot loop runs from 0 by 1 to the slot array's length and every chain walk that decides 'absent', copies, collects or tests emptiness continues to the end of the chain, advancing along the link of the bucket it stands on - in particular the lock-free lookup returns 'absent' only on a path whose last chain-link test saw next == nil; (L2b) the bucket layout constants agree with the array types and masks (writer's and reader's view); (L3) bucket index, hash seed and bucket array come from one table value per attempt (in Load, the compute core, the copy and any other method reachable from the API that selects a bucket by a hashed key), the copy rehashes with the destination table, and new table lengths are doublings/halvings of the current length, the minimum length or a power of two, every constructor records the installed table's length as the minimum and a half-length table is created only on paths that established 'length > minimum'; the per-slot masks of the packed top-hash word are disjoint, equally wide and clear of the flag bits for every analysed target; (L4) the clear hint installs a fresh minimum-size table and copies nothing; (L5) the integrity premises of grow / shrink / Clear and of the packed bucket words are restated from C03/C04 (P4, P6, P7, P10); (L6) keys that compare equal hash equal under every seed (hasher rules restated from C10). NOT decided: equivalence with a builtin map over call sequences.",
		Rule:        "one obligation per (rule, specialisation, exit | loop | constant | call site); non-trivial = decided from explored product-graph paths, loop induction analysis or type-level constants",
		Assumptions: []string{"runtime hash functions are deterministic per (key, seed)", "C03/C04 protocol shape"},
	}
}

func C11(r *Run) *core.Report {
	rep := core.NewReport("C11")
	if !modelOK(r, rep, "C11.L0") {
		return rep
	}
	c11L1(r, rep)
	c11L2(r, rep)
	for _, mm := range r.M.Maps {
		p11Absence(r, rep, "C11.L2", mm)
	}
	c11L2b(r, rep)
	c11L3(r, rep)
	c11L4(r, rep)
	// L5: no entry lost, duplicated or resurrected by a grow, a shrink or a Clear - restated premises
	n := borrow(rep, mapProtocol(r, "C03", 0), "C11.L5", "C03.P4", "C03.P6", "C03.P7", "C03.P10", "C03.P12", "C03.P14")
	n += borrow(rep, mapProtocol(r, "C04", 1), "C11.L5", "C04.P4", "C04.P6", "C04.P7", "C04.P10", "C04.P12", "C04.P14")
	rep.MinCount("C11.L5", "premise obligations (resize / Clear integrity, packed-word consistency)", n, 20)
	// L6: keys that compare equal hash equal under every seed (otherwise what a call finds depends on seed and
	// table size) - restated from the hasher rules of C10
	n6 := borrow(rep, C10(r), "C11.L6", "C10.H")
	rep.MinCount("C11.L6", "premise obligations (hash agrees with ==)", n6, 4)
	// L7 (32-bit layout only): the 64-bit words the maps update atomically are 8-byte aligned - otherwise the first
	// grow, shrink or counter update faults there and the contents depend on the platform (restated from C14.A7)
	if r.P.GOARCH == "386" {
		n7 := borrow(rep, C14(r), "C11.L7", "C14.A7")
		rep.MinCount("C11.L7", "premise obligations (64-bit atomic operands aligned on 386)", n7, 2)
	}
	return rep
}

func c11L1(r *Run, rep *core.Report) {
	nExits := 0
	classes := map[string]bool{}
	for _, mm := range r.M.Maps {
		if mm.Core == nil || len(mm.Problems) > 0 {
			continue // this map's model is incomplete: reported by the properties that concern it
		}
		rep.Fn(fn(mm.Core))
		ords := exitOrdinals(mm.Core)
		for _, sp := range specsFor(r, mm.Core) {
			cf := coreFlow(r, mm, sp)
			rep.Spec(cf.Name)
			co, coKnown := modeFlag(mm, sp, 1)
			lie, lieKnown := modeFlag(mm, sp, 0)
			worst := map[*ssa.Return]string{}
			cls := map[*ssa.Return]string{}
			var order []*ssa.Return
			seen := map[*ssa.Return]bool{}
			for _, ex := range cf.Exits {
				if !seen[ex.Ret] {
					seen[ex.Ret] = true
					order = append(order, ex.Ret)
				}
				var class, want0, want1, wantEff string
				eff := "none"
				switch {
				case ex.S.SlotNil:
					eff = "clear"
				case ex.S.SlotSet || ex.S.Linked:
					eff = "fill"
				}
				b := func(x bool) string { return fmt.Sprint(x) }
				switch {
				case !coKnown:
					class = "?"
				case ex.S.Calls == 0:
					class, want0, want1, wantEff = "hit,load-if-exists", "old|fast", b(!co), "none"
				case ex.S.Loaded == 1 && ex.S.Del == 1:
					class, want0, want1, wantEff = "hit,delete", "old", b(!co), "clear"
				case ex.S.Loaded == 1 && ex.S.Del == 0:
					if co {
						class, want0, want1, wantEff = "hit,update", "new", "true", "fill"
					} else {
						class, want0, want1, wantEff = "hit,update", "old", "true", "fill"
					}
				case ex.S.Loaded == 0 && ex.S.Del == 1:
					class, want0, want1, wantEff = "miss,delete", "zero", "false", "none"
				case ex.S.Loaded == 0 && ex.S.Del == 0:
					class, want0, want1, wantEff = "miss,insert", "new", b(co), "fill"
				default:
					class = "unclassified"
				}
				classes[class] = true
				cls[ex.Ret] = class
				msg := ""
				switch {
				case lieKnown && lie && ex.S.Loaded == 1:
					msg = fmt.Sprintf("in the load-if-exists mode a call that finds the key must return the stored value without calling the function or writing (class %s reached): a get-or-create that lost the race overwrites the winner's value", class)
				case class == "?" || class == "unclassified":
					msg = fmt.Sprintf("return cannot be classified (calls=%d loaded=%d del=%d): the result does not follow from a single user-function outcome", ex.S.Calls, ex.S.Loaded, ex.S.Del)
				case !strings.Contains("|"+want0+"|", "|"+ex.Ret0+"|"):
					msg = fmt.Sprintf("class (%s) must return the %s value as first result, this path returns role '%s': the result depends on bucket layout, not on the logical history", class, want0, ex.Ret0)
				case ex.Ret1 != want1:
					msg = fmt.Sprintf("class (%s) must return %s as second result, this path returns %s", class, want1, ex.Ret1)
				case eff != wantEff:
					msg = fmt.Sprintf("class (%s) must have map effect '%s', this path has '%s'", class, wantEff, eff)
				}
				if msg != "" && worst[ex.Ret] == "" {
					worst[ex.Ret] = msg + " | path: " + fmt.Sprint(ex.Trace)
				}
			}
			for _, ret := range order {
				nExits++
				rep.Check(worst[ret] == "", "C11.L1", fmt.Sprintf("%s exit#%d (%s)", cf.Name, ords[ret], cls[ret]), r.P.InstrPos(ret), "result roles and map effect equal the operation contract for this class", worst[ret])
			}
		}
		// wrappers hand back what the locked operation returned: every result of a value-returning wrapper is the
		// corresponding result of its call into the compute core (or of the wrapper it delegates to) - never a value read
		// before the lock was taken (two concurrent callers would both be told they removed / replaced the same entry)
		for _, name := range []string{"LoadOrStore", "LoadAndStore", "LoadOrCompute", "Compute", "LoadAndDelete"} {
			wf := mm.Methods[name]
			if wf == nil || wf.Signature.Results().Len() == 0 {
				continue
			}
			bad := ""
			nRet := 0
			core.Instrs(wf, func(in ssa.Instruction) {
				ret, ok := in.(*ssa.Return)
				if !ok {
					return
				}
				nRet++
				for i, res := range ret.Results {
					v := core.StripConv(res)
					// named results spilled to cells: the value stored last is not tracked - take the direct forms only
					ex, isEx := v.(*ssa.Extract)
					okRes := false
					if isEx && ex.Index == i {
						if call, isCall := ex.Tuple.(*ssa.Call); isCall {
							cal := core.Callee(call)
							if cal == mm.Core {
								okRes = true
							}
							if c2, _ := coreCallOf(mm, cal, 0); c2 != nil && cal != wf {
								okRes = true // delegation to another wrapper
							}
						}
					}
					// a lock-free miss: 'if v, ok := m.Load(key); !ok { return v, false }' - an absent key needs no lock
					if !okRes && isEx {
						if call, isCall := ex.Tuple.(*ssa.Call); isCall && core.Callee(call) == mm.Methods["Load"] && onMissEdge(ret.Block(), call) {
							okRes = true
						}
					}
					if c, isC := v.(*ssa.Const); !okRes && isC {
						if b := ret.Block(); len(b.Preds) == 1 && (missEdgeOfAnyLoad(mm, b) || missEdgeOfAnyReader(r, mm, b)) {
							okRes = true
						}
						_ = c
					}
					// a lock-free hit of a get-or-create: 'if v, ok := m.Load(key); ok { return v, true }' - a present key needs
					// no lock in the load-if-exists operations (the reader itself is judged by P1); not so for the operations
					// that replace or remove, whose result must be what the locked step saw
					if !okRes && (name == "LoadOrStore" || name == "LoadOrCompute") {
						if hitEdgeOfAnyReader(r, mm, ret.Block(), v, i) {
							okRes = true
						}
					}
					if !okRes && bad == "" {
						bad = fmt.Sprintf("result #%d returned at %s is not the compute core's result for this call (it was obtained some other way, e.g. by an earlier lock-free read)", i, r.P.InstrPos(ret))
					}
				}
			})
			if nRet > 0 {
				rep.Check(bad == "", "C11.L1", fn(wf)+" returns the locked operation's results", r.P.Pos(wf.Pos()), "every result is the compute core's result", bad)
			}
		}
		// wrapper adapters: (value, delete) contract
		want := map[string]string{"Store": "arg,false", "LoadAndStore": "arg,false", "LoadOrStore": "arg,false", "LoadOrCompute": "call,false", "LoadAndDelete": "old,true", "Delete": "old,true"}
		for name, w := range want {
			wf := mm.Methods[name]
			c, _ := coreCallOf(mm, wf, 0)
			if c == nil {
				rep.Fail("C11.L1", fn(wf)+" adapter contract", r.P.Pos(wf.Pos()), "wrapper does not reach the compute core")
				continue
			}
			for i, a := range c.Common().Args {
				if i >= len(mm.Core.Params) || !isFuncTyped(mm.Core.Params[i].Type()) {
					continue
				}
				cl, _ := funcOfValue(a, 0)
				if cl == nil {
					rep.Undecided("C11.L1", fn(wf)+" adapter contract", r.P.InstrPos(c.(ssa.Instruction)), "adapter is not a function literal")
					continue
				}
				got := adapterSummary(cl)
				rep.Check(got == w, "C11.L1", fn(wf)+" adapter contract", r.P.Pos(cl.Pos()), "adapter returns ("+w+")", "adapter returns ("+got+"), the operation's contract is ("+w+")")
			}
		}
	}
	rep.MinCount("C11.L1", "explored core exits", nExits, 20)
	rep.MinCount("C11.L1", "distinct return classes", len(classes), 5)
}

// adapterSummary describes what a wrapper's function literal returns: first result role (arg = captured
// outer argument, old = its own first parameter, call = result of calling the captured user function) and
// the constant delete flag.
func adapterSummary(cl *ssa.Function) string {
	res := map[string]bool{}
	// for a method used as a method value the receiver plays the part of the captured variables and the
	// adapter's own parameters start after it
	var recv *ssa.Parameter
	first := 0
	if cl.Signature.Recv() != nil && len(cl.Params) > 0 {
		recv = cl.Params[0]
		first = 1
	}
	captured := func(v ssa.Value) bool {
		switch x := v.(type) {
		case *ssa.FreeVar:
			return true
		case *ssa.UnOp:
			if _, ok := x.X.(*ssa.FreeVar); ok {
				return true
			}
			if recv != nil {
				root := core.Addr(x.X).Root
				if root == ssa.Value(recv) {
					return true
				}
				// value receiver spilled to a local
				if al, isA := root.(*ssa.Alloc); isA {
					if st := uniqueStore(al); st != nil && st.Val == ssa.Value(recv) {
						return true
					}
				}
			}
		case *ssa.Field:
			return recv != nil && x.X == ssa.Value(recv)
		case *ssa.FieldAddr:
			return recv != nil && x.X == ssa.Value(recv)
		}
		return false
	}
	core.Instrs(cl, func(in ssa.Instruction) {
		ret, ok := in.(*ssa.Return)
		if !ok || len(ret.Results) != 2 {
			return
		}
		role := "other"
		switch x := ret.Results[0].(type) {
		case *ssa.Parameter:
			if len(cl.Params) > first && x == cl.Params[first] {
				role = "old"
			}
		case *ssa.Call:
			if core.Callee(x) == nil && captured(x.Call.Value) {
				role = "call"
			} else if core.Callee(x) == nil {
				role = "call"
			}
		default:
			if captured(ret.Results[0]) {
				role = "arg"
			}
		}
		del := "?"
		if b, ok := core.ConstBool(ret.Results[1]); ok {
			del = fmt.Sprint(b)
		}
		res[role+","+del] = true
	})
	var out []string
	for k := range res {
		out = append(out, k)
	}
	sort.Strings(out)
	if len(out) == 1 {
		return out[0]
	}
	return strings.Join(out, "/")
}

// ---- L2: loop coverage ----

func c11L2(r *Run, rep *core.Report) {
	nSlot, nChain := 0, 0
	for _, mm := range r.M.Maps {
		for _, f := range mapFuncs(r, mm) {
			rep.Fn(fn(f))
			for _, l := range naturalLoops(f) {
				// slot loops: an integer induction variable that indexes a bucket array
				for _, in := range l.Header.Instrs {
					phi, ok := in.(*ssa.Phi)
					if !ok || !isIntegral(phi.Type()) {
						continue
					}
					arrLen := int64(-1)
					var site ssa.Instruction
					for b := range l.Body {
						for _, x := range b.Instrs {
							ia, ok := x.(*ssa.IndexAddr)
							if !ok {
								continue
							}
							idx := ia.Index
							if bo, isB := idx.(*ssa.BinOp); isB && bo.X == ssa.Value(phi) {
								idx = phi // range form indexes with i+1 -> handled via induction start -1
								_ = bo
							}
							if idx != ssa.Value(phi) && !(isRangeNext(ia.Index, phi)) {
								continue
							}
							if at, isArr := elemOf(ia.X.Type()).Underlying().(*types.Array); isArr && isBucketOwner(r, core.Addr(ia).Owner) {
								arrLen = at.Len()
								site = x
							}
						}
					}
					if arrLen < 0 {
						continue
					}
					nSlot++
					init, step, okInd := induction(l, phi)
					bound := loopBound(l, phi)
					bk, bIsConst := int64(0), false
					if bound != nil {
						bk, bIsConst = core.ConstInt(bound)
					}
					// indexed form: i from 0 while i < len; range form: i from -1, i+1 < len
					covers := okInd && step == 1 && bIsConst && bk == arrLen && (init == 0 || init == -1)
					if covers && init == -1 {
						covers = usesSuccessorInTest(l, phi)
					}
					cons := fmt.Sprintf("%s slot loop@b%d", fn(f), l.Header.Index)
					rep.Check(covers, "C11.L2", cons, r.P.InstrPos(site), fmt.Sprintf("visits slots 0..%d of the %d-slot array", arrLen-1, arrLen),
						fmt.Sprintf("slot loop does not cover the whole %d-slot array (init=%d step=%d bound=%v): an entry in an unvisited slot is invisible to this operation", arrLen, init, step, boundStr(bound)))
				}
			}
		}
		// chain walks: copy / range collect release the lock only at the end of the chain; isEmpty answers true only there
		chainFns := []*ssa.Function{mm.Copy, mm.Methods["Range"]}
		for _, g := range mapFuncs(r, mm) {
			if g != mm.Core && g != mm.Copy && g != mm.Methods["Range"] && r.M.AcquiresBucketLock(g) {
				chainFns = append(chainFns, g) // helpers extracted from the traversal / copy routines
			}
		}
		for _, f := range chainFns {
			nChain++
			m := &core.Machine[bool]{P: r.P, Fn: f, Spec: core.Spec{}, Inline: helperInlineOrWalk(r)}
			bad := ""
			var badIn ssa.Instruction
			m.Step = func(ctx *core.Ctx[bool], s bool, in ssa.Instruction) []bool {
				if ev := r.M.LockEventOf(in); ev != nil && ev.Class == "bucket" {
					if ev.Acquire {
						return []bool{false}
					}
					if !s {
						bad = "the bucket lock is released (the chain is considered done) on a path that has not reached the end of the chain (next == nil)"
						badIn = in
					}
					return []bool{false}
				}
				return []bool{s}
			}
			m.Edge = chainEndEdge(r)
			m.Run()
			pos := r.P.Pos(f.Pos())
			if badIn != nil {
				pos = r.P.InstrPos(badIn)
			}
			rep.Check(bad == "", "C11.L2", fn(f)+" chain walk", pos, "every bucket of the chain is visited before the chain is released", bad)
		}
		// the bucket-emptiness test that triggers shrink attempts is a heuristic (a wrong answer costs a useless or a
		// missed shrink attempt, resize re-checks the counters): not a rule
	}
	// chain walks advance along the link of the bucket they stand on
	nAdv := 0
	for _, mm := range r.M.Maps {
		for _, f := range mapFuncs(r, mm) {
			core.Instrs(f, func(in ssa.Instruction) {
				phi, ok := in.(*ssa.Phi)
				if !ok || !isBucketType(r, elemOf(phi.Type())) {
					return
				}
				for _, e := range phi.Edges {
					e = core.StripConv(e)
					var addr ssa.Value
					if ld, isLd := e.(*ssa.UnOp); isLd && ld.Op == token.MUL {
						addr = ld.X
					} else if c, isCall := e.(*ssa.Call); isCall {
						if a, isLoad := atomicLoadAddr(c); isLoad {
							addr = a
						}
					}
					if addr == nil {
						continue
					}
					a := core.Addr(addr)
					if !isBucketOwner(r, a.Owner) || a.Field == "" || a.Field[len(a.Field)-1] == ']' {
						continue
					}
					nAdv++
					base := core.StripConv(bucketOfAddr(addr))
					rep.Check(base == ssa.Value(phi), "C11.L2", fmt.Sprintf("%s chain walk b%d advances along its own link", fn(f), phi.Block().Index), r.P.InstrPos(phi),
						"the walk's next bucket is the link of the bucket it stands on",
						"the chain walk's next bucket is read from the link of "+base.Name()+", not of the bucket the walk stands on: on a chain of three or more buckets the walk never gets past the second one (buckets are skipped, or the loop never ends while holding the lock)")
				}
			})
		}
	}
	rep.MinCount("C11.L2", "chain-walk advance steps", nAdv, 6)
	rep.MinCount("C11.L2", "slot loops", nSlot, 4)
	rep.MinCount("C11.L2", "chain walks", nChain, 4)
}

// linkValue: v is the chain link of a bucket just read (a load, atomic or plain, of a link word), possibly
// merged by the loop phi of a 'for ; b != nil; b = next' walk whose other edge is the chain's root.
func linkValue(r *Run, v ssa.Value, depth int) bool {
	v = core.StripConv(v)
	var addr ssa.Value
	if a, isA := atomicLoadAddr(v); isA {
		addr = a
	} else if u, isU := v.(*ssa.UnOp); isU && u.Op == token.MUL {
		addr = u.X
	}
	if addr != nil {
		k, _ := slotKind(r, addr)
		return k == "link"
	}
	if phi, isPhi := v.(*ssa.Phi); isPhi && depth < 2 {
		n := 0
		for _, e := range phi.Edges {
			if linkValue(r, e, depth+1) {
				n++
			}
		}
		return n >= 1 && len(phi.Edges) == 2 // root bucket (non-nil) on entry, link on the back edge
	}
	return false
}

func boundStr(v ssa.Value) string {
	if v == nil {
		return "<none>"
	}
	if c, ok := v.(*ssa.Const); ok {
		return c.String()
	}
	return v.Name()
}

func isRangeNext(idx ssa.Value, phi *ssa.Phi) bool {
	b, ok := idx.(*ssa.BinOp)
	return ok && b.Op == token.ADD && b.X == ssa.Value(phi) && isOne(b.Y)
}

func usesSuccessorInTest(l *Loop, phi *ssa.Phi) bool {
	for b := range l.Body {
		if iff, ok := b.Instrs[len(b.Instrs)-1].(*ssa.If); ok {
			if cmp, ok := iff.Cond.(*ssa.BinOp); ok && (isRangeNext(cmp.X, phi) || isRangeNext(cmp.Y, phi)) {
				return true
			}
		}
	}
	return false
}

// chainEndEdge sets the state on the true edge of a 'link == nil' test and clears it when the walk advances.
func chainEndEdge(r *Run) func(ctx *core.Ctx[bool], s bool, from *ssa.BasicBlock, idx int) (bool, bool) {
	return func(ctx *core.Ctx[bool], s bool, from *ssa.BasicBlock, idx int) (bool, bool) {
		iff, ok := from.Instrs[len(from.Instrs)-1].(*ssa.If)
		if !ok {
			return s, true
		}
		cond := iff.Cond
		neg := false
		for {
			if u, isU := cond.(*ssa.UnOp); isU && u.Op == token.NOT {
				neg = !neg
				cond = u.X
				continue
			}
			break
		}
		b, isB := cond.(*ssa.BinOp)
		if !isB || (b.Op != token.EQL && b.Op != token.NEQ) {
			return s, true
		}
		for _, pair := range [][2]ssa.Value{{b.X, b.Y}, {b.Y, b.X}} {
			if !core.IsNilConst(pair[1]) {
				continue
			}
			if linkValue(r, pair[0], 0) {
				eqOnTrue := (b.Op == token.EQL) != neg
				return (idx == 0) == eqOnTrue, true
			}
		}
		return s, true
	}
}

// ---- L2b: layout constants ----

func c11L2b(r *Run, rep *core.Report) {
	scope := r.P.Xsync.Pkg.Scope()
	constInt := func(name string) (uint64, bool) {
		c, ok := scope.Lookup(name).(*types.Const)
		if !ok {
			return 0, false
		}
		v, ok := constant.Uint64Val(constant.ToInt(c.Val()))
		return v, ok
	}
	for _, mm := range r.M.Maps {
		inner := mm.BucketT[len(mm.BucketT)-1]
		obj := scope.Lookup(inner)
		if obj == nil {
			rep.Undecided("C11.L2b", "bucket type "+inner, "-", "type not found")
			continue
		}
		st := core.StructOf(obj.Type())
		lens := map[int64][]string{}
		for i := 0; i < st.NumFields(); i++ {
			if at, ok := st.Field(i).Type().(*types.Array); ok {
				lens[at.Len()] = append(lens[at.Len()], st.Field(i).Name())
			}
		}
		rep.Check(len(lens) == 1, "C11.L2b", inner+" slot arrays agree", r.P.Pos(obj.Pos()), fmt.Sprintf("all slot arrays have the same length %v", lens), fmt.Sprintf("slot arrays of %s have different lengths %v: a key and its value / entry would be looked for in different slots", inner, lens))
		var n int64
		for k := range lens {
			n = k
		}
		// every integer constant of the package used as a slot-loop bound equals n: covered by L2.
		if mm.LockKind == "spin" {
			// top-hash masks table has one mask per slot
			if v, ok := scope.Lookup("topHashEntryMasks").(*types.Var); ok {
				if at, ok := v.Type().(*types.Array); ok {
					rep.Check(at.Len() == n, "C11.L2b", "topHashEntryMasks length", r.P.Pos(v.Pos()), "one top-hash mask per slot", fmt.Sprintf("%d top-hash masks for %d slots", at.Len(), n))
				}
			}
			c11MaskLayout(r, rep, int(n))
		} else {
			mask, ok1 := constInt("metaMask")
			dm, ok2 := constInt("defaultMeta")
			dmm, ok3 := constInt("defaultMetaMasked")
			es, ok4 := constInt("emptyMetaSlot")
			if !(ok1 && ok2 && ok3 && ok4) {
				rep.Note("C11.L2b: meta constants not all found by name; the reader/writer agreement on the meta word is then covered only by L2 and C04.P10")
				continue
			}
			wantMask := uint64(1)<<(8*uint(n)) - 1
			rep.Check(mask == wantMask, "C11.L2b", "metaMask covers the slot bytes", "-", fmt.Sprintf("metaMask = %#x = 2^(8*%d)-1", mask, n), fmt.Sprintf("metaMask = %#x but %d slots need %#x: the reader ignores or over-reads meta bytes", mask, n, wantMask))
			rep.Check(dmm == dm&mask, "C11.L2b", "defaultMetaMasked = defaultMeta & metaMask", "-", "agrees", fmt.Sprintf("defaultMetaMasked = %#x, defaultMeta&metaMask = %#x", dmm, dm&mask))
			allBytes := true
			for i := uint(0); i < 8; i++ {
				if (dm>>(8*i))&0xff != es {
					allBytes = false
				}
			}
			rep.Check(allBytes, "C11.L2b", "defaultMeta bytes = emptyMetaSlot", "-", "every byte of the empty meta word is the empty-slot marker", fmt.Sprintf("defaultMeta = %#x is not eight copies of emptyMetaSlot = %#x: empty slots would be mis-detected", dm, es))
			rep.Check(es&0x80 != 0 && es&0x7f == 0, "C11.L2b", "emptyMetaSlot outside the 7-bit hash range", "-", "marker cannot collide with a 7-bit bucket-local hash", "the empty-slot marker can equal a stored 7-bit hash")
		}
	}
}

// ---- L3: one table value per attempt; rehash with the destination; table lengths ----

// tableFieldLoads collects the loads of table-struct fields in the backward slice of v (through
// arithmetic, conversions, calls of library helpers and dynamic hasher calls).
func tableFieldLoads(mm *core.MapModel, v ssa.Value, out map[ssa.Value]string, seen map[ssa.Value]bool, depth int) {
	if v == nil || seen[v] || depth > 12 {
		return
	}
	seen[v] = true
	switch x := v.(type) {
	case *ssa.UnOp:
		if x.Op == token.MUL {
			a := core.Addr(x.X)
			if a.Owner == mm.TableT {
				out[core.StripConv(a.Root)] = a.Field
				return
			}
			return
		}
		tableFieldLoads(mm, x.X, out, seen, depth+1)
	case *ssa.BinOp:
		tableFieldLoads(mm, x.X, out, seen, depth+1)
		tableFieldLoads(mm, x.Y, out, seen, depth+1)
	case *ssa.Convert:
		tableFieldLoads(mm, x.X, out, seen, depth+1)
	case *ssa.ChangeType:
		tableFieldLoads(mm, x.X, out, seen, depth+1)
	case *ssa.Call:
		for _, a := range x.Call.Args {
			tableFieldLoads(mm, a, out, seen, depth+1)
		}
	case *ssa.Phi:
		for _, e := range x.Edges {
			tableFieldLoads(mm, e, out, seen, depth+1)
		}
	case *ssa.Parameter:
		// a value the only caller read from the table and handed in (loads hoisted out of the copy loop)
		if a := mm.UniqueArg(x); a != nil {
			tableFieldLoads(mm, a, out, seen, depth+1)
		}
	case *ssa.Slice:
		tableFieldLoads(mm, x.X, out, seen, depth+1) // a sub-range of the bucket array
	}
}

func c11L3(r *Run, rep *core.Report) {
	n := 0
	for _, mm := range r.M.Maps {
		sel, extra := rootSelectors(r, mm)
		for _, f := range sel {
			if f == nil {
				continue // incomplete model of this map: reported by the properties that concern it
			}
			rep.Fn(fn(f))
			core.Instrs(f, func(in ssa.Instruction) {
				ia, ok := in.(*ssa.IndexAddr)
				if !ok || !isBucketType(r, elemOf(ia.Type())) {
					return
				}
				if _, isSlice := ia.X.Type().Underlying().(*types.Slice); !isSlice {
					return
				}
				if extra[f] && hashCallOf(ia.Index) == nil {
					return // a bucket picked by position (a scan), not by key
				}
				n++
				roots := map[ssa.Value]string{}
				tableFieldLoads(mm, ia.X, roots, map[ssa.Value]bool{}, 0)
				base := len(roots)
				tableFieldLoads(mm, ia.Index, roots, map[ssa.Value]bool{}, 0)
				cons := fmt.Sprintf("%s root bucket selection", fn(f))
				var names []string
				for v := range roots {
					names = append(names, v.Name())
				}
				okOne := len(roots) == 1 && base == 1
				// in the copy routine the single table must be the destination parameter
				if okOne && f == mm.Copy {
					for v := range roots {
						if _, isParam := v.(*ssa.Parameter); !isParam && !freshTableValue(mm, v, 0) {
							// (with the loads hoisted into the caller the table is the caller's: it must be the new one)
							okOne = false
						}
					}
				}
				// the index must actually depend on the seed and on the bucket count of that table
				idxRoots := map[ssa.Value]string{}
				collectFields(mm, ia.Index, idxRoots)
				hasSeed, hasLen := false, false
				for _, fld := range idxRoots {
					if fld == "seed" {
						hasSeed = true
					}
				}
				fields := fieldSet(mm, ia.Index)
				for fld, t := range fields {
					_ = t
					if fld != "" {
						if isSliceField(r, mm, fld) {
							hasLen = true
						} else {
							hasSeed = true
						}
					}
				}
				rep.Check(okOne && hasSeed && hasLen, "C11.L3", cons, r.P.InstrPos(in),
					"bucket array, mask and hash seed come from one table value",
					fmt.Sprintf("the root bucket is selected with values from %d table value(s) %v (seed used: %v, bucket count used: %v): hash seed, mask and bucket array must come from the same table (for the copy: the destination table), otherwise a key is filed under a bucket where lookups do not search", len(roots), names, hasSeed, hasLen))
			})
		}
		// table lengths
		for _, f := range r.P.Funcs {
			core.Instrs(f, func(in ssa.Instruction) {
				c, ok := in.(*ssa.Call)
				if !ok || core.Callee(c) != mm.NewTable {
					return
				}
				arg := core.StripConv(c.Call.Args[0])
				desc, okLen := tableLenForm(r, mm, arg)
				rep.Check(okLen, "C11.L3", fmt.Sprintf("%s table length", fn(f)), r.P.InstrPos(in), "new table length is "+desc, "new table length ("+desc+") is not a doubling/halving of the current length, the minimum length or a power of two: the mask len-1 would not select buckets uniformly / validly")
			})
		}
	}
	rep.MinCount("C11.L3", "root bucket selections", n, 6)
	c11Floor(r, rep)
}

// c11Floor: the table never becomes shorter than the recorded minimum, and that minimum is real. (a) every
// constructor stores into the map's minimum-length field the length of the table it installs (a forgotten store
// leaves 0: Clear then installs a zero-length table and the next operation indexes out of range); (b) in resize a
// table of half the current length is created only on paths that established 'current length > minimum' - with a
// weaker guard (>=, or an alternative that by-passes it) repeated shrinks halve the table down to length 0.
func c11Floor(r *Run, rep *core.Report) {
	for _, mm := range r.M.Maps {
		rz := mm.Resize
		if rz == nil {
			continue
		}
		// the minimum-length field: the int field of the map struct whose load sizes a new table or bounds the shrink
		minF := ""
		core.Instrs(rz, func(in ssa.Instruction) {
			c, ok := in.(*ssa.Call)
			if !ok || core.Callee(c) != mm.NewTable || len(c.Call.Args) != 1 {
				return
			}
			if ld, isLd := core.StripConv(c.Call.Args[0]).(*ssa.UnOp); isLd && ld.Op == token.MUL {
				if a := core.Addr(ld.X); a.Owner == mm.Name {
					minF = a.Field
				}
			}
		})
		if minF == "" {
			rep.Note("C11.L3: " + mm.Name + ": no minimum-length field found (resize never sizes a table from the map header); floor rules not evaluated")
			continue
		}
		// (a) constructors
		for _, ctor := range mm.Ctor {
			okStore := false
			why := "the constructor never stores the field"
			core.Instrs(ctor, func(in ssa.Instruction) {
				st, ok := in.(*ssa.Store)
				if !ok {
					return
				}
				if a := core.Addr(st.Addr); a.Owner != mm.Name || a.Field != minF {
					return
				}
				v := core.StripConv(st.Val)
				// len(table.buckets) of a table built here, or the value the table was built with
				if c, isCall := v.(*ssa.Call); isCall && core.IsBuiltinCall(c) == "len" {
					if ld, isLd := c.Call.Args[0].(*ssa.UnOp); isLd && core.Addr(ld.X).Owner == mm.TableT {
						okStore = true
						return
					}
				}
				used := false
				core.Instrs(ctor, func(in2 ssa.Instruction) {
					if c2, isCall := in2.(*ssa.Call); isCall && core.Callee(c2) == mm.NewTable && len(c2.Call.Args) == 1 && core.StripConv(c2.Call.Args[0]) == v {
						used = true
					}
				})
				if used {
					okStore = true
					return
				}
				why = "the value stored is not the length of the table the constructor installs"
			})
			rep.Check(okStore, "C11.L3", fn(ctor)+" records the minimum table length", r.P.Pos(ctor.Pos()), "the constructor stores the installed table's length into "+mm.Name+"."+minF,
				"the minimum table length ("+mm.Name+"."+minF+") is not recorded: "+why+"; it stays 0, Clear and shrink then install ever smaller tables down to length 0, and the next operation indexes an empty bucket array")
		}
		// (b) halving only above the floor
		type fl struct{ Above bool }
		isMinLoad := func(v ssa.Value) bool {
			ld, ok := core.StripConv(v).(*ssa.UnOp)
			if !ok || ld.Op != token.MUL {
				return false
			}
			a := core.Addr(ld.X)
			return a.Owner == mm.Name && a.Field == minF
		}
		for _, sp := range specsFor(r, rz) {
			m := &core.Machine[fl]{P: r.P, Fn: rz, Spec: sp, Inline: helperInline(r)}
			bad := ""
			var badIn ssa.Instruction
			nHalf := 0
			m.Step = func(ctx *core.Ctx[fl], s fl, in ssa.Instruction) []fl {
				c, ok := in.(*ssa.Call)
				if !ok || core.Callee(c) != mm.NewTable || len(c.Call.Args) != 1 {
					return []fl{s}
				}
				if b, isB := core.StripConv(c.Call.Args[0]).(*ssa.BinOp); isB {
					k, isK := core.ConstInt(b.Y)
					if isK && ((b.Op == token.SHR && k == 1) || (b.Op == token.QUO && k == 2)) {
						nHalf++
						if !s.Above && bad == "" {
							bad = "a table of half the current length is created on a path that has not established 'current length > recorded minimum': the table can be halved below its floor, down to length 0"
							badIn = in
						}
					}
				}
				return []fl{s}
			}
			m.Edge = func(ctx *core.Ctx[fl], s fl, from *ssa.BasicBlock, idx int) (fl, bool) {
				iff, ok := from.Instrs[len(from.Instrs)-1].(*ssa.If)
				if !ok {
					return s, true
				}
				cond := iff.Cond
				neg := false
				for {
					if u, isU := cond.(*ssa.UnOp); isU && u.Op == token.NOT {
						neg = !neg
						cond = u.X
						continue
					}
					break
				}
				b, isB := cond.(*ssa.BinOp)
				if !isB {
					return s, true
				}
				// len > min (true edge), min < len (true edge), len <= min (false edge), min >= len (false edge)
				var aboveOnTrue, known bool
				switch {
				case isMinLoad(b.Y) && !isMinLoad(b.X):
					switch b.Op {
					case token.GTR:
						aboveOnTrue, known = true, true
					case token.LEQ:
						aboveOnTrue, known = false, true
					}
				case isMinLoad(b.X) && !isMinLoad(b.Y):
					switch b.Op {
					case token.LSS:
						aboveOnTrue, known = true, true
					case token.GEQ:
						aboveOnTrue, known = false, true
					}
				}
				if known {
					if neg {
						aboveOnTrue = !aboveOnTrue
					}
					if (idx == 0) == aboveOnTrue {
						s.Above = true
					}
				}
				return s, true
			}
			m.Run()
			if nHalf == 0 {
				continue
			}
			pos := r.P.Pos(rz.Pos())
			if badIn != nil {
				pos = r.P.InstrPos(badIn)
			}
			rep.Check(bad == "", "C11.L3", fn(rz)+sp.String(rz)+" shrinks only above the floor", pos, "the halved table is created only after 'current length > minimum' held", bad)
		}
	}
}

// freshTableValue: the table value is, on every alternative, the result of the table constructor.
func freshTableValue(mm *core.MapModel, v ssa.Value, depth int) bool {
	if depth > 4 {
		return false
	}
	switch x := core.StripConv(v).(type) {
	case *ssa.Call:
		return core.Callee(x) == mm.NewTable
	case *ssa.Phi:
		n := 0
		for _, e := range x.Edges {
			if core.IsNilConst(e) {
				continue
			}
			if !freshTableValue(mm, e, depth+1) {
				return false
			}
			n++
		}
		return n > 0
	}
	return false
}

func collectFields(mm *core.MapModel, v ssa.Value, out map[ssa.Value]string) {
	tableFieldLoads(mm, v, out, map[ssa.Value]bool{}, 0)
}

// fieldSet returns the set of table field names loaded in the backward slice of v.
func fieldSet(mm *core.MapModel, v ssa.Value) map[string]bool {
	out := map[string]bool{}
	seen := map[ssa.Value]bool{}
	var walk func(v ssa.Value, d int)
	walk = func(v ssa.Value, d int) {
		if v == nil || seen[v] || d > 12 {
			return
		}
		seen[v] = true
		switch x := v.(type) {
		case *ssa.UnOp:
			if x.Op == token.MUL {
				if a := core.Addr(x.X); a.Owner == mm.TableT {
					out[a.Field] = true
				}
				return
			}
			walk(x.X, d+1)
		case *ssa.BinOp:
			walk(x.X, d+1)
			walk(x.Y, d+1)
		case *ssa.Convert:
			walk(x.X, d+1)
		case *ssa.Call:
			for _, a := range x.Call.Args {
				walk(a, d+1)
			}
		case *ssa.Phi:
			for _, e := range x.Edges {
				walk(e, d+1)
			}
		case *ssa.Parameter:
			if a := mm.UniqueArg(x); a != nil {
				walk(a, d+1)
			}
		case *ssa.Slice:
			walk(x.X, d+1)
		}
	}
	walk(v, 0)
	return out
}

func isSliceField(r *Run, mm *core.MapModel, fld string) bool {
	obj := r.P.Xsync.Pkg.Scope().Lookup(mm.TableT)
	if obj == nil {
		return false
	}
	st := core.StructOf(obj.Type())
	for i := 0; i < st.NumFields(); i++ {
		if st.Field(i).Name() == fld {
			_, ok := st.Field(i).Type().Underlying().(*types.Slice)
			return ok
		}
	}
	return false
}

func tableLenForm(r *Run, mm *core.MapModel, v ssa.Value) (string, bool) {
	isLenOfBuckets := func(x ssa.Value) bool {
		c, ok := core.StripConv(x).(*ssa.Call)
		if !ok || core.IsBuiltinCall(c) != "len" {
			return false
		}
		ld, ok := c.Call.Args[0].(*ssa.UnOp)
		return ok && core.Addr(ld.X).Owner == mm.TableT
	}
	switch x := v.(type) {
	case *ssa.Const:
		k, ok := core.ConstInt(x)
		return fmt.Sprintf("constant %d", k), ok && k > 0 && k&(k-1) == 0
	case *ssa.BinOp:
		k, isC := core.ConstInt(x.Y)
		if kx, isCx := core.ConstInt(x.X); isCx && !isC {
			switch {
			case x.Op == token.MUL && kx >= 2 && kx&(kx-1) == 0 && isLenOfBuckets(x.Y):
				return fmt.Sprintf("current length times %d", kx), true
			case x.Op == token.SHL && kx >= 1 && kx&(kx-1) == 0:
				// 2^a << n is a power of two for every n that does not shift the bit out
				return fmt.Sprintf("constant %d shifted left", kx), true
			}
		}
		if isLenOfBuckets(x.X) && isC {
			switch {
			case x.Op == token.SHR && k == 1, x.Op == token.QUO && k == 2:
				return "half the current length", true
			case x.Op == token.SHL && k >= 1 && k <= 8:
				return fmt.Sprintf("current length shifted left by %d", k), true
			case x.Op == token.MUL && k >= 2 && k&(k-1) == 0:
				return fmt.Sprintf("current length times %d", k), true
			}
		}
		return "arithmetic " + x.Op.String(), false
	case *ssa.UnOp:
		if x.Op == token.MUL {
			a := core.Addr(x.X)
			if a.Owner == mm.Name {
				// the recorded minimum length: set once in the constructor from len(table.buckets)
				return "the map's recorded minimum length (" + a.Field + ")", true
			}
		}
	case *ssa.Call:
		cal := core.Callee(x)
		if cal != nil && isPowOf2Helper(cal) {
			return "result of the power-of-two rounding " + fn(cal), true
		}
		// a sizing helper: every value it returns is itself of an accepted form
		if cal != nil && cal.Blocks != nil && cal.Pkg == r.P.Xsync {
			okAll, n := true, 0
			desc := ""
			core.Instrs(cal, func(in ssa.Instruction) {
				ret, isRet := in.(*ssa.Return)
				if !isRet || len(ret.Results) != 1 {
					return
				}
				n++
				d, ok := tableLenForm(r, mm, core.StripConv(ret.Results[0]))
				if !ok {
					okAll = false
				}
				desc += d + "; "
			})
			if n > 0 {
				return "result of " + fn(cal) + " (" + strings.TrimSuffix(desc, "; ") + ")", okAll
			}
		}
	case *ssa.Extract:
		// one result of a sizing helper that returns several (new length, ok)
		if call, isCall := x.Tuple.(*ssa.Call); isCall {
			if cal := core.Callee(call); cal != nil && cal.Blocks != nil && cal.Pkg == r.P.Xsync {
				okAll, n := true, 0
				desc := ""
				core.Instrs(cal, func(in ssa.Instruction) {
					ret, isRet := in.(*ssa.Return)
					if !isRet || x.Index >= len(ret.Results) {
						return
					}
					// a give-up return (constant 0 together with a false flag) never sizes a table
					if k, isK := core.ConstInt(ret.Results[x.Index]); isK && k == 0 {
						return
					}
					n++
					d, ok := tableLenForm(r, mm, core.StripConv(ret.Results[x.Index]))
					if !ok {
						okAll = false
					}
					desc += d + "; "
				})
				if n > 0 {
					return "result of " + fn(cal) + " (" + strings.TrimSuffix(desc, "; ") + ")", okAll
				}
			}
		}
	case *ssa.Parameter:
		return "parameter", true
	case *ssa.Phi:
		// a length chosen by assignment (n := minLen; if big { n = nextPowOf2(...) }): every alternative is of an accepted form
		var ds []string
		for _, e := range x.Edges {
			if core.StripConv(e) == ssa.Value(x) {
				continue
			}
			d, ok := tableLenForm(r, mm, core.StripConv(e))
			if !ok {
				return d, false
			}
			ds = append(ds, d)
		}
		return "one of: " + strings.Join(ds, "; "), len(ds) > 0
	}
	return v.Name(), false
}

// isPowOf2Helper recognises the classic round-up-to-a-power-of-two bit trick by its shape: one integer in, one
// integer out, an or-shift cascade over 1, 2, 4, 8, 16 between a decrement and an increment.
func isPowOf2Helper(f *ssa.Function) bool {
	if f == nil || f.Blocks == nil || len(f.Params) != 1 || f.Signature.Results().Len() != 1 {
		return false
	}
	shifts := map[int64]bool{}
	ors, inc, dec := 0, false, false
	core.Instrs(f, func(in ssa.Instruction) {
		b, ok := in.(*ssa.BinOp)
		if !ok {
			return
		}
		k, isK := core.ConstInt(b.Y)
		switch b.Op {
		case token.SHR:
			if isK {
				shifts[k] = true
			}
		case token.OR:
			ors++
		case token.ADD:
			if isK && k == 1 {
				inc = true
			}
		case token.SUB:
			if isK && k == 1 {
				dec = true
			}
		}
	})
	if ors >= 5 && inc && dec && shifts[1] && shifts[2] && shifts[4] && shifts[8] && shifts[16] {
		return true
	}
	// loop form: for s := 1; s <= 16 (or < 32); s <<= 1 { v |= v >> s }
	loopOK := false
	core.Instrs(f, func(in ssa.Instruction) {
		phi, ok := in.(*ssa.Phi)
		if !ok || !isIntegral(phi.Type()) {
			return
		}
		startsAt1, doubles := false, false
		for _, e := range phi.Edges {
			if k, isK := core.ConstInt(e); isK && k == 1 {
				startsAt1 = true
			}
			if b, isB := e.(*ssa.BinOp); isB {
				k, isK := core.ConstInt(b.Y)
				if b.X == ssa.Value(phi) && isK && ((b.Op == token.SHL && k == 1) || (b.Op == token.MUL && k == 2)) {
					doubles = true
				}
				if b.Op == token.ADD && b.X == ssa.Value(phi) && b.Y == ssa.Value(phi) {
					doubles = true
				}
			}
		}
		if !startsAt1 || !doubles {
			return
		}
		shiftsByPhi, bounded := false, false
		for _, ref := range *phi.Referrers() {
			b, isB := ref.(*ssa.BinOp)
			if !isB {
				continue
			}
			if b.Op == token.SHR && b.Y == ssa.Value(phi) {
				for _, r2 := range *b.Referrers() {
					if o, isO := r2.(*ssa.BinOp); isO && o.Op == token.OR {
						shiftsByPhi = true
					}
				}
			}
			if k, isK := core.ConstInt(b.Y); isK && b.X == ssa.Value(phi) {
				if (b.Op == token.LEQ && k >= 16 && k < 32) || (b.Op == token.LSS && k > 16 && k <= 32) {
					bounded = true
				}
			}
		}
		if shiftsByPhi && bounded {
			loopOK = true
		}
	})
	return loopOK && dec && inc
}

// ---- L4: clear installs a fresh minimum-size table ----

func c11L4(r *Run, rep *core.Report) {
	for _, mm := range r.M.Maps {
		sp, ok := hintSpecOf(r, mm, "Clear")
		if !ok {
			rep.Undecided("C11.L4", fn(mm.Resize)+" clear hint", r.P.Pos(mm.Resize.Pos()), "Clear does not pass a constant hint to resize")
			continue
		}
		rz := mm.Resize
		rep.Spec(fn(rz) + sp.String(rz))
		nNew := 0
		okMin := true
		// the table may be built in resize itself or in a sizing helper it calls with the hint: follow in-package
		// callees with the specialisation the arguments give them
		var scan func(f *ssa.Function, fsp core.Spec, depth int)
		scan = func(f *ssa.Function, fsp core.Spec, depth int) {
			reach := fsp.Reachable(f)
			core.Instrs(f, func(in ssa.Instruction) {
				if !reach[in.Block()] {
					return
				}
				c, isCall := in.(*ssa.Call)
				if !isCall {
					return
				}
				cal := core.Callee(c)
				if cal == mm.NewTable {
					nNew++
					arg := resolveUnderSpec(fsp, core.StripConv(c.Call.Args[0]))
					ld, isLd := core.StripConv(arg).(*ssa.UnOp)
					if !isLd || core.Addr(ld.X).Owner != mm.Name {
						okMin = false
					}
					return
				}
				if cal != nil && cal.Pkg == r.P.Xsync && cal.Blocks != nil && depth < 2 && cal != mm.Copy && cal != mm.Wait && !r.M.Acquire[cal] && !r.M.Release[cal] {
					if csp := fsp.SpecFor(c, cal); len(csp) > 0 {
						scan(cal, csp, depth+1)
					}
				}
			})
		}
		scan(rz, sp, 0)
		rep.Check(nNew == 1 && okMin, "C11.L4", fn(rz)+sp.String(rz)+" fresh minimum table", r.P.Pos(rz.Pos()), "Clear builds exactly one fresh table of the recorded minimum length", "under the clear hint resize does not build exactly one fresh table of the map's minimum length: the contents after Clear would depend on history")
	}
}

// c11MaskLayout evaluates the package initialiser of the map package for the analysed target (constant stores,
// shifts and masks of package-level variables) and checks the bit layout of the packed top-hash word: one mask per
// slot, all of one width, pairwise disjoint, clear of the lock / presence bits at the bottom of the word, and
// mask[i] = mask[0] >> (width*i) - the relation the match / store / erase helpers rely on. The values depend on the
// target (unsafe.Sizeof in an initialiser), so this runs on every configuration that is loaded.
func c11MaskLayout(r *Run, rep *core.Report, nSlots int) {
	var init *ssa.Function
	for _, f := range r.P.Funcs {
		if f.Pkg == r.P.Xsync && f.Name() == "init" && f.Parent() == nil && f.Signature.Recv() == nil && f.Synthetic != "" {
			init = f
		}
	}
	if init == nil {
		if m := r.P.Xsync.Members["init"]; m != nil {
			init, _ = m.(*ssa.Function)
		}
	}
	if init == nil || init.Blocks == nil {
		rep.Note("C11.L2b: package initialiser of the map package not found; mask layout not evaluated")
		return
	}
	scal := map[ssa.Value]constant.Value{}
	glob := map[*ssa.Global]constant.Value{}
	arr := map[ssa.Value][]constant.Value{}    // local arrays
	garr := map[*ssa.Global][]constant.Value{} // global arrays
	elem := map[ssa.Value]struct {
		base ssa.Value
		idx  int
	}{}
	var eval func(v ssa.Value) constant.Value
	eval = func(v ssa.Value) constant.Value {
		if c, ok := v.(*ssa.Const); ok {
			if c.Value != nil && c.Value.Kind() == constant.Int {
				return c.Value
			}
			return nil
		}
		return scal[v]
	}
	for _, b := range init.Blocks {
		for _, in := range b.Instrs {
			switch x := in.(type) {
			case *ssa.Alloc:
				if at, ok := x.Type().Underlying().(*types.Pointer).Elem().Underlying().(*types.Array); ok {
					arr[x] = make([]constant.Value, at.Len())
				}
			case *ssa.IndexAddr:
				if k, ok := core.ConstInt(x.Index); ok {
					elem[x] = struct {
						base ssa.Value
						idx  int
					}{x.X, int(k)}
				}
			case *ssa.UnOp:
				if x.Op != token.MUL {
					continue
				}
				if g, ok := x.X.(*ssa.Global); ok {
					if c := glob[g]; c != nil {
						scal[x] = c
					}
					continue
				}
				if a, ok := arr[x.X]; ok {
					arr[x] = a // whole-array load
				}
			case *ssa.BinOp:
				a, c := eval(x.X), eval(x.Y)
				if a == nil || c == nil {
					continue
				}
				switch x.Op {
				case token.SHL, token.SHR:
					if sh, ok := constant.Uint64Val(c); ok && sh < 128 {
						v := constant.Shift(a, x.Op, uint(sh))
						if x.Op == token.SHL {
							// keep to the width of the result type
							if bt, ok := x.Type().Underlying().(*types.Basic); ok {
								w := r.P.Sizes().Sizeof(bt) * 8
								if w > 0 && w <= 64 {
									m := constant.BinaryOp(constant.Shift(constant.MakeInt64(1), token.SHL, uint(w)), token.SUB, constant.MakeInt64(1))
									v = constant.BinaryOp(v, token.AND, m)
								}
							}
						}
						scal[x] = v
					}
				case token.AND, token.OR, token.XOR, token.AND_NOT, token.ADD, token.SUB, token.MUL:
					scal[x] = constant.BinaryOp(a, x.Op, c)
				}
			case *ssa.Convert:
				if c := eval(x.X); c != nil {
					scal[x] = c
				}
			case *ssa.Store:
				if g, ok := x.Addr.(*ssa.Global); ok {
					if c := eval(x.Val); c != nil {
						glob[g] = c
					} else if a, ok := arr[x.Val]; ok {
						garr[g] = append([]constant.Value(nil), a...)
					}
					continue
				}
				if e, ok := elem[x.Addr]; ok {
					if a, ok := arr[e.base]; ok && e.idx < len(a) {
						a[e.idx] = eval(x.Val)
					}
					// element of a package-level array initialised in place
					if g, isG := e.base.(*ssa.Global); isG {
						if at, ok := g.Type().Underlying().(*types.Pointer).Elem().Underlying().(*types.Array); ok {
							if garr[g] == nil {
								garr[g] = make([]constant.Value, at.Len())
							}
							if e.idx < len(garr[g]) {
								garr[g][e.idx] = eval(x.Val)
							}
						}
					}
				}
			}
		}
	}
	n := 0
	for g, masks := range garr {
		if len(masks) != nSlots {
			continue
		}
		bt, ok := g.Type().Underlying().(*types.Pointer).Elem().Underlying().(*types.Array).Elem().Underlying().(*types.Basic)
		if !ok || bt.Kind() != types.Uint64 {
			continue
		}
		var ms []uint64
		okAll := true
		for _, c := range masks {
			if c == nil {
				okAll = false
				break
			}
			u, exact := constant.Uint64Val(c)
			if !exact {
				okAll = false
				break
			}
			ms = append(ms, u)
		}
		cons := "bit layout of " + g.Name() + archSuffix(r)
		if !okAll {
			rep.Note("C11.L2b: initial value of " + g.Name() + " is not a compile-time constant; mask layout not evaluated")
			continue
		}
		n++
		width := bitsOn(ms[0])
		low := uint64(1)<<uint(nSlots+1) - 1
		bad := ""
		var union uint64
		for i, m := range ms {
			switch {
			case bitsOn(m) != width || width == 0:
				bad = fmt.Sprintf("mask %d (%#x) has %d bits, mask 0 has %d: the slots' top hashes have different widths", i, m, bitsOn(m), width)
			case union&m != 0:
				bad = fmt.Sprintf("mask %d (%#x) overlaps an earlier slot's mask: storing one slot's top hash corrupts another's", i, m)
			case m&low != 0:
				bad = fmt.Sprintf("mask %d (%#x) overlaps the lock / presence bits %#x at the bottom of the word", i, m, low)
			case m != ms[0]>>(uint(width)*uint(i)):
				bad = fmt.Sprintf("mask %d (%#x) is not mask 0 (%#x) shifted right by %d: the match / store helpers shift by that amount", i, m, ms[0], width*i)
			}
			union |= m
			if bad != "" {
				break
			}
		}
		rep.Check(bad == "", "C11.L2b", cons, r.P.Pos(g.Pos()), fmt.Sprintf("%d disjoint %d-bit masks above the flag bits: %#x", len(ms), width, ms), bad)
	}
	if n == 0 {
		rep.Note("C11.L2b: no per-slot mask table found in the map package's initialiser")
	}
}

func bitsOn(x uint64) int {
	n := 0
	for ; x != 0; x &= x - 1 {
		n++
	}
	return n
}

func archSuffix(r *Run) string {
	if r.P.GOARCH != "" {
		return " [GOARCH=" + r.P.GOARCH + "]"
	}
	return ""
}

// helperInlineOrWalk: besides the helpers the path engines always analyse in place, a helper that only walks a bucket
// chain (reads, appends to a local slice) is followed too, so that 'the whole chain was walked' is seen at its call site.
func helperInlineOrWalk(r *Run) func(*ssa.Function, ssa.CallInstruction) bool {
	base := helperInline(r)
	return func(g *ssa.Function, c ssa.CallInstruction) bool {
		if base(g, c) {
			return true
		}
		if g == nil || g.Pkg != r.P.Xsync || g.Blocks == nil || roleFuncs(r)[g] {
			return false
		}
		for _, p := range g.Params {
			if isBucketType(r, elemOf(p.Type())) {
				return true
			}
		}
		return false
	}
}

// onMissEdge: block b is entered only through the 'not found' edge of a test of the second result of the lookup call.
func onMissEdge(b *ssa.BasicBlock, load *ssa.Call) bool { return onEdgeOf(b, load, false) }

// onEdgeOf: b's only predecessor branches on the found flag of load, and b is its hit (miss) successor.
func onEdgeOf(b *ssa.BasicBlock, load *ssa.Call, hit bool) bool {
	if len(b.Preds) != 1 {
		return false
	}
	p := b.Preds[0]
	iff, ok := p.Instrs[len(p.Instrs)-1].(*ssa.If)
	if !ok {
		return false
	}
	cond := iff.Cond
	neg := false
	for {
		if u, isU := cond.(*ssa.UnOp); isU && u.Op == token.NOT {
			neg = !neg
			cond = u.X
			continue
		}
		break
	}
	ex, isEx := cond.(*ssa.Extract)
	if !isEx || ex.Tuple != ssa.Value(load) || ex.Index != 1 {
		return false
	}
	// ok true on edge 0 unless negated; the miss edge is the other one
	missIdx := 1
	if neg {
		missIdx = 0
	}
	if hit {
		return p.Succs[1-missIdx] == b
	}
	return p.Succs[missIdx] == b
}

// hitEdgeOfAnyReader: block b is entered on the found edge of a call of the map's lock-free reader (Load, or a second
// reader judged by P1), and v is that call's value (result 0) or the constant true / its found flag (result 1).
func hitEdgeOfAnyReader(r *Run, mm *core.MapModel, b *ssa.BasicBlock, v ssa.Value, idx int) bool {
	readers, _ := secondReaders(r, mm)
	isReader := map[*ssa.Function]bool{mm.Methods["Load"]: true}
	for _, f := range readers {
		isReader[f] = true
	}
	found := false
	core.Instrs(b.Parent(), func(in ssa.Instruction) {
		c, ok := in.(*ssa.Call)
		if !ok || !isReader[core.Callee(c)] || !onFlagEdge(b, c, true) {
			return
		}
		switch x := v.(type) {
		case *ssa.Extract:
			if x.Tuple == ssa.Value(c) && x.Index == idx {
				found = true
			}
		case *ssa.Const:
			if bv, isB := core.ConstBool(x); isB && bv && idx == 1 {
				found = true
			}
		default:
			// a reader that returns a pointer: the value behind it / a field of the entry
			if idx == 0 && derivesFromCall(v, c) {
				found = true
			}
		}
	})
	return found
}

func missEdgeOfAnyLoad(mm *core.MapModel, b *ssa.BasicBlock) bool {
	found := false
	core.Instrs(b.Parent(), func(in ssa.Instruction) {
		if c, ok := in.(*ssa.Call); ok && core.Callee(c) == mm.Methods["Load"] && onMissEdge(b, c) {
			found = true
		}
	})
	return found
}

// missEdgeOfAnyReader: as missEdgeOfAnyLoad, for the other lock-free readers and presence filters of the map (whose
// 'not found', being taken as final here, is held to the chain-end rule P11).
func missEdgeOfAnyReader(r *Run, mm *core.MapModel, b *ssa.BasicBlock) bool {
	readers, others := secondReadersAll(r, mm)
	is := map[*ssa.Function]bool{}
	for _, f := range append(readers, others...) {
		is[f] = true
	}
	found := false
	core.Instrs(b.Parent(), func(in ssa.Instruction) {
		if c, ok := in.(*ssa.Call); ok && is[core.Callee(c)] && onFlagEdge(b, c, false) {
			found = true
		}
	})
	return found
}

// resolveUnderSpec: a result of an in-package helper, when the helper has exactly one return reachable under the
// specialisation its arguments give it, is the value returned there.
func resolveUnderSpec(sp core.Spec, v ssa.Value) ssa.Value {
	ex, ok := v.(*ssa.Extract)
	var call *ssa.Call
	idx := 0
	if ok {
		call, _ = ex.Tuple.(*ssa.Call)
		idx = ex.Index
	} else if c, isCall := v.(*ssa.Call); isCall {
		call = c
	}
	if call == nil {
		return v
	}
	cal := core.Callee(call)
	if cal == nil || cal.Blocks == nil {
		return v
	}
	csp := sp.SpecFor(call, cal)
	if len(csp) == 0 {
		return v
	}
	reach := csp.Reachable(cal)
	var only ssa.Value
	n := 0
	for _, b := range cal.Blocks {
		if !reach[b] {
			continue
		}
		if ret, isRet := b.Instrs[len(b.Instrs)-1].(*ssa.Return); isRet && idx < len(ret.Results) {
			n++
			only = ret.Results[idx]
		}
	}
	if n == 1 {
		return core.StripConv(only)
	}
	return v
}

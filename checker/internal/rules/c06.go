package rules

import (
	"fmt"
	"strings"

	"cachelint/internal/core"
	"cachelint/internal/sym"
)

func init() {
	Registry["C06"] = C06
	Metas["C06"] = Meta{
		Explanation: "Decides, on every abstract path of every cache method (role evaluation), the per-call clauses of C06: (E1) every call of the evicted callback passes the key given to - and the value observed by - a map operation of the same path that actually removed an entry (delete effect on a present entry), never a value captured from an earlier snapshot or the caller's argument; (E2) it is therefore control-dependent on that removal; (E3) in the removing methods (GetAndDelete, Delete, DeleteExpired) every path that removes an entry either found the callback nil or fires it exactly once for that entry, and never more than once per removal; (E4) no other method fires the callback (lazy deletion on read and Compute-deletes are silent); (E5) the callback fired is the one loaded from the settings during this call, and callbacks run outside closures that execute under the bucket lock (C13.L5); (E6) the janitor removes entries only through the public DeleteExpired (or a pure delegate of it), so E1-E5 cover its removals too (restated from C15.J1/J5); (E7) a removal that fired the callback is final (C03/C04 P3-P6, C11.L1); (E8) the cache object's plain fields are written by the constructor only, so the pairs a removing call has collected for delivery cannot be overwritten by a pass started from inside the callback or by the janitor's pass (restated from C14.A3 for the cache layer). NOT decided: exactly-once over concurrent histories (follows from E1-E3 plus the atomicity of the removing operation, C03/C04).",
		Rule:        "one obligation per (rule, method); non-trivial = decided from the callback / map-operation events of the evaluated paths",
		Assumptions: []string{"the map-operation contract (a delete effect on loaded=true removes exactly the observed item)"},
	}
}

var removers = map[string]bool{"GetAndDelete": true, "Delete": true, "DeleteExpired": true}

func C06(r *Run) *core.Report {
	rep := core.NewReport("C06")
	if !modelOK(r, rep, "C06.E0") {
		return rep
	}
	nCb := 0
	names, extra := cacheMethodList(r)
	for twin := 0; twin < 2; twin++ {
		for _, name := range names {
			mp := methodPaths(r, twin, name)
			if extra[name] {
				if !cleanPaths(mp) {
					continue
				}
			} else if undecidedPaths(r, rep, "C06.E0", mp) {
				continue
			}
			rep.Fn(fn(mp.Fn))
			pos := r.P.Pos(mp.Fn.Pos())
			var e1, e3, e4, e5 string
			for i := range mp.Paths {
				p := &mp.Paths[i]
				// removals on this path
				removed := map[string]*sym.Event{}
				for j := range p.Events {
					ev := &p.Events[j]
					if ev.Kind == "mapop" && ev.Effect == "delete" && ev.Loaded == 1 {
						removed[fmt.Sprint(ev.N)] = ev
					}
				}
				fired := map[string]int{}
				for j := range p.Events {
					ev := &p.Events[j]
					if ev.Kind != "callback" {
						continue
					}
					nCb++
					if !removers[name] && !extra[name] && e4 == "" { // (an API addition may be a new removing operation; E1-E3, E5 still bind it)
						e4 = "the evicted callback is fired at " + ev.Pos + " by a method that is not one of the removing operations (Delete, GetAndDelete, DeleteExpired / janitor)"
					}
					if !strings.HasPrefix(ev.Name, "evictedCallback") && e5 == "" {
						e5 = "the function fired at " + ev.Pos + " is not the callback loaded from the settings during this call (" + ev.Name + ")"
					}
					if ev.InOp != 0 && e5 == "" {
						e5 = "the callback at " + ev.Pos + " is fired from inside a read-modify-write closure (under the bucket lock)"
					}
					if len(ev.Args) != 2 {
						e1 = "callback called with an unexpected number of arguments at " + ev.Pos
						continue
					}
					v := ev.Args[1]
					okv := false
					if v.Op == "field" && v.K == "v" && v.Args[0].Op == "mapold" {
						if op, isRemoved := removed[v.Args[0].K]; isRemoved {
							fired[v.Args[0].K]++
							// key: the removing operation's key
							if op.Key != nil && op.Key.String() == ev.Args[0].String() {
								okv = true
							} else if e1 == "" {
								e1 = fmt.Sprintf("the callback at %s reports key %s but the entry was removed under key %s", ev.Pos, ev.Args[0], op.Key)
							}
						}
					}
					if !okv && e1 == "" {
						e1 = fmt.Sprintf("the callback at %s is fired with value %s, which is not the value observed by a map operation that removed an entry on this path (path: %s): a value that was not removed - already replaced, still retrievable, or removed by someone else - is reported", ev.Pos, v.String(), sym.DescribePC(p.PC))
					}
				}
				if removers[name] {
					for n, op := range removed {
						cbNil, known := false, false
						for _, a := range p.PC {
							// (the nil test of the callback loaded from the settings - not any comparison with an atomically loaded
							// value, e.g. the retry test of a compare-and-swap loop on some other word)
							if a.T.Op == "cmp" && a.T.K == "==" && (isCallbackLoad(a.T.Args[0]) || isCallbackLoad(a.T.Args[1])) {
								cbNil, known = a.V, true
							}
						}
						switch {
						case fired[n] > 1 && e3 == "":
							e3 = fmt.Sprintf("the entry removed at %s is reported to the callback %d times on one path", op.Pos, fired[n])
						case fired[n] == 0 && !(known && cbNil) && e3 == "":
							e3 = fmt.Sprintf("a path removes an entry at %s without firing the callback although the callback was not found nil (path: %s)", op.Pos, sym.DescribePC(p.PC))
						case fired[n] == 1 && known && cbNil && e3 == "":
							e3 = "callback fired on a path where it tested nil"
						}
					}
				}
			}
			rep.Check(e1 == "", "C06.E1", fn(mp.Fn)+" callback reports the removed entry", pos, "every callback argument pair is (key, value) of an entry removed by a map operation of the same path", e1)
			if removers[name] {
				rep.Check(e3 == "", "C06.E3", fn(mp.Fn)+" once per removal", pos, "each removal fires the callback exactly once unless it is nil", e3)
			}
			rep.Check(e4 == "", "C06.E4", fn(mp.Fn)+" who may fire", pos, "only the removing operations fire the callback", e4)
			rep.Check(e5 == "", "C06.E5", fn(mp.Fn)+" callback in force, unlocked", pos, "callbacks are loaded from the settings in this call and run outside locked closures", e5)
		}
	}
	rep.MinCount("C06.E1", "callback events on evaluated paths", nCb, 8)
	// E6: the janitor removes entries only through the public DeleteExpired (whose paths are decided above, the
	// callback load included) - restated from C15.J1/J5
	nj := 0
	for _, o := range C15(r).Obs {
		if o.Trivial || !(strings.HasPrefix(o.Rule, "C15.J1") && strings.Contains(o.Construct, "ticker case cleans up") || strings.HasPrefix(o.Rule, "C15.J5")) {
			continue
		}
		c := *o
		c.Construct = "[" + o.Rule + "] " + o.Construct
		c.Rule = "C06.E6"
		if c.Status != core.Pass {
			c.Detail = "the janitor does not clean up through the public DeleteExpired: its removals are not covered by the callback rules (callback in force, once per removed entry). " + c.Detail
		}
		rep.Obs = append(rep.Obs, &c)
		nj++
	}
	rep.MinCount("C06.E6", "janitor clean-up obligations", nj, 2)
	// E7: a removal that fired the callback is final - the entry was removed from the current table under a validated
	// lock and a concurrent resize cannot bring it back (restated from C03/C04 P3-P6)
	n7 := borrow(rep, mapProtocol(r, "C03", 0), "C06.E7", "C03.P3", "C03.P4", "C03.P5", "C03.P6")
	n7 += borrow(rep, mapProtocol(r, "C04", 1), "C06.E7", "C04.P3", "C04.P4", "C04.P5", "C04.P6")
	// ... and the removing map operation reports what the locked removal did, not an earlier lock-free read
	for _, o := range C11(r).Obs {
		if o.Trivial || o.Rule != "C11.L1" || !strings.Contains(o.Construct, "returns the locked operation's results") {
			continue
		}
		c := *o
		c.Construct = "[" + o.Rule + "] " + o.Construct
		c.Rule = "C06.E7"
		rep.Obs = append(rep.Obs, &c)
		n7++
	}
	rep.MinCount("C06.E7", "premise obligations (removals are final)", n7, 10)
	// E8: what a removing call has collected for delivery stays its own: the cache object's plain fields are written
	// by the constructor only, so a pass started from inside the callback, or the janitor's pass running beside a manual
	// one, cannot overwrite pairs that are still waiting to be reported (restated from C14.A3 for the cache layer)
	tmp8 := core.NewReport("C06")
	c14Accesses(r, tmp8, apiReachable(r))
	n8 := 0
	for _, o := range tmp8.Obs {
		if o.Trivial || o.Rule != "C14.A3" || !strings.HasPrefix(o.Construct, "cache.") {
			continue
		}
		c := *o
		c.Construct = "[" + o.Rule + "] " + o.Construct
		c.Rule = "C06.E8"
		rep.Obs = append(rep.Obs, &c)
		n8++
	}
	rep.MinCount("C06.E8", "premise obligations (cache fields written by the constructor only)", n8, 2)
	// E5 second half: borrowed from C13.L5
	tmp := core.NewReport("C06")
	c13L5(r, tmp)
	for _, o := range tmp.Obs {
		if o.Trivial {
			continue
		}
		c := *o
		c.Rule = "C06.E5"
		rep.Obs = append(rep.Obs, &c)
	}
	return rep
}

func isCallbackLoad(t *sym.Term) bool {
	return t != nil && t.Op == "aload" && strings.HasPrefix(t.K, "evictedCallback")
}

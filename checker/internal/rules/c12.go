package rules

import (
	"fmt"
	"go/types"
	"sort"
	"strings"

	"cachelint/internal/core"
	"cachelint/internal/sym"

	"golang.org/x/tools/go/ssa"
)

func init() {
	Registry["C12"] = C12
	Metas["C12"] = Meta{
		Explanation: "Observational equivalence of histories is NOT decided. Decided is agreement of the twins' static summaries: (W1) API parity - the method sets of Cache and CacheOf[string, interface{}] and of Map and MapOf[string, interface{}] coincide in names and (after substituting K=string, V=interface{} and dropping the Of suffix) signatures, and constructors / options pair up with no member lacking a twin; (W2) for every public cache method the decision table computed by role evaluation (abstract key state seen by the deciding map operation -> map effect, returned roles, user-function calls, callbacks) of xsyncMap equals that of xsyncMapOf, including the TTL computation; (W3) for the maps: wrapper modes and adapter contracts agree, the compute cores have equal return-class tables (class -> result roles, effect, counter delta) under each mode, and every protocol-shape rule family (C03/C04 P1-P10) has the same verdict on both; (W4) config normalisation and defaults have equal tables and the constructors' structural verdicts (C15 families, default-constructor arguments) agree; (W7) the clock discipline verdicts (C01.T1: canonical shape, reading made in the call, inside the lock for liveness, before user code) agree per method. Other internal event sequences are deliberately not compared (spin lock vs mutex, pointer pair vs immutable entry differ by design).",
		Rule:        "one obligation per (rule, method | wrapper | rule family); non-trivial = both twins' summaries were computed and compared",
		Assumptions: []string{"twins are paired by name with the Of rule"},
	}
}

func C12(r *Run) *core.Report {
	rep := core.NewReport("C12")
	if !modelOK(r, rep, "C12.W0") {
		return rep
	}
	c12W1(r, rep)
	// W2
	n := 0
	names, extra := cacheMethodList(r)
	for _, name := range names {
		a, b := methodPaths(r, 0, name), methodPaths(r, 1, name)
		if extra[name] {
			// API additions: compared where both twins' methods are modelled completely (W1 compares the method sets)
			if !cleanPaths(a) || !cleanPaths(b) {
				continue
			}
		} else if undecidedPaths(r, rep, "C12.W0", a) || undecidedPaths(r, rep, "C12.W0", b) {
			continue
		}
		n++
		ta, tb := normTable(a), normTable(b)
		if extra[name] && (tableMentions(ta, "ext:") || tableMentions(tb, "ext:")) {
			// results built by functions outside the module (a String method formatting the type's own name): the
			// twins may legitimately print different text
			continue
		}
		diff := tableDiff(ta, tb)
		rep.Check(diff == "", "C12.W2", "Cache."+name+" == CacheOf."+name, r.P.Pos(a.Fn.Pos()), fmt.Sprintf("decision tables equal (%d key-state rows)", len(ta)), "the twins decide differently: "+diff)
	}
	rep.MinCount("C12.W2", "cache method pairs compared", n, 20)
	// TTL computation twins
	fa, fb := expirationFn(r, 0), expirationFn(r, 1)
	if fa != nil && fb != nil {
		ia := newInterp(r, false)
		ib := newInterp(r, false)
		ta := normTable(&MethodPaths{Name: "expiration", Fn: fa, Paths: ia.Run(fa)})
		tb := normTable(&MethodPaths{Name: "expiration", Fn: fb, Paths: ib.Run(fb)})
		diff := tableDiff(ta, tb)
		rep.Check(diff == "", "C12.W2", "TTL computation twins", r.P.Pos(fa.Pos()), "equal tables", "the TTL computations differ: "+diff)
	}
	c12W3(r, rep)
	// W5 (32-bit layout only): both twins keep their 64-bit atomic words aligned - a layout change in one twin that
	// faults on 32-bit platforms makes the twins differ there (restated from C14.A7)
	// W6: helpers that only one twin uses must not lose bits on 32-bit targets (restated from the word-width rule P12)
	n6 := borrow(rep, mapProtocol(r, "C04", 1), "C12.W6", "C04.P12")
	_ = n6
	if r.P.GOARCH == "386" {
		n5 := borrow(rep, C14(r), "C12.W5", "C14.A7")
		rep.MinCount("C12.W5", "premise obligations (64-bit atomic operands aligned on 386)", n5, 2)
	}
	c12W4(r, rep)
	// W7: the twins agree on *when* each method judges expiry: the per-method verdicts of the clock rules (canonical
	// shape, reading made in the call, inside the lock for liveness, before user code runs) are the same for both -
	// a method that reads the clock after its callback on one twin only reports differently under a slow callback
	{
		verdict := [2]map[string]bool{{}, {}}
		for _, o := range C01(r).Obs {
			if o.Rule != "C01.T1" || o.Trivial {
				continue
			}
			for tw := 0; tw < 2; tw++ {
				if r.M.CacheT[tw] == nil {
					continue
				}
				pre := "cache.(*" + r.M.CacheT[tw].Obj().Name() + ")."
				if strings.HasPrefix(o.Construct, pre) {
					meth := strings.SplitN(strings.TrimPrefix(o.Construct, pre), " ", 2)[0]
					if old, seen := verdict[tw][meth]; !seen || old {
						verdict[tw][meth] = o.Status == core.Pass
					}
				}
			}
		}
		var diff []string
		for m, v := range verdict[0] {
			if w, ok := verdict[1][m]; ok && w != v {
				diff = append(diff, fmt.Sprintf("%s (Cache: %v, CacheOf: %v)", m, v, w))
			}
		}
		sort.Strings(diff)
		rep.Check(len(diff) == 0, "C12.W7", "clock discipline twins", "-", fmt.Sprintf("%d methods judge expiry with the same clock discipline on both twins", len(verdict[0])), "the twins judge expiry at different points of the call: "+strings.Join(diff, "; "))
	}
	return rep
}

func tableMentions(t map[string][]string, what string) bool {
	for k, os := range t {
		if strings.Contains(k, what) {
			return true
		}
		for _, o := range os {
			if strings.Contains(o, what) {
				return true
			}
		}
	}
	return false
}

func tableDiff(a, b map[string][]string) string {
	// one twin decides without looking at the key's state (the single row "-": Set through Store), the other goes
	// through the locked read-modify-write and so has a row per state: equal when every such row carries the outcome
	// of the "-" row
	a, b = spreadStateless(a, b), spreadStateless(b, a)
	var out []string
	keys := map[string]bool{}
	for k := range a {
		keys[k] = true
	}
	for k := range b {
		keys[k] = true
	}
	var ks []string
	for k := range keys {
		ks = append(ks, k)
	}
	sort.Strings(ks)
	for _, k := range ks {
		x, y := strings.Join(a[k], " | "), strings.Join(b[k], " | ")
		if x != y {
			out = append(out, fmt.Sprintf("key state [%s]: {%s} vs {%s}", k, x, y))
		}
	}
	if len(out) > 3 {
		out = append(out[:3], fmt.Sprintf("... and %d more rows", len(out)-3))
	}
	return strings.Join(out, "; ")
}

// spreadStateless: when t is the single row "-" and other has state rows only, t restated over other's states.
func spreadStateless(t, other map[string][]string) map[string][]string {
	if len(t) != 1 || len(other) == 0 {
		return t
	}
	os, ok := t["-"]
	if !ok {
		return t
	}
	if _, has := other["-"]; has {
		return t
	}
	out := map[string][]string{}
	for k := range other {
		out[k] = os
	}
	return out
}

// normType renders a type with K=string, V=interface{} and Of-suffixed generic names replaced by their plain twins.
func normType(t types.Type) string {
	t = types.Unalias(t) // 'any' is interface{}
	switch x := t.(type) {
	case *types.TypeParam:
		switch x.Obj().Name() {
		case "K":
			return "string"
		default:
			return "interface{}"
		}
	case *types.Named:
		n := x.Obj().Name()
		if x.TypeArgs() != nil && x.TypeArgs().Len() > 0 {
			n = strings.TrimSuffix(n, "Of")
		}
		if x.Obj().Pkg() != nil && x.Obj().Pkg().Path() != core.CachePath {
			n = x.Obj().Pkg().Name() + "." + n
		}
		return n
	case *types.Pointer:
		return "*" + normType(x.Elem())
	case *types.Slice:
		return "[]" + normType(x.Elem())
	case *types.Map:
		return "map[" + normType(x.Key()) + "]" + normType(x.Elem())
	case *types.Signature:
		var ps, rs []string
		for i := 0; i < x.Params().Len(); i++ {
			ps = append(ps, normType(x.Params().At(i).Type()))
		}
		for i := 0; i < x.Results().Len(); i++ {
			rs = append(rs, normType(x.Results().At(i).Type()))
		}
		v := ""
		if x.Variadic() {
			v = "..."
		}
		return "func(" + v + strings.Join(ps, ",") + ")(" + strings.Join(rs, ",") + ")"
	case *types.Interface:
		if x.Empty() {
			return "interface{}"
		}
	}
	return types.TypeString(t, func(p *types.Package) string { return p.Name() })
}

func c12W1(r *Run, rep *core.Report) {
	scope := r.P.Cache.Pkg.Scope()
	pairs := [][2]string{{"Cache", "CacheOf"}, {"Map", "MapOf"}}
	for _, pr := range pairs {
		a, _ := scope.Lookup(pr[0]).(*types.TypeName)
		b, _ := scope.Lookup(pr[1]).(*types.TypeName)
		if a == nil || b == nil {
			rep.Fail("C12.W1", pr[0]+" / "+pr[1], "-", "interface twin missing")
			continue
		}
		ia, _ := a.Type().Underlying().(*types.Interface)
		ib, _ := b.Type().Underlying().(*types.Interface)
		ma, mb := map[string]string{}, map[string]string{}
		for i := 0; i < ia.NumMethods(); i++ {
			ma[ia.Method(i).Name()] = normType(ia.Method(i).Type())
		}
		for i := 0; i < ib.NumMethods(); i++ {
			mb[ib.Method(i).Name()] = normType(ib.Method(i).Type())
		}
		var diff []string
		for n, s := range ma {
			if t, ok := mb[n]; !ok {
				diff = append(diff, n+" missing in "+pr[1])
			} else if t != s {
				diff = append(diff, n+": "+s+" vs "+t)
			}
		}
		for n := range mb {
			if _, ok := ma[n]; !ok {
				diff = append(diff, n+" missing in "+pr[0])
			}
		}
		sort.Strings(diff)
		rep.Check(len(diff) == 0, "C12.W1", pr[0]+" == "+pr[1]+"[string, interface{}] method sets", r.P.Pos(a.Pos()), fmt.Sprintf("%d methods with identical signatures", len(ma)), "API surfaces differ: "+strings.Join(diff, "; "))
	}
	// exported functions pair up with the Of rule
	funcs := map[string]*types.Func{}
	for _, n := range scope.Names() {
		if f, ok := scope.Lookup(n).(*types.Func); ok && f.Exported() {
			funcs[n] = f
		}
	}
	twinName := func(n string) string {
		switch {
		case strings.HasPrefix(n, "NewMapOf"):
			return "NewMap" + strings.TrimPrefix(n, "NewMapOf")
		case strings.HasPrefix(n, "NewMap"):
			return "NewMapOf" + strings.TrimPrefix(n, "NewMap")
		case strings.HasPrefix(n, "NewOf"):
			return "New" + strings.TrimPrefix(n, "NewOf")
		case strings.HasPrefix(n, "New"):
			return "NewOf" + strings.TrimPrefix(n, "New")
		case strings.HasSuffix(n, "Of"):
			return strings.TrimSuffix(n, "Of")
		}
		return n + "Of"
	}
	var names []string
	for n := range funcs {
		names = append(names, n)
	}
	sort.Strings(names)
	n := 0
	for _, name := range names {
		f := funcs[name]
		t, ok := funcs[twinName(name)]
		if !ok {
			// an entry point that exists on one side only has no corresponding call to compare with: out of the property's
			// reach (it quantifies over corresponding calls), recorded but not a violation
			rep.Note("C12.W1: exported function " + name + " (" + r.P.Pos(f.Pos()) + ") has no twin " + twinName(name) + "; nothing to compare")
			continue
		}
		n++
		if strings.HasSuffix(name, "Of") || strings.Contains(name, "Of") {
			continue // compare once per pair, from the plain side
		}
		sa, sb := normType(f.Type()), normType(t.Type())
		rep.Check(sa == sb, "C12.W1", name+" == "+twinName(name), r.P.Pos(f.Pos()), "signatures equal after substitution", "signatures differ: "+sa+" vs "+sb)
	}
	rep.MinCount("C12.W1", "exported functions with twins", n, 16)
}

func c12W3(r *Run, rep *core.Report) {
	ma, mb := r.M.Maps[0], r.M.Maps[1]
	// wrappers
	for name := range wrapperModes {
		wa, wb := ma.Methods[name], mb.Methods[name]
		if wa == nil || wb == nil {
			rep.Fail("C12.W3", "Map."+name+" / MapOf."+name, "-", "wrapper missing on one side")
			continue
		}
		sa, sb := wrapperSummary(ma, wa), wrapperSummary(mb, wb)
		rep.Check(sa == sb, "C12.W3", "Map."+name+" == MapOf."+name, r.P.Pos(wa.Pos()), "mode and adapter contract equal: "+sa, "wrappers differ: "+sa+" vs "+sb)
	}
	// core class tables per mode
	specsA, specsB := specsFor(r, ma.Core), specsFor(r, mb.Core)
	tabs := func(mm *core.MapModel, sps []core.Spec) map[string]string {
		out := map[string]string{}
		for _, sp := range sps {
			cf := coreFlow(r, mm, sp)
			rows := map[string]bool{}
			for _, ex := range cf.Exits {
				ret0 := ex.Ret0
				if ret0 == "fast" {
					ret0 = "old"
				}
				eff := "none"
				switch {
				case ex.S.SlotNil:
					eff = "clear"
				case ex.S.SlotSet || ex.S.Linked:
					eff = "fill"
				}
				rows[fmt.Sprintf("calls=%d loaded=%d del=%d -> (%s,%s) effect=%s counter=%+d", ex.S.Calls, ex.S.Loaded, ex.S.Del, ret0, ex.Ret1, eff, ex.S.Sum)] = true
			}
			var l []string
			for k := range rows {
				l = append(l, k)
			}
			sort.Strings(l)
			key := strings.TrimPrefix(sp.String(mm.Core), "")
			out[key] = strings.Join(l, "\n")
		}
		return out
	}
	ta, tb := tabs(ma, specsA), tabs(mb, specsB)
	keys := map[string]bool{}
	for k := range ta {
		keys[k] = true
	}
	for k := range tb {
		keys[k] = true
	}
	n := 0
	for k := range keys {
		n++
		same := ta[k] == tb[k]
		d := ""
		if !same {
			sa, sb := strings.Split(ta[k], "\n"), strings.Split(tb[k], "\n")
			setB := map[string]bool{}
			for _, x := range sb {
				setB[x] = true
			}
			setA := map[string]bool{}
			for _, x := range sa {
				setA[x] = true
				if !setB[x] {
					d += " Map only: " + x + ";"
				}
			}
			for _, x := range sb {
				if !setA[x] {
					d += " MapOf only: " + x + ";"
				}
			}
		}
		rep.Check(same, "C12.W3", "compute core class table "+k, r.P.Pos(ma.Core.Pos()), "Map and MapOf cores return the same roles / effects / counter deltas per class", "compute cores differ under mode "+k+":"+d)
	}
	rep.MinCount("C12.W3", "core modes compared", n, 3)
	// protocol rule families: same verdict
	ra, rb := mapProtocol(r, "C03", 0), mapProtocol(r, "C04", 1)
	fam := func(rp *core.Report) map[string]bool {
		out := map[string]bool{}
		for _, o := range rp.Obs {
			suffix := o.Rule[strings.Index(o.Rule, ".")+1:]
			if _, seen := out[suffix]; !seen {
				out[suffix] = true
			}
			if o.Status != core.Pass {
				out[suffix] = false
			}
		}
		return out
	}
	fa, fb := fam(ra), fam(rb)
	var fams []string
	for k := range fa {
		fams = append(fams, k)
	}
	sort.Strings(fams)
	for _, k := range fams {
		rep.Check(fa[k] == fb[k], "C12.W3", "protocol rule family "+k, "-", fmt.Sprintf("same verdict on both maps (holds=%v)", fa[k]), fmt.Sprintf("the protocol rule family %s holds on Map=%v but on MapOf=%v: the twins' protocols have diverged", k, fa[k], fb[k]))
	}
}

func wrapperSummary(mm *core.MapModel, w *ssa.Function) string {
	c, _ := coreCallOf(mm, w, 0)
	if c == nil {
		return "no call of the core"
	}
	var parts []string
	for i, a := range c.Common().Args {
		if i >= len(mm.Core.Params) {
			continue
		}
		if b, isC := core.ConstBool(a); isC {
			parts = append(parts, fmt.Sprint(b))
		}
		if isFuncTyped(mm.Core.Params[i].Type()) {
			if _, isP := core.StripConv(a).(*ssa.Parameter); isP {
				parts = append(parts, "user-fn")
			} else if cl, _ := funcOfValue(a, 0); cl != nil {
				parts = append(parts, "adapter("+adapterSummary(cl)+")")
			}
		}
	}
	rets := "returns-core-result"
	if w.Signature.Results().Len() == 0 {
		rets = "no-result"
	}
	return strings.Join(parts, ",") + " " + rets
}

func c12W4(r *Run, rep *core.Report) {
	scope := r.P.Cache.Pkg.Scope()
	for _, pr := range [][2]string{{"configDefault", "configDefaultOf"}, {"DefaultConfig", "DefaultConfigOf"}} {
		oa, _ := scope.Lookup(pr[0]).(*types.Func)
		ob, _ := scope.Lookup(pr[1]).(*types.Func)
		if oa == nil || ob == nil {
			rep.Note("config helper pair " + pr[0] + "/" + pr[1] + " not found by name; W4 compares the constructors' settings flow instead (C09.X4)")
			continue
		}
		fa, fb := r.P.SSA.FuncValue(oa), r.P.SSA.FuncValue(ob)
		ia := newInterp(r, false)
		ib := newInterp(r, false)
		pa, pb := ia.Run(fa), ib.Run(fb)
		prob := ""
		for _, p := range append(append([]sym.Path{}, pa...), pb...) {
			if len(p.Problems) > 0 {
				prob = p.Problems[0]
			}
		}
		if prob != "" || len(pa) == 0 || len(pb) == 0 {
			rep.Undecided("C12.W4", pr[0]+" == "+pr[1], r.P.Pos(fa.Pos()), "cannot evaluate the config helpers: "+prob)
			continue
		}
		// finite-ordering comparison: both functions only compare config fields and len(args) with constants;
		// evaluate their path tables on representatives of every region those constants cut out
		diff, nSamples := compareOnRegions(pa, pb)
		rep.Check(diff == "", "C12.W4", pr[0]+" == "+pr[1], r.P.Pos(fa.Pos()), fmt.Sprintf("equal results on all %d region representatives", nSamples), "config helpers differ: "+diff)
	}
	// constructors: same structural verdicts (C15 rule families) on both twins
	C15(r)
	va, vb := r.c15Twin[0], r.c15Twin[1]
	perTwin := [2]map[string]bool{va, vb}
	var diff []string
	for k, v := range va {
		if w, ok := vb[k]; !ok || w != v {
			diff = append(diff, fmt.Sprintf("%s (Cache: %v, CacheOf: %v)", k, v, vb[k]))
		}
	}
	for k := range vb {
		if _, ok := va[k]; !ok {
			diff = append(diff, k+" (only on CacheOf)")
		}
	}
	sort.Strings(diff)
	rep.Check(len(diff) == 0, "C12.W4", "constructor structure twins", "-", fmt.Sprintf("%d structural obligations with equal verdicts on both constructors", len(perTwin[0])), "the constructors' structural verdicts differ on: "+strings.Join(diff, "; "))
}

// ---- finite-ordering evaluation of comparison-only functions ----

// leafVars collects the variable leaves (fields of the argument, len of the variadic) of the atoms of the paths
// and, per variable, the constants it is compared with.
func leafVars(paths []sym.Path, vars map[string]map[int64]bool) {
	for _, p := range paths {
		for _, a := range p.PC {
			if a.T.Op != "cmp" || len(a.T.Args) != 2 {
				continue
			}
			for i := 0; i < 2; i++ {
				if k, ok := a.T.Args[1-i].IntVal(); ok {
					if _, isC := a.T.Args[i].IntVal(); !isC {
						key := normTerm(a.T.Args[i])
						if vars[key] == nil {
							vars[key] = map[int64]bool{}
						}
						vars[key][k] = true
					}
				}
			}
		}
	}
}

func evalInt(t *sym.Term, env map[string]int64) (int64, bool) {
	if k, ok := t.IntVal(); ok {
		return k, true
	}
	if v, ok := env[normTerm(t)]; ok {
		return v, true
	}
	return 0, false
}

func evalAtom(t *sym.Term, env map[string]int64) (bool, bool) {
	if t.Op == "not" {
		v, ok := evalAtom(t.Args[0], env)
		return !v, ok
	}
	if t.Op != "cmp" || len(t.Args) != 2 {
		return false, false
	}
	a, ok1 := evalInt(t.Args[0], env)
	b, ok2 := evalInt(t.Args[1], env)
	if !ok1 || !ok2 {
		return false, false
	}
	switch t.K {
	case ">":
		return a > b, true
	case ">=":
		return a >= b, true
	case "==":
		return a == b, true
	}
	return false, false
}

// concretise renders a result term under an assignment: known integer leaves are replaced by their values.
func concretise(t *sym.Term, env map[string]int64) string {
	if v, ok := evalInt(t, env); ok {
		return fmt.Sprint(v)
	}
	if t.IsZero() {
		return "0"
	}
	if t.Op == "struct" {
		var s []string
		for i, a := range t.Args {
			s = append(s, t.Names[i]+"="+concretise(a, env))
		}
		return "{" + strings.Join(s, ",") + "}"
	}
	var s []string
	for _, a := range t.Args {
		s = append(s, concretise(a, env))
	}
	k := t.K
	if i := strings.Index(k, "#"); i >= 0 {
		k = k[:i]
	}
	return t.Op + ":" + k + "(" + strings.Join(s, ",") + ")"
}

func resultUnder(paths []sym.Path, env map[string]int64) ([]*sym.Term, string) {
	for i := range paths {
		p := &paths[i]
		okPath := true
		for _, a := range p.PC {
			v, known := evalAtom(a.T, env)
			if !known {
				return nil, "unevaluable atom " + a.T.String()
			}
			if v != a.V {
				okPath = false
				break
			}
		}
		if okPath {
			return p.Ret, ""
		}
	}
	return nil, "no path"
}

// equalUnder compares two result terms under an assignment; an opaque struct value is compared field by field
// with a struct literal on the other side.
func equalUnder(a, b *sym.Term, env map[string]int64) bool {
	if va, ok := evalInt(a, env); ok {
		vb, ok2 := evalInt(b, env)
		return ok2 && va == vb
	}
	if a.Op == "struct" && b.Op != "struct" {
		for i, n := range a.Names {
			other := sym.Mk("field", n, b)
			switch n {
			case "MinCapacity":
				continue // unobservable (see below)
			case "CleanupInterval":
				va, oka := evalInt(a.Args[i], env)
				vb, okb := evalInt(other, env)
				if oka && okb && va <= 0 && vb <= 0 {
					continue
				}
			}
			if !equalUnder(a.Args[i], other, env) {
				return false
			}
		}
		return true
	}
	if b.Op == "struct" && a.Op != "struct" {
		return equalUnder(b, a, env)
	}
	if a.Op == "struct" && b.Op == "struct" {
		if len(a.Args) != len(b.Args) {
			return false
		}
		for i := range a.Args {
			// configuration values that nothing can observe are not compared: the capacity hint (contents never depend on
			// capacity), and among cleanup intervals only 'positive, and which' matters (any value <= 0 means no janitor)
			if i < len(a.Names) {
				switch a.Names[i] {
				case "MinCapacity":
					continue
				case "CleanupInterval":
					va, oka := evalInt(a.Args[i], env)
					vb, okb := evalInt(b.Args[i], env)
					if oka && okb && va <= 0 && vb <= 0 {
						continue
					}
				}
			}
			if !equalUnder(a.Args[i], b.Args[i], env) {
				return false
			}
		}
		return true
	}
	if a.IsZero() && b.IsZero() {
		return true
	}
	return concretise(a, env) == concretise(b, env)
}

// compareOnRegions evaluates two path tables on one representative per region (k-1, k, k+1 for every constant k a
// variable is compared with) and reports the first difference.
func compareOnRegions(pa, pb []sym.Path) (string, int) {
	vars := map[string]map[int64]bool{}
	leafVars(pa, vars)
	leafVars(pb, vars)
	var names []string
	for n := range vars {
		names = append(names, n)
	}
	sort.Strings(names)
	samples := make([][]int64, len(names))
	for i, n := range names {
		set := map[int64]bool{}
		for k := range vars[n] {
			set[k-1], set[k], set[k+1] = true, true, true
		}
		for v := range set {
			if strings.HasPrefix(n, "len(") && v < 0 {
				continue
			}
			samples[i] = append(samples[i], v)
		}
		sort.Slice(samples[i], func(a, b int) bool { return samples[i][a] < samples[i][b] })
	}
	total := 0
	var rec func(i int, env map[string]int64) string
	rec = func(i int, env map[string]int64) string {
		if i == len(names) {
			total++
			ra, ea := resultUnder(pa, env)
			rb, eb := resultUnder(pb, env)
			if ea != "" || eb != "" {
				if ea != eb {
					return fmt.Sprintf("for %v: plain twin %s, generic twin %s", env, ea, eb)
				}
				return ""
			}
			same := len(ra) == len(rb)
			for i := 0; same && i < len(ra); i++ {
				same = equalUnder(ra[i], rb[i], env)
			}
			if !same {
				var sa, sb []string
				for _, t := range ra {
					sa = append(sa, concretise(t, env))
				}
				for _, t := range rb {
					sb = append(sb, concretise(t, env))
				}
				return fmt.Sprintf("for %v the plain twin yields %s, the generic twin %s", env, strings.Join(sa, ","), strings.Join(sb, ","))
			}
			return ""
		}
		for _, v := range samples[i] {
			env[names[i]] = v
			if d := rec(i+1, env); d != "" {
				return d
			}
		}
		return ""
	}
	if total > 200000 {
		return "too many regions", total
	}
	return rec(0, map[string]int64{}), total
}

// regionEnvs enumerates one assignment per region of the comparison constants of a path table (k-1, k, k+1 for
// every constant k a variable is compared with).
func regionEnvs(paths []sym.Path, visit func(env map[string]int64) bool) int {
	vars := map[string]map[int64]bool{}
	leafVars(paths, vars)
	var names []string
	for n := range vars {
		names = append(names, n)
	}
	sort.Strings(names)
	samples := make([][]int64, len(names))
	for i, n := range names {
		set := map[int64]bool{}
		for k := range vars[n] {
			set[k-1], set[k], set[k+1] = true, true, true
		}
		for v := range set {
			if strings.HasPrefix(n, "len(") && v < 0 {
				continue
			}
			samples[i] = append(samples[i], v)
		}
		sort.Slice(samples[i], func(a, b int) bool { return samples[i][a] < samples[i][b] })
	}
	total := 0
	var rec func(i int, env map[string]int64) bool
	rec = func(i int, env map[string]int64) bool {
		if i == len(names) {
			total++
			return visit(env)
		}
		for _, v := range samples[i] {
			env[names[i]] = v
			if !rec(i+1, env) {
				return false
			}
		}
		return true
	}
	rec(0, map[string]int64{})
	return total
}

package rules

import (
	"fmt"
	"go/token"
	"go/types"
	"strings"

	"cachelint/internal/core"
	"cachelint/internal/sym"

	"golang.org/x/tools/go/ssa"
)

func init() {
	Registry["C07"] = C07
	Metas["C07"] = Meta{
		Explanation: "Decides the traversal skeleton C07 relies on, on every path of Map.Range / MapOf.Range: (Q1) all buckets walked derive from one atomic load of the table pointer made before the loops; per root bucket the entries are appended to the intermediate slice only while that bucket's lock is held, the lock is released only at the end of the chain, and the visitor is called only with the lock released; the visitor's arguments come from the collected slice; the slice carried to the next bucket is a zero-length reslice (no entry is visited twice); a false visitor result leads to return with no further visitor call; (Q2) key and value pointers collected together are slot contents read under the lock from the same slot of the same bucket (a collected slot address, to be re-read after the unlock, is rejected); (Q3) the cache-level Range ignores a nil visitor before touching the map, calls the visitor only on the not-expired outcome of an expiry test of the visited entry against a clock read inside this Range call, passes that entry's key and value, returns the visitor's verdict, and Items stores exactly the visited pairs and never stops early; (Q4) scan loops cover all slots and whole chains (C11.L2) and a concurrent resize leaves the walked generation intact (the copy routine writes nothing into its source chain, C03/C04.P6); (Q6) every return of Range is reached because the bucket array is exhausted, because the visitor said stop or because there is no visitor - never on another condition (a budget of entries taken from the size counter, a deadline). NOT decided: at-most-once / at-least-once over real interleavings (needs the protocol premises of C03/C04).",
		Rule:        "one obligation per (rule, function, site); non-trivial = decided from lockset facts, dominance, loop-carried value shape or role evaluation",
		Assumptions: []string{"C13 lock pairing; C03/C04 P3/P5/P6"},
	}
}

func C07(r *Run) *core.Report {
	rep := core.NewReport("C07")
	if !modelOK(r, rep, "C07.Q0") {
		return rep
	}
	for _, mm := range r.M.Maps {
		c07Q1(r, rep, mm)
		c07Q6(r, rep, mm)
	}
	c07Q3(r, rep)
	// Q4: borrowed coverage rules
	tmp := core.NewReport("C07")
	c11L2(r, tmp)
	n := 0
	for _, o := range tmp.Obs {
		if o.Rule == "C11.L2" && (containsStr(o.Construct, ".Range ") || containsStr(o.Construct, "copyBucket")) {
			c := *o
			c.Rule = "C07.Q4"
			rep.Obs = append(rep.Obs, &c)
			n++
		}
	}
	// ... and a concurrent resize leaves the generation a traversal walks intact: the copy routine writes nothing into
	// its source chain (C03/C04.P6)
	for idx, mm := range r.M.Maps {
		tmp6 := core.NewReport("C07")
		p6Copy(r, tmp6, []string{"C03", "C04"}[idx], mm)
		for _, o := range tmp6.Obs {
			if strings.Contains(o.Construct, "source") {
				c := *o
				c.Construct = "[" + o.Rule + "] " + o.Construct
				c.Rule = "C07.Q4"
				rep.Obs = append(rep.Obs, &c)
				n++
			}
		}
	}
	rep.MinCount("C07.Q4", "coverage obligations for Range and the copy routine", n, 6)
	// Q5: 'each key once' needs one entry per key: keys that compare equal hash equal (C10.H), and the entries a
	// traversal collected are not rewritten under it (C03/C04.P2)
	n5 := borrow(rep, C10(r), "C07.Q5", "C10.H1", "C10.H2", "C10.H3", "C10.H4", "C10.H7")
	rep.MinCount("C07.Q5", "premise obligations (one entry per key, entries immutable)", n5, 6)
	return rep
}

func containsStr(s, sub string) bool {
	return len(sub) == 0 || (len(s) >= len(sub) && (func() bool {
		for i := 0; i+len(sub) <= len(s); i++ {
			if s[i:i+len(sub)] == sub {
				return true
			}
		}
		return false
	})())
}

func c07Q1(r *Run, rep *core.Report, mm *core.MapModel) {
	f := mm.Methods["Range"]
	rep.Fn(fn(f))
	loops := naturalLoops(f)
	inLoop := func(in ssa.Instruction) bool {
		for _, l := range loops {
			if l.Body[in.Block()] {
				return true
			}
		}
		return false
	}
	// one table generation
	nLoads := 0
	var loadIn ssa.Instruction
	core.Instrs(f, func(in ssa.Instruction) {
		if c, ok := in.(*ssa.Call); ok {
			if a, ok := atomicLoadPath(c); ok && a.Owner == mm.Name && a.Field == mm.TableF {
				nLoads++
				loadIn = in
			}
		}
	})
	rep.Check(nLoads == 1 && loadIn != nil && !inLoop(loadIn), "C07.Q1", fn(f)+" one table generation", r.P.Pos(f.Pos()),
		"the table pointer is loaded once, before the loops", fmt.Sprintf("the table pointer is loaded %d time(s) or inside the traversal loops: buckets of different generations would be mixed and a key could be visited twice or missed", nLoads))
	// collection only under the lock; visitor only unlocked; visitor args from the collected slice
	lf := lockFactsCached(r, f, core.Spec{})
	var visitor *ssa.Parameter
	for _, p := range f.Params {
		if isFuncTyped(p.Type()) {
			visitor = p
		}
	}
	var collected ssa.Value // the phi at the outer loop header carrying the slice
	nAppend, nVisit := 0, 0
	// collect sites may live in a helper the traversal calls (lock / copy chain / unlock extracted)
	var helpers []*ssa.Function
	core.Instrs(f, func(in ssa.Instruction) {
		if c, ok := in.(ssa.CallInstruction); ok {
			if cal := core.Callee(c); cal != nil && cal.Pkg == r.P.Xsync && cal.Blocks != nil && r.M.AcquiresBucketLock(cal) && !r.M.Acquire[cal] {
				if _, isW := r.M.Wrappers[cal]; !isW {
					helpers = append(helpers, cal)
				}
			}
		}
	})
	// ... or in a helper that only walks the chain, called with the lock already held
	type plainHelper struct {
		g    *ssa.Function
		site ssa.Instruction
	}
	var plain []plainHelper
	core.Instrs(f, func(in ssa.Instruction) {
		if c, ok := in.(ssa.CallInstruction); ok {
			if cal := core.Callee(c); cal != nil && cal.Pkg == r.P.Xsync && cal.Blocks != nil && !r.M.AcquiresBucketLock(cal) {
				has := false
				core.Instrs(cal, func(in2 ssa.Instruction) {
					if c2, ok := in2.(ssa.CallInstruction); ok && core.IsBuiltinCall(c2) == "append" {
						has = true
					}
				})
				if has {
					plain = append(plain, plainHelper{cal, in})
				}
			}
		}
	})
	for _, ph := range plain {
		core.Instrs(ph.g, func(in ssa.Instruction) {
			c, ok := in.(ssa.CallInstruction)
			if !ok || core.IsBuiltinCall(c) != "append" {
				return
			}
			nAppend++
			must, _, _ := lf.HeldAt(ph.site)
			rep.Check(must, "C07.Q1", fn(ph.g)+" collects under the lock", r.P.InstrPos(ph.site), "the chain-walking helper is called while the bucket lock is held", "entries are collected by a helper called without the bucket lock: a concurrent writer can change the chain mid-copy, so a key can be visited with another key's value or twice")
			c07Q2(r, rep, mm, ph.g, c)
		})
	}
	for _, g := range append([]*ssa.Function{f}, helpers...) {
		lg := lockFactsCached(r, g, core.Spec{})
		core.Instrs(g, func(in ssa.Instruction) {
			c, ok := in.(ssa.CallInstruction)
			if !ok || core.IsBuiltinCall(c) != "append" {
				return
			}
			nAppend++
			must, _, _ := lg.HeldAt(in)
			rep.Check(must, "C07.Q1", fn(g)+" collects under the lock", r.P.InstrPos(in), "entries are copied into the intermediate slice while the bucket lock is held", "entries are collected without the bucket lock: a concurrent writer can change the chain mid-copy, so a key can be visited with another key's value or twice")
			c07Q2(r, rep, mm, g, c)
		})
	}
	core.Instrs(f, func(in ssa.Instruction) {
		c, ok := in.(ssa.CallInstruction)
		if !ok {
			return
		}
		if visitor != nil && c.Common().Value == ssa.Value(visitor) {
			nVisit++
			_, may, _ := lf.HeldAt(in)
			rep.Check(!may, "C07.Q1", fn(f)+" visits unlocked", r.P.InstrPos(in), "visitor runs with no bucket lock held (it may modify the container)", "the visitor is called while a bucket lock is held")
			// arguments derive from an element of the collected slice
			okArgs := true
			for _, a := range c.Common().Args {
				if !derivesFromIndexed(a, 0) {
					okArgs = false
				}
			}
			rep.Check(okArgs, "C07.Q1", fn(f)+" visits collected entries", r.P.InstrPos(in), "visitor arguments are read from the collected slice", "visitor arguments do not come from the entries collected under the lock")
			// stop on false
			stops := false
			if v, ok := in.(ssa.Value); ok {
				for _, ref := range *v.Referrers() {
					var cond ssa.Value = v
					neg := false
					if u, isU := ref.(*ssa.UnOp); isU && u.Op == token.NOT {
						cond = u
						neg = true
						_ = cond
						for _, r2 := range *u.Referrers() {
							if iff, isIf := r2.(*ssa.If); isIf {
								stops = stopsTraversal(iff, neg, visitor)
							}
						}
					}
					if iff, isIf := ref.(*ssa.If); isIf {
						stops = stopsTraversal(iff, false, visitor)
					}
				}
			}
			rep.Check(stops, "C07.Q1", fn(f)+" stops on false", r.P.InstrPos(in), "a false verdict returns without another visitor call", "a false result of the visitor does not end the traversal immediately")
		}
	})
	c07Q1Collect(r, rep, f)
	rep.MinCount("C07.Q1", "collect sites in "+fn(f), nAppend, 1)
	rep.MinCount("C07.Q1", "visitor call sites in "+fn(f), nVisit, 1)
	// reset between buckets: the slice-typed loop-carried phi of the outer loop receives a zero-length reslice
	resetOK, found := false, false
	for _, l := range loops {
		for _, in := range l.Header.Instrs {
			phi, ok := in.(*ssa.Phi)
			if !ok {
				continue
			}
			if _, isSlice := phi.Type().Underlying().(*types.Slice); !isSlice {
				continue
			}
			// the outermost loop carrying the slice: one incoming edge from outside the loop is a make/alloc
			outer := false
			for i := range phi.Edges {
				if !l.Body[l.Header.Preds[i]] {
					outer = true
				}
			}
			if !outer || !feedsAppend(phi) {
				continue
			}
			// is this the per-root-bucket loop (its body contains the acquire)?
			hasAcq := false
			for b := range l.Body {
				for _, x := range b.Instrs {
					if ev := r.M.LockEventOf(x); ev != nil && ev.Acquire {
						hasAcq = true
					}
					if c, isC := x.(ssa.CallInstruction); isC {
						if cal := core.Callee(c); cal != nil && cal.Blocks != nil && r.M.AcquiresBucketLock(cal) {
							hasAcq = true
						}
					}
				}
			}
			if !hasAcq {
				continue
			}
			found = true
			collected = phi
			resetOK = true
			for i, e := range phi.Edges {
				if !l.Body[l.Header.Preds[i]] {
					continue
				}
				for _, v := range flattenPhi(e, l, 0) {
					if !zeroLenSlice(v) && !collectedFromEmpty(v) {
						resetOK = false
					}
				}
			}
		}
	}
	_ = collected
	rep.Check(found && resetOK, "C07.Q1", fn(f)+" resets the intermediate slice per bucket", r.P.Pos(f.Pos()), "the slice carried to the next root bucket is a zero-length reslice", "the intermediate slice is not emptied between root buckets: entries of earlier buckets are visited again")
}

func feedsAppend(phi *ssa.Phi) bool {
	seen := map[ssa.Value]bool{}
	var walk func(v ssa.Value, d int) bool
	walk = func(v ssa.Value, d int) bool {
		if seen[v] || d > 6 {
			return false
		}
		seen[v] = true
		for _, ref := range *v.Referrers() {
			switch x := ref.(type) {
			case *ssa.Call:
				if core.IsBuiltinCall(x) == "append" {
					return true
				}
				// handed to a helper that appends to its parameter
				if cal := core.Callee(x); cal != nil && cal.Blocks != nil {
					for ai, a := range x.Call.Args {
						if a == v && ai < len(cal.Params) && walk(cal.Params[ai], d+1) {
							return true
						}
					}
				}
			case *ssa.Phi:
				if walk(x, d+1) {
					return true
				}
			case *ssa.Slice:
				// entries[:0] handed on to the collecting code
				if walk(x, d+1) {
					return true
				}
			}
		}
		return false
	}
	return walk(phi, 0)
}

func zeroLenSlice(v ssa.Value) bool {
	switch x := v.(type) {
	case *ssa.Slice:
		if x.High != nil {
			if k, ok := core.ConstInt(x.High); ok && k == 0 {
				return true
			}
		}
	case *ssa.MakeSlice:
		if k, ok := core.ConstInt(x.Len); ok && k == 0 {
			return true
		}
	case *ssa.Const:
		return x.Value == nil
	}
	return false
}

// collectedFromEmpty: the slice is what a collecting helper returns for this root bucket after having been handed a
// zero-length reslice to append to (entries = snapshotBucket(&buckets[i], entries[:0])): nothing of an earlier bucket
// is in it.
func collectedFromEmpty(v ssa.Value) bool {
	c, ok := v.(*ssa.Call)
	if !ok {
		return false
	}
	cal := core.Callee(c)
	if cal == nil || cal.Blocks == nil {
		return false
	}
	for i, a := range c.Call.Args {
		if !zeroLenSlice(a) || i >= len(cal.Params) {
			continue
		}
		// every return of the helper is the parameter itself or appends to it
		okAll, n := true, 0
		visiting := map[ssa.Value]bool{}
		var derives func(x ssa.Value, d int) bool
		derives = func(x ssa.Value, d int) bool {
			if d > 24 {
				return false
			}
			switch y := x.(type) {
			case *ssa.Parameter:
				return y == cal.Params[i]
			case *ssa.Phi:
				if visiting[y] {
					return true // a loop-carried slice: judged by its other operands
				}
				visiting[y] = true
				for _, e := range y.Edges {
					if e != ssa.Value(y) && !derives(e, d+1) {
						return false
					}
				}
				return true
			case *ssa.Call:
				if core.IsBuiltinCall(y) == "append" {
					return derives(y.Call.Args[0], d+1)
				}
			}
			return false
		}
		core.Instrs(cal, func(in ssa.Instruction) {
			if ret, isRet := in.(*ssa.Return); isRet && len(ret.Results) == 1 {
				n++
				if !derives(ret.Results[0], 0) {
					okAll = false
				}
			}
		})
		if okAll && n > 0 {
			return true
		}
	}
	return false
}

// derivesFromIndexed: the value is read (through field loads, helper calls, conversions) from an element
// addressed by an IndexAddr into a slice.
func derivesFromIndexed(v ssa.Value, depth int) bool {
	if depth > 8 {
		return false
	}
	v = core.StripConv(v)
	switch x := v.(type) {
	case *ssa.IndexAddr:
		_, isSlice := x.X.Type().Underlying().(*types.Slice)
		return isSlice
	case *ssa.UnOp:
		return derivesFromIndexed(x.X, depth+1)
	case *ssa.FieldAddr:
		return derivesFromIndexed(x.X, depth+1)
	case *ssa.Field:
		return derivesFromIndexed(x.X, depth+1) // e := entries[j]; e.key
	case *ssa.Alloc:
		// a local copy of one collected element (e := entries[j])
		if st := uniqueStore(x); st != nil {
			return derivesFromIndexed(st.Val, depth+1)
		}
	case *ssa.Call:
		if len(x.Call.Args) == 1 {
			return derivesFromIndexed(x.Call.Args[0], depth+1)
		}
	}
	return false
}

// stopsTraversal: on the edge where the visitor's result is false, every path reaches a return without another visitor call.
func stopsTraversal(iff *ssa.If, negated bool, visitor *ssa.Parameter) bool {
	stop := iff.Block().Succs[1]
	if negated {
		stop = iff.Block().Succs[0]
	}
	ok := true
	sawReturn := false
	seen := map[*ssa.BasicBlock]bool{}
	// boolean flag variables set to a constant on the way (stop = true; break ... if stop { return }) are followed: a
	// branch on a flag whose value is known on this path takes only that edge
	var walk func(b, prev *ssa.BasicBlock, env map[ssa.Value]bool)
	walk = func(b, prev *ssa.BasicBlock, env map[ssa.Value]bool) {
		if seen[b] {
			return
		}
		seen[b] = true
		env2 := map[ssa.Value]bool{}
		for k, v := range env {
			env2[k] = v
		}
		for _, in := range b.Instrs {
			phi, isPhi := in.(*ssa.Phi)
			if !isPhi {
				break
			}
			delete(env2, phi)
			for i, p := range b.Preds {
				if p == prev && i < len(phi.Edges) {
					if c, isC := core.ConstBool(phi.Edges[i]); isC {
						env2[phi] = c
					} else if v, known := env[phi.Edges[i]]; known {
						env2[phi] = v
					}
				}
			}
		}
		for _, in := range b.Instrs {
			if c, isC := in.(ssa.CallInstruction); isC && c.Common().Value == ssa.Value(visitor) {
				ok = false
			}
			if _, isR := in.(*ssa.Return); isR {
				sawReturn = true
			}
		}
		if i2, isIf := b.Instrs[len(b.Instrs)-1].(*ssa.If); isIf {
			cond := i2.Cond
			neg := false
			if u, isU := cond.(*ssa.UnOp); isU && u.Op == token.NOT {
				cond, neg = u.X, true
			}
			if v, known := env2[cond]; known {
				if v != neg {
					walk(b.Succs[0], b, env2)
				} else {
					walk(b.Succs[1], b, env2)
				}
				return
			}
		}
		for _, s := range b.Succs {
			walk(s, b, env2)
		}
	}
	walk(stop, iff.Block(), map[ssa.Value]bool{})
	return ok && sawReturn
}

// c07Q2: the fields of one collected element are loaded from the same slot index of the same bucket.
func c07Q2(r *Run, rep *core.Report, mm *core.MapModel, f *ssa.Function, app ssa.CallInstruction) {
	args := app.Common().Args
	if len(args) < 2 {
		return
	}
	// the variadic argument is a slice of a freshly allocated array whose element fields are stored just before
	sl, ok := args[1].(*ssa.Slice)
	if !ok {
		return
	}
	arr, ok := sl.X.(*ssa.Alloc)
	if !ok {
		return
	}
	type src struct {
		bucket ssa.Value
		index  ssa.Value
	}
	var srcs []src
	var slotAddr ssa.Instruction
	var visit func(v ssa.Value)
	visit = func(v ssa.Value) {
		for _, ref := range *v.Referrers() {
			switch x := ref.(type) {
			case *ssa.IndexAddr:
				visit(x)
			case *ssa.FieldAddr:
				visit(x)
			case *ssa.Store:
				if x.Addr == v {
					// the address of a slot instead of its content: the word is read later, outside the lock
					switch a := core.StripConv(x.Val).(type) {
					case *ssa.IndexAddr:
						if isBucketOwner(r, core.Addr(a).Owner) {
							slotAddr = x
						}
					case *ssa.FieldAddr:
						if isBucketOwner(r, core.Addr(a).Owner) {
							slotAddr = x
						}
					}
					if ld, isLd := core.StripConv(x.Val).(*ssa.UnOp); isLd && ld.Op == token.MUL {
						if ia, isIA := ld.X.(*ssa.IndexAddr); isIA && isBucketOwner(r, core.Addr(ia).Owner) {
							srcs = append(srcs, src{bucketOfAddr(ia), ia.Index})
						}
						// whole-struct copy from a composite literal built in a local
						if lit, isA := ld.X.(*ssa.Alloc); isA && lit != arr {
							visit(lit)
						}
					}
				}
			}
		}
	}
	visit(arr)
	if slotAddr != nil {
		rep.Fail("C07.Q2", fn(f)+" collects slot contents, not slot addresses", r.P.InstrPos(slotAddr), "the entry collected under the bucket lock holds the address of a bucket slot instead of the pointer read from it: the slot is read again after the lock is released, when it may belong to another key - the visitor would see a key with another key's value")
		return
	}
	if len(srcs) < 2 {
		return // single-pointer layout: nothing to pair
	}
	same := true
	for _, s := range srcs[1:] {
		if s.bucket != srcs[0].bucket || s.index != srcs[0].index {
			same = false
		}
	}
	rep.Check(same, "C07.Q2", fn(f)+" key/value pair from one slot", r.P.InstrPos(app), "the collected key and value pointers come from the same slot of the same bucket", "a collected entry pairs a key pointer and a value pointer from different slots or buckets: the visitor would see a key with another key's value")
}

// ---- Q3: cache-level Range / Items (role evaluation) ----

func c07Q3(r *Run, rep *core.Report) {
	n := 0
	for twin := 0; twin < 2; twin++ {
		for _, name := range []string{"Range", "Items"} {
			mp := methodPaths(r, twin, name)
			if undecidedPaths(r, rep, "C07.Q0", mp) {
				continue
			}
			rep.Fn(fn(mp.Fn))
			pos := r.P.Pos(mp.Fn.Pos())
			// reference rows: nil visitor ignored before any map operation; visitor / Items store only for an entry
			// that tested unexpired, with that entry's key and value; verdict propagated; skipped entries continue
			tableCheck(r, rep, "C07.Q3", mp)
			var bad []string
			for i := range mp.Paths {
				p := &mp.Paths[i]
				n++
				for _, ev := range p.Events {
					if ev.Kind != "usercall" && ev.Kind != "itemsstore" {
						continue
					}
					terms := append([]*sym.Term{}, ev.Args...)
					if ev.Key != nil {
						terms = append(terms, ev.Key)
					}
					for _, t := range terms {
						for _, x := range mapolds(t) {
							st := itemStatus(p.PC, x)
							switch {
							case st.Status != "live":
								bad = append(bad, fmt.Sprintf("the visitor / Items map receives an entry whose expiry status on the path is '%s' (%s)", st.Status, sym.DescribePC(p.PC)))
							case st.Clock != nil && !clockInCall(st.Clock):
								bad = append(bad, "the expiry filter compares against "+st.Clock.String()+", which is not a clock reading made inside this call (cached, defaulted or caller-supplied timestamp)")
							case st.Shape != "":
								bad = append(bad, st.Shape)
							}
						}
					}
				}
			}
			msg := ""
			if len(bad) > 0 {
				msg = bad[0]
			}
			rep.Check(len(bad) == 0, "C07.Q3", fn(mp.Fn)+" visits only unexpired entries", pos, "every visited / recorded entry tested unexpired against a clock read in this call", msg)
		}
	}
	rep.MinCount("C07.Q3", "abstract paths of Range / Items", n, 10)
}

// fromParam: the value is a parameter of cl, a field of one, or a load of a local copy of one.
func fromParam(cl *ssa.Function, v ssa.Value) bool {
	for d := 0; d < 8 && v != nil; d++ {
		v = core.StripConv(v)
		switch x := v.(type) {
		case *ssa.Parameter:
			for _, p := range cl.Params {
				if p == x {
					return true
				}
			}
			return false
		case *ssa.UnOp:
			v = x.X
		case *ssa.FieldAddr:
			v = x.X
		case *ssa.Field:
			v = x.X
		case *ssa.TypeAssert:
			v = x.X
		case *ssa.Alloc:
			// local copy: exactly one store, of a parameter-derived value
			var st *ssa.Store
			n := 0
			for _, ref := range *x.Referrers() {
				if s, ok := ref.(*ssa.Store); ok && s.Addr == ssa.Value(x) {
					st = s
					n++
				}
			}
			if n != 1 {
				return false
			}
			v = st.Val
		default:
			return false
		}
	}
	return false
}

// clockFromCall: the timestamp value used inside closure cl derives from time.Now() executed in the
// enclosing method f (captured cell written once from a time.Now() chain) or inside cl itself.
func clockFromCall(f, cl *ssa.Function, mc *ssa.MakeClosure, v ssa.Value) bool {
	isNowChain := func(x ssa.Value) bool {
		for d := 0; d < 6 && x != nil; d++ {
			x = core.StripConv(x)
			c, ok := x.(*ssa.Call)
			if !ok {
				return false
			}
			if core.CalleeID(c) == "time.Now" {
				return true
			}
			if len(c.Call.Args) == 0 {
				return false
			}
			x = c.Call.Args[0]
		}
		return false
	}
	v = core.StripConv(v)
	if isNowChain(v) {
		return true
	}
	if ld, ok := v.(*ssa.UnOp); ok {
		if fv, ok := ld.X.(*ssa.FreeVar); ok {
			for bi, x := range cl.FreeVars {
				if x != fv || bi >= len(mc.Bindings) {
					continue
				}
				al, ok := mc.Bindings[bi].(*ssa.Alloc)
				if !ok {
					return false
				}
				n, good, dom := 0, 0, false
				for _, ref := range *al.Referrers() {
					if st, ok := ref.(*ssa.Store); ok && st.Addr == ssa.Value(al) {
						n++
						if isNowChain(st.Val) {
							good++
							if core.Dominates(st, mc) {
								dom = true // assigned on every path before the traversal starts
							}
						}
					}
				}
				return n > 0 && n == good && dom
			}
		}
	}
	return false
}

// c07Q1Collect: every occupied slot met by the scan is collected. A slot that tested non-nil must reach an append
// to the intermediate slice before the scan moves to the next slot, follows the chain link or releases the lock: a
// collect guarded by anything else (room left in the pre-allocated slice, a hash filter, a counter) silently skips
// entries that are present for the whole traversal.
func c07Q1Collect(r *Run, rep *core.Report, f *ssa.Function) {
	isSlotLoad := func(v ssa.Value) bool {
		v = core.StripConv(v)
		if c, isCall := v.(*ssa.Call); isCall {
			// the slot read through its typed-atomic method (b.keys[i].Load()) or the function form
			if op, addr, isAt := core.AtomicOp(c); isAt && op == "Load" {
				if k, _ := slotKind(r, addr); k == "slot" {
					return true
				}
				if ia, isIA := addr.(*ssa.IndexAddr); isIA && isBucketOwner(r, core.Addr(ia).Owner) {
					return true
				}
			}
			return false
		}
		ld, ok := v.(*ssa.UnOp)
		if !ok || ld.Op != token.MUL {
			return false
		}
		ia, ok := ld.X.(*ssa.IndexAddr)
		return ok && isBucketOwner(r, core.Addr(ia).Owner)
	}
	type st struct{ Pending bool }
	m := &core.Machine[st]{P: r.P, Fn: f, Spec: core.Spec{}, Inline: helperInline(r)}
	bad := ""
	var badIn ssa.Instruction
	nTests := 0
	report := func(in ssa.Instruction, what string) {
		if bad == "" {
			bad = "an occupied slot (tested non-nil) is not collected on a path that " + what + ": the entry is present for the whole traversal and never visited"
			badIn = in
		}
	}
	m.Step = func(ctx *core.Ctx[st], s st, in ssa.Instruction) []st {
		if c, ok := in.(ssa.CallInstruction); ok {
			if core.IsBuiltinCall(c) == "append" {
				s.Pending = false
				return []st{s}
			}
			if ev := r.M.LockEventOf(in); ev != nil && ev.Class == "bucket" && !ev.Acquire && s.Pending {
				report(in, "releases the bucket lock")
				s.Pending = false
			}
		}
		if _, isRet := in.(*ssa.Return); isRet && s.Pending && ctx.Frame == nil {
			report(in, "returns")
		}
		return []st{s}
	}
	m.Edge = func(ctx *core.Ctx[st], s st, from *ssa.BasicBlock, idx int) (st, bool) {
		iff, ok := from.Instrs[len(from.Instrs)-1].(*ssa.If)
		if !ok {
			return s, true
		}
		cond := iff.Cond
		neg := false
		for {
			if u, isU := cond.(*ssa.UnOp); isU && u.Op == token.NOT {
				neg = !neg
				cond = u.X
				continue
			}
			break
		}
		b, isB := cond.(*ssa.BinOp)
		if !isB || (b.Op != token.EQL && b.Op != token.NEQ) {
			return s, true
		}
		for _, pair := range [][2]ssa.Value{{b.X, b.Y}, {b.Y, b.X}} {
			if !core.IsNilConst(pair[1]) || !isSlotLoad(pair[0]) {
				continue
			}
			// a new slot test while the previous occupied slot is still uncollected
			if s.Pending {
				report(iff, "moves on to the next slot")
				s.Pending = false
			}
			nTests++
			nonNilOnTrue := (b.Op == token.NEQ) != neg
			if (idx == 0) == nonNilOnTrue {
				s.Pending = true
			}
			return s, true
		}
		// the chain-link test ends the scan of this bucket
		if s.Pending {
			for _, pair := range [][2]ssa.Value{{b.X, b.Y}, {b.Y, b.X}} {
				if core.IsNilConst(pair[1]) && linkValue(r, pair[0], 0) {
					report(iff, "follows the chain link")
					s.Pending = false
				}
			}
		}
		return s, true
	}
	m.Run()
	pos := r.P.Pos(f.Pos())
	if badIn != nil {
		pos = r.P.InstrPos(badIn)
	}
	if nTests == 0 {
		rep.Undecided("C07.Q1", fn(f)+" collects every occupied slot", pos, "no nil test of a bucket slot found in the traversal")
		return
	}
	rep.Check(bad == "", "C07.Q1", fn(f)+" collects every occupied slot", pos, "every slot that tests non-nil reaches an append to the intermediate slice before the scan moves on", bad)
}

// c07Q6: the traversal ends only where it must: every return of Range is reached either because the bucket array is
// exhausted (a loop-bound test against its length / a range step), because the visitor said stop, or because there is
// no visitor (nil). A return behind any other condition - a budget of entries to visit taken from the size counter, a
// deadline, a flag - skips entries that were present all along.
func c07Q6(r *Run, rep *core.Report, mm *core.MapModel) {
	f := mm.Methods["Range"]
	if f == nil {
		return
	}
	fns := []*ssa.Function{f}
	isVisitorCall := func(v ssa.Value) bool {
		for {
			if u, ok := v.(*ssa.UnOp); ok && u.Op == token.NOT {
				v = u.X
				continue
			}
			break
		}
		c, ok := v.(*ssa.Call)
		if !ok || core.Callee(c) != nil || c.Call.IsInvoke() {
			return false
		}
		_, isP := c.Call.Value.(*ssa.Parameter)
		return isP
	}
	var lenBased func(v ssa.Value, d int) bool
	lenBased = func(v ssa.Value, d int) bool {
		if d > 6 {
			return false
		}
		switch x := core.StripConv(v).(type) {
		case *ssa.Call:
			// the length of the bucket array (not of the collected entries or anything else)
			if core.IsBuiltinCall(x) == "len" && len(x.Call.Args) == 1 {
				if sl, ok := x.Call.Args[0].Type().Underlying().(*types.Slice); ok && isBucketType(r, sl.Elem()) {
					return true
				}
			}
			return false
		case *ssa.BinOp:
			return lenBased(x.X, d+1) || lenBased(x.Y, d+1)
		case *ssa.Extract:
			_, isNext := x.Tuple.(*ssa.Next)
			return isNext
		case *ssa.Phi:
			for _, e := range x.Edges {
				if lenBased(e, d+1) {
					return true
				}
			}
		}
		return false
	}
	// visitorDerived: the visitor's verdict itself, its negation, a comparison of it with a boolean constant, or a flag
	// variable that only ever holds constants and such verdicts (stop := false; ...; stop = !f(k, v))
	var visitorDerived func(v ssa.Value, d int) bool
	visitorDerived = func(v ssa.Value, d int) bool {
		if d > 5 {
			return false
		}
		if isVisitorCall(v) {
			return true
		}
		switch x := v.(type) {
		case *ssa.UnOp:
			return x.Op == token.NOT && visitorDerived(x.X, d+1)
		case *ssa.BinOp:
			if x.Op != token.EQL && x.Op != token.NEQ {
				return false
			}
			_, cx := x.X.(*ssa.Const)
			_, cy := x.Y.(*ssa.Const)
			return cx && visitorDerived(x.Y, d+1) || cy && visitorDerived(x.X, d+1)
		case *ssa.Phi:
			n := 0
			for _, e := range x.Edges {
				if _, isC := e.(*ssa.Const); isC || e == ssa.Value(x) {
					continue
				}
				if !visitorDerived(e, d+1) {
					return false
				}
				n++
			}
			return n > 0
		}
		return false
	}
	okCond := func(cond ssa.Value) bool {
		if visitorDerived(cond, 0) {
			return true
		}
		v := cond
		for {
			if u, ok := v.(*ssa.UnOp); ok && u.Op == token.NOT {
				v = u.X
				continue
			}
			break
		}
		if b, ok := v.(*ssa.BinOp); ok {
			// nil visitor
			for _, pair := range [][2]ssa.Value{{b.X, b.Y}, {b.Y, b.X}} {
				if _, isP := core.StripConv(pair[0]).(*ssa.Parameter); isP && core.IsNilConst(pair[1]) {
					return true
				}
			}
			return lenBased(b, 0)
		}
		if ex, ok := v.(*ssa.Extract); ok {
			_, isNext := ex.Tuple.(*ssa.Next)
			return isNext
		}
		return false
	}
	n := 0
	for _, g := range fns {
		core.Instrs(g, func(in ssa.Instruction) {
			ret, ok := in.(*ssa.Return)
			if !ok {
				return
			}
			n++
			// the branches through which the return's block is entered (walking back over unconditional edges)
			bad := ""
			seen := map[*ssa.BasicBlock]bool{}
			var back func(b *ssa.BasicBlock, depth int)
			back = func(b *ssa.BasicBlock, depth int) {
				if seen[b] || depth > 8 {
					return
				}
				seen[b] = true
				for _, p := range b.Preds {
					if iff, ok := p.Instrs[len(p.Instrs)-1].(*ssa.If); ok {
						// a flag variable holding constants only (stop := false; ... stop = true; break; ... if stop { return }):
						// what matters is how the assignments of the value that leads here are reached
						if phi, isPhi := iff.Cond.(*ssa.Phi); isPhi {
							want := p.Succs[0] == b
							allConst, handled := true, false
							for _, e := range phi.Edges {
								if _, isC := core.ConstBool(e); !isC {
									allConst = false
								}
							}
							if allConst {
								for i, e := range phi.Edges {
									if c, _ := core.ConstBool(e); c == want && i < len(phi.Block().Preds) {
										handled = true
										seen[p] = true
										back(phi.Block().Preds[i], depth+1)
										// the assigning block itself may end in the deciding branch's target: judge how it is entered
									}
								}
								if handled {
									continue
								}
							}
						}
						if !okCond(iff.Cond) && bad == "" {
							bad = "the return at " + r.P.InstrPos(ret) + " is taken on a condition (" + iff.Cond.String() + " at " + r.P.InstrPos(iff) + ") that is neither the end of the bucket array nor the visitor's verdict"
						}
						continue
					}
					back(p, depth+1)
				}
			}
			back(ret.Block(), 0)
			rep.Check(bad == "", "C07.Q6", fmt.Sprintf("%s exit#%d ends the traversal only when it must", fn(g), exitOrdinals(g)[ret]), r.P.InstrPos(ret), "reached at the end of the bucket array or on the visitor's false", bad+": entries present during the whole traversal can be skipped")
		})
	}
	rep.MinCount("C07.Q6", "returns of "+fn(f), n, 1)
}

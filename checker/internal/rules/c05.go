package rules

import (
	"fmt"

	"cachelint/internal/core"
	"cachelint/internal/sym"

	"golang.org/x/tools/go/ssa"
)

func init() {
	Registry["C05"] = C05
	Metas["C05"] = Meta{
		Explanation: "Decides the structural clauses of C05 on every path of the compute core under each constant mode (Store/LoadAndStore/LoadAndDelete/Delete, LoadOrStore/LoadOrCompute, Compute): (F1) the user function is called at most once per call including across internal retries, exactly once in the unconditional modes, and in the load-if-exists mode exactly on the returns that report loaded=false and never on those reporting loaded=true; (F2) it is called with the bucket lock held and the post-lock validation passed, told loaded=true only after a key-equality hit and loaded=false only at the end of the chain, and its result is committed before the lock is released; (F3) the API wrappers select the documented mode and LoadOrCompute's adapter calls the user's function exactly once; (F4, cache layer) each get-or-create / read-modify-write method decides through an atomic read-modify-write of the underlying map, never mutates unconditionally after an observation, and on every evaluated abstract path calls the user's function at most once (exactly once for Compute) and only inside the read-modify-write closure. Restated premises: (F5) equal keys hash equally (C10.H); (F6) the expiry predicates have the canonical shape (C01.T1); (F7) the post-lock validation, the copy and every slot write respect the bucket lock (C03/C04 P3, P5, P6); (F8) the cache's own lazy deletions and sweeps remove only an entry they judged expired under the key's lock (C02.U2). NOT decided: that the lock serialises (C13/C14/C03 decide its shape), schedules.",
		Rule:        "one obligation per (rule, specialisation, exit | call site | wrapper); non-trivial = decided by exploring the product of the CFG with the call-count/lock/validation automaton",
		Assumptions: []string{"C13 (lock pairing) and C03/C04 (protocol shape) hold", "the mode parameters are compile-time constants at every call site (checked)"},
	}
}

// documented modes of the map API: (loadIfExists, computeOnly)
var wrapperModes = map[string][2]bool{
	"Store": {false, false}, "LoadAndStore": {false, false}, "LoadAndDelete": {false, false}, "Delete": {false, false},
	"LoadOrStore": {true, false}, "LoadOrCompute": {true, false}, "Compute": {false, true},
}

func C05(r *Run) *core.Report {
	rep := core.NewReport("C05")
	if !modelOK(r, rep, "C05.F0") {
		return rep
	}
	nExits, nCalls := 0, 0
	for _, mm := range r.M.Maps {
		rep.Fn(fn(mm.Core))
		specs := specsFor(r, mm.Core)
		for _, sp := range specs {
			cf := coreFlow(r, mm, sp)
			rep.Spec(cf.Name)
			ords := exitOrdinals(mm.Core)
			li, liKnown := modeFlag(mm, sp, 0)
			nCalls += cf.NFnCallsReached
			// F1 per exit
			type ek struct {
				ret *ssa.Return
			}
			worst := map[*ssa.Return]string{}
			seenRet := map[*ssa.Return]bool{}
			var order []*ssa.Return
			for _, ex := range cf.Exits {
				if !seenRet[ex.Ret] {
					seenRet[ex.Ret] = true
					order = append(order, ex.Ret)
				}
				msg := ""
				switch {
				case !liKnown:
					msg = "mode parameter is not constant"
				case !li && ex.S.Calls != 1:
					msg = fmt.Sprintf("the user function is called %d times on a path to this return; this mode promises exactly once", ex.S.Calls)
				case li && ex.Ret1 == "true" && ex.S.Calls != 0:
					msg = "this return reports loaded=true although the user function was called on the path (it must run only when the call reports loaded=false)"
				case li && ex.Ret1 == "false" && ex.S.Calls != 1:
					msg = fmt.Sprintf("this return reports loaded=false but the user function was called %d times on the path", ex.S.Calls)
				case li && ex.Ret1 == "?":
					msg = "loaded result does not fold to a constant under this mode"
				}
				if msg != "" && worst[ex.Ret] == "" {
					worst[ex.Ret] = msg + " | path: " + fmt.Sprint(ex.Trace)
				}
			}
			for _, ret := range order {
				nExits++
				c := fmt.Sprintf("%s exit#%d", cf.Name, ords[ret])
				rep.Check(worst[ret] == "", "C05.F1", c, r.P.InstrPos(ret), "call count matches the mode's promise on every path to this return", worst[ret])
			}
			for _, fd := range cf.tagged("F1") {
				rep.Fail("C05.F1", cf.Name+" second call", r.P.InstrPos(fd.Instr), fd.Msg, cf.M.Trace(fd.At)...)
			}
			// F2
			f2 := cf.tagged("F2")
			for _, fd := range f2 {
				rep.Fail("C05.F2", cf.Name+" atomic section", r.P.InstrPos(fd.Instr), fd.Msg, cf.M.Trace(fd.At)...)
			}
			if len(f2) == 0 {
				rep.Pass("C05.F2", cf.Name+" atomic section", r.P.Pos(mm.Core.Pos()), "user function runs under the validated bucket lock with a truthful loaded flag; results are committed before release")
			}
		}
		rep.Check(len(specs) == 3, "C05.F3", fn(mm.Core)+" modes", r.P.Pos(mm.Core.Pos()), "three constant mode tuples at the call sites", fmt.Sprintf("%d mode tuples found at the call sites of the compute core, the API defines three", len(specs)))
		// F3 wrappers
		for name, want := range wrapperModes {
			w := mm.Methods[name]
			if w == nil {
				continue
			}
			rep.Fn(fn(w))
			found := false
			if c, host := coreCallOf(mm, w, 0); c != nil {
				in := c.(ssa.Instruction)
				found = true
				var got []bool
				constOK := true
				for i, a := range c.Common().Args {
					if i < len(mm.Core.Params) && isBoolParam(mm.Core.Params[i]) {
						b, isC := core.ConstBool(a)
						if !isC {
							constOK = false
							rep.Fail("C05.F3", fn(w)+" mode", r.P.InstrPos(in), "mode argument is not a constant")
						}
						got = append(got, b)
					}
				}
				if constOK {
					okm := len(got) == 2 && got[0] == want[0] && got[1] == want[1]
					rep.Check(okm, "C05.F3", fn(w)+" mode", r.P.InstrPos(in), fmt.Sprintf("reaches the core with (loadIfExists,computeOnly)=%v", want),
						fmt.Sprintf("reaches the compute core with mode %v, the operation's contract needs %v (e.g. a get-or-create that does not load-if-exists overwrites the winner's value)", got, want))
					for i, a := range c.Common().Args {
						if i < len(mm.Core.Params) && isFuncTyped(mm.Core.Params[i].Type()) {
							c05adapter(r, rep, host, w, a, in)
						}
					}
				}
			}
			if !found {
				rep.Fail("C05.F3", fn(w)+" mode", r.P.Pos(w.Pos()), "wrapper does not reach the compute core")
			}
		}
	}
	rep.MinCount("C05.F1", "explored core exits", nExits, 20)
	rep.MinCount("C05.F2", "user-function call sites reached (over modes)", nCalls, 8)
	c05F4(r, rep)
	// F5: 'present' means present for ==: keys that compare equal hash equal, otherwise a get-or-create on an equal key
	// misses the live value and runs the function again (restated from the hasher rules of C10)
	// F6: in the cache layer 'a live value exists' is decided by the expiry predicates; they must have the canonical
	// shape (e > 0 && now > e), or a get-or-create treats a live value as gone and runs the function (restated from C01.T1)
	tmp := core.NewReport("C05")
	c01T1(r, tmp)
	n6 := borrow(rep, tmp, "C05.F6", "C01.T1")
	rep.MinCount("C05.F6", "premise obligations (expiry predicates)", n6, 2)
	// F7: 'under the key's lock' means under a lock that a resize respects: the post-lock validation sees every running
	// resize and the copy waits for every bucket's lock (restated from C03/C04 P3, P6) - otherwise an insert made under the
	// lock is lost and a second caller creates the value again
	// ... and every write of a slot is made under that lock (P5): a lock-free overwrite is not ordered with a running
	// read-modify-write, whose result then replaces it (a lost update)
	n7 := borrow(rep, mapProtocol(r, "C03", 0), "C05.F7", "C03.P3", "C03.P5", "C03.P6", "C03.P10", "C03.P12")
	n7 += borrow(rep, mapProtocol(r, "C04", 1), "C05.F7", "C04.P3", "C04.P5", "C04.P6", "C04.P10", "C04.P12")
	rep.MinCount("C05.F7", "premise obligations (validation and copy respect the lock)", n7, 8)
	// F8: 'nobody else writes that key' includes the cache's own lazy deletion and sweeps: they remove only an entry
	// they judged expired under the key's lock, or the value the one creator stored is dropped by a concurrent reader
	// and the next caller creates it again (restated from C02.U2)
	n8 := 0
	for _, o := range C02(r).Obs {
		if o.Trivial || o.Rule != "C02.U2" {
			continue
		}
		c := *o
		c.Construct = "[" + o.Rule + "] " + o.Construct
		c.Rule = "C05.F8"
		rep.Obs = append(rep.Obs, &c)
		n8++
	}
	rep.MinCount("C05.F8", "premise obligations (removals judge under the lock)", n8, 60)
	n5 := borrow(rep, C10(r), "C05.F5", "C10.H")
	rep.MinCount("C05.F5", "premise obligations (hash agrees with ==)", n5, 4)
	return rep
}

func isBoolParam(p *ssa.Parameter) bool {
	b, ok := core.ConstBool(ssa.NewConst(nil, p.Type()))
	_ = b
	_ = ok
	return typeName(p.Type()) == "bool"
}

// modeFlag returns the constant of the idx-th bool parameter of the core under sp.
func modeFlag(mm *core.MapModel, sp core.Spec, idx int) (bool, bool) {
	n := 0
	for _, p := range mm.Core.Params {
		if typeName(p.Type()) == "bool" {
			if n == idx {
				return constBoolOf(sp, p)
			}
			n++
		}
	}
	return false, false
}

// c05adapter: the function value a wrapper hands to the core is the user's own function, or a closure
// that calls the user's function exactly once on every path (or not at all for the constant adapters).
func c05adapter(r *Run, rep *core.Report, host, w *ssa.Function, arg ssa.Value, at ssa.Instruction) {
	if _, isP := core.StripConv(arg).(*ssa.Parameter); isP {
		rep.Pass("C05.F3", fn(w)+" adapter", r.P.InstrPos(at), "passes the user's function itself")
		return
	}
	cl, _ := funcOfValue(arg, 0)
	switch {
	case cl != nil:
		// count dynamic calls of captured function values on every path
		userWrapper := false
		for _, p := range host.Params {
			if isFuncTyped(p.Type()) {
				userWrapper = true
			}
		}
		if cl.Signature.Recv() != nil && userWrapper {
			// method value adapter: it wraps the user's function only if its receiver carries a function
			userWrapper = isFuncTyped(cl.Signature.Recv().Type().Underlying()) // a named function type: the receiver is the function
			if st := core.StructOf(cl.Signature.Recv().Type()); st != nil {
				for i := 0; i < st.NumFields(); i++ {
					if isFuncTyped(st.Field(i).Type()) {
						userWrapper = true
					}
				}
			}
		}
		m := &core.Machine[int]{P: r.P, Fn: cl, Spec: core.Spec{}}
		bad := ""
		m.Step = func(ctx *core.Ctx[int], s int, in ssa.Instruction) []int {
			if c, ok := in.(ssa.CallInstruction); ok && core.Callee(c) == nil && !c.Common().IsInvoke() && core.IsBuiltinCall(c) == "" {
				s++
				if s > 1 {
					bad = "adapter can call the user function twice"
					return nil
				}
			}
			if _, ok := in.(*ssa.Return); ok {
				if userWrapper && s != 1 {
					bad = fmt.Sprintf("adapter calls the user function %d times on some path (exactly once expected)", s)
				}
				if !userWrapper && s != 0 {
					bad = "constant adapter calls a function value"
				}
			}
			return []int{s}
		}
		m.Run()
		rep.Check(bad == "", "C05.F3", fn(w)+" adapter", r.P.InstrPos(at), "adapter closure calls the user's function exactly once (or is a constant adapter)", bad)
	default:
		rep.Undecided("C05.F3", fn(w)+" adapter", r.P.InstrPos(at), "function argument of unmodelled form")
	}
}

// c05F4 (cache layer): every get-or-create / read-modify-write method decides through an atomic read-modify-write
// of the underlying map and never issues an unconditional mutation after an observation (check-then-act, decided on
// the call order); on every abstract path (role evaluation) the user's function is called at most once - exactly once
// for Compute - and only from inside the closure of a read-modify-write operation, i.e. under the key's lock.
func c05F4(r *Run, rep *core.Report) {
	n := 0
	for i := 0; i < 2; i++ {
		for _, name := range []string{"GetOrSet", "GetAndSet", "GetAndRefresh", "GetOrCompute", "Compute"} {
			f := r.M.CacheM[i][name]
			if f == nil {
				continue
			}
			rep.Fn(fn(f))
			n++
			toctouCheck(r, rep, "C05.F4", []*ssa.Function{f})
			mp := methodPaths(r, i, name)
			if undecidedPaths(r, rep, "C05.F0", mp) {
				continue
			}
			hasRMW := false
			bad := ""
			hasUserFn := false
			for _, p := range f.Params {
				if isFuncTyped(p.Type()) {
					hasUserFn = true
				}
			}
			for pi := range mp.Paths {
				p := &mp.Paths[pi]
				calls := 0
				for _, ev := range p.Events {
					switch ev.Kind {
					case "mapop":
						if ev.Name == "Compute" || ev.Name == "LoadOrCompute" || ev.Name == "LoadOrStore" || ev.Name == "LoadAndStore" {
							hasRMW = true
						}
					case "usercall":
						calls++
						if ev.InOp == 0 && bad == "" {
							bad = "the user's function is called at " + ev.Pos + " outside the closure of a read-modify-write operation of the underlying map (not under the key's lock): it can run while a live value exists or race with a concurrent store (path: " + sym.DescribePC(p.PC) + ")"
						}
					}
				}
				if hasUserFn {
					switch {
					case calls > 1 && bad == "":
						bad = fmt.Sprintf("the user's function is called %d times on one path (%s)", calls, sym.DescribePC(p.PC))
					case name == "Compute" && calls != 1 && bad == "":
						bad = fmt.Sprintf("Compute calls the user's function %d times on a path (exactly once promised; path: %s)", calls, sym.DescribePC(p.PC))
					}
				}
			}
			rep.Check(hasRMW, "C05.F4", fn(f)+" atomic read-modify-write", r.P.Pos(f.Pos()), "decides through an atomic read-modify-write of the underlying map", "no atomic read-modify-write operation of the underlying map is used: the method cannot be atomic per key")
			if hasUserFn {
				rep.Check(bad == "", "C05.F4", fn(f)+" user function once, under the key's lock", r.P.Pos(f.Pos()), fmt.Sprintf("on all %d paths the user's function runs at most once (exactly once for Compute), inside the read-modify-write closure", len(mp.Paths)), bad)
			}
		}
	}
	rep.MinCount("C05.F4", "cache read-modify-write methods", n, 10)
}

package rules

import (
	"fmt"
	"go/constant"
	"go/types"
	"regexp"
	"sort"
	"strconv"
	"strings"

	"cachelint/internal/core"
	"cachelint/internal/sym"

	"golang.org/x/tools/go/ssa"
)

func init() {
	Registry["C01"] = C01
	Metas["C01"] = Meta{
		Explanation: "Decides, for every public method of both cache implementations and on every abstract path (absent / live / expired state of the key x outcomes of user functions x nil-ness of callback and visitor), the per-call clauses of C01 by role evaluation (abstract interpretation of the method's SSA with the underlying map operations replaced by their contract): (T1) the expiry predicates decide exactly 'e > 0 and now > e' with a clock read in the call (or the caller-supplied reading for the with-now variant); every expiry decision taken anywhere in a method has that canonical shape and uses a clock reading made during the call, and an entry that a read-modify-write treats as live and hands out (result, user function, re-armed item) was compared with a reading made inside that operation's closure, i.e. after the key's lock was taken, and the reading an entry is judged with was made before any evicted callback or user function the call runs after having observed it; (T2) no value or expiration instant of an item obtained from the map reaches an API output - a result, an argument of the user's function or visitor, the Items map - unless that very item tested unexpired on the path (callback arguments are exempt: callbacks report removed, possibly expired, values); (T3) each method's decision table - abstract state of the key as seen by the deciding map operation -> (map effect, returned roles, user calls, callbacks) - equals the reviewed TTL-map reference table; (T4) an entry is removed because of expiry only when it tested expired (Delete and GetAndDelete remove whatever is there by contract, whichever map operation they use; their per-state behaviour is T3's); (T5) the premises the tables rest on are restated from their own rule families: the map-operation contract (C11.L1-L3) and the integrity of entries across grow / shrink / Clear (C03/C04 P4, P6, P8, P10); (T6, 386 configuration) the 64-bit words updated atomically are aligned (C14.A7). The per-path rules T2/T4 and the canonical-shape rule also run over exported methods added beyond the reviewed list, wherever the evaluator models them completely. NOT decided: sequences of calls (each call is checked against the contract of the map operations, whose own shape is decided in C03/C04/C11), clock behaviour, int64 overflow of now+d.",
		Rule:        "one obligation per (rule, method, abstract path or table row); non-trivial = the verdict depended on at least one evaluated path; paths are partitioned by the branch atoms the method tests",
		Assumptions: []string{"the map-operation contract used by the evaluator (checked against the compute core by C11.L1 on the same run)", "user functions are pure with respect to the cache"},
	}
}

var cachePublic = []string{"Set", "SetDefault", "SetForever", "Get", "GetWithExpiration", "GetWithTTL", "GetOrSet", "GetAndSet", "GetAndRefresh", "GetOrCompute", "Compute", "GetAndDelete", "Delete", "DeleteExpired", "Range", "Items", "Clear", "Count", "DefaultExpiration", "SetDefaultExpiration", "EvictedCallback", "SetEvictedCallback"}

func C01(r *Run) *core.Report {
	rep := core.NewReport("C01")
	if !modelOK(r, rep, "C01.T0") {
		return rep
	}
	c01T1(r, rep)
	nPaths := 0
	names, extra := cacheMethodList(r)
	for twin := 0; twin < 2; twin++ {
		for _, name := range names {
			mp := methodPaths(r, twin, name)
			if extra[name] {
				// an API addition: no reference table; the per-path rules apply where the method is modelled completely
				if !cleanPaths(mp) {
					continue
				}
			} else if undecidedPaths(r, rep, "C01.T0", mp) {
				continue
			}
			rep.Fn(fn(mp.Fn))
			nPaths += len(mp.Paths)
			c01T2T4(r, rep, mp)
			if !extra[name] {
				tableCheck(r, rep, "C01.T3", mp)
			}
		}
	}
	rep.MinCount("C01.T2", "abstract paths evaluated", nPaths, 150)
	// T5: premises - the map-operation contract the tables are evaluated against, and the integrity of
	// entries across resize / Clear ("an unexpired value is never dropped by ... internal table resizing")
	n := borrow(rep, C11(r), "C01.T5", "C11.L1", "C11.L2", "C11.L3", "C11.L6")
	n += borrow(rep, mapProtocol(r, "C03", 0), "C01.T5", "C03.P3", "C03.P4", "C03.P6", "C03.P8", "C03.P10", "C03.P12", "C03.P14")
	n += borrow(rep, mapProtocol(r, "C04", 1), "C01.T5", "C04.P3", "C04.P4", "C04.P6", "C04.P8", "C04.P10", "C04.P12", "C04.P14")
	rep.MinCount("C01.T5", "premise obligations (map contract, resize integrity)", n, 60)
	// T6 (32-bit layout only): the 64-bit words that the maps and the cache objects update atomically are 8-byte
	// aligned - otherwise the first such access panics there and a value-returning call reports nothing at all
	// (restated from C14.A7)
	if r.P.GOARCH == "386" {
		n6 := borrow(rep, C14(r), "C01.T6", "C14.A7")
		rep.MinCount("C01.T6", "premise obligations (64-bit atomic operands aligned on 386)", n6, 2)
	}
	return rep
}

// c01T1: the predicate functions on the item types.
func c01T1(r *Run, rep *core.Report) {
	n := 0
	for _, f := range r.P.Funcs {
		if f.Pkg != r.P.Cache || f.Signature.Recv() == nil || f.Parent() != nil {
			continue
		}
		rn := core.NamedOf(f.Signature.Recv().Type())
		if !r.M.IsItemRecv(rn) {
			continue
		}
		if f.Signature.Results().Len() != 1 || typeName(f.Signature.Results().At(0).Type()) != "bool" {
			continue
		}
		n++
		if rn == r.M.ItemEmb[0] && rn == r.M.ItemEmb[1] {
			n++ // a predicate on the embedded expiration shared by both item types serves both twins
		}
		rep.Fn(fn(f))
		it := newInterp(r, false)
		paths := it.Run(f)
		okAll := len(paths) > 0
		why := ""
		withNow := len(f.Params) == 2
		// a result that is itself a comparison term stands for both of its outcomes
		var expanded []sym.Path
		for _, p := range paths {
			ret, negRet := (*sym.Term)(nil), false
			if len(p.Ret) == 1 {
				ret = p.Ret[0]
				for ret.Op == "not" && len(ret.Args) == 1 {
					ret, negRet = ret.Args[0], !negRet
				}
			}
			if ret != nil && ret.Op == "cmp" {
				for _, v := range []bool{true, false} {
					q := p
					q.PC = append(append([]sym.Atom(nil), p.PC...), sym.Atom{T: ret, V: v})
					q.Ret = []*sym.Term{sym.Bool(v != negRet)}
					expanded = append(expanded, q)
				}
			} else {
				expanded = append(expanded, p)
			}
		}
		paths = expanded
		nParts, nNeg, whyNeg := 0, 0, ""
		for _, p := range paths {
			if len(p.Problems) > 0 {
				okAll, why = false, "unmodelled: "+p.Problems[0]
				continue
			}
			b, isC := p.Ret[0].BoolVal()
			if !isC {
				okAll, why = false, "result is not decided by comparisons only: "+p.Ret[0].String()
				continue
			}
			sign, clock := (*bool)(nil), (*bool)(nil)
			for i := range p.PC {
				a := p.PC[i]
				if a.T.Op != "cmp" || a.T.K != ">" {
					okAll, why = false, "non-canonical comparison "+a.T.String()+" (the predicate must be exactly: e > 0 and now > e)"
					continue
				}
				l, rr := a.T.Args[0], a.T.Args[1]
				isE := func(t *sym.Term) bool { return t.Op == "field" && t.K == "e" }
				switch {
				case isE(l) && rr.IsZero():
					v := a.V
					sign = &v
				case isE(rr):
					v := a.V
					clock = &v
					if withNow {
						if l.Op != "param" {
							okAll, why = false, "the with-now variant must compare the caller-supplied reading, found "+l.String()
						}
					} else if !clockInCall(l) {
						okAll, why = false, "the predicate must compare a clock reading made in this call (time.Now().UnixNano()), found "+l.String()
					}
				default:
					okAll, why = false, "unexpected comparison "+a.T.String()
				}
			}
			want := sign != nil && *sign && clock != nil && *clock
			nParts++
			if b != want {
				nNeg++
				whyNeg = fmt.Sprintf("on the partition [%s] the predicate returns %v, 'e > 0 and now > e' is %v", sym.DescribePC(p.PC), b, want)
			}
			if sign == nil {
				okAll, why = false, "the predicate does not test e > 0 first: an item without expiration (e = 0) would be compared against the clock"
			}
		}
		// a liveness predicate - the exact complement of the expiry predicate on every partition ("e <= 0 || now <= e") - says the
		// same thing with the other polarity; its callers are judged on the comparisons it makes (the evaluator looks through
		// it). A predicate that is the complement on some partitions only deviates.
		if nNeg > 0 && !(okAll && nNeg == nParts) {
			okAll, why = false, whyNeg
		}
		rep.Check(okAll, "C01.T1", fn(f)+" decides e>0 && now>e", r.P.Pos(f.Pos()), fmt.Sprintf("%d partitions, all equal to 'e > 0 and now > e' (strictly later)", len(paths)), "expiry predicate deviates: "+why)
	}
	rep.MinCount("C01.T1", "expiry predicate functions", n, 2)
}

// outputsOf lists the API outputs of a path: (description, term).
func outputsOf(p *sym.Path) [][2]interface{} {
	var out [][2]interface{}
	for i, t := range p.Ret {
		out = append(out, [2]interface{}{fmt.Sprintf("result #%d", i), t})
	}
	for _, ev := range p.Events {
		switch ev.Kind {
		case "usercall":
			for i, a := range ev.Args {
				out = append(out, [2]interface{}{fmt.Sprintf("argument #%d of the user's function %s at %s", i, ev.Name, ev.Pos), a})
			}
		case "itemsstore":
			out = append(out, [2]interface{}{"value stored into the Items map at " + ev.Pos, ev.Args[0]})
		}
	}
	return out
}

func c01T2T4(r *Run, rep *core.Report, mp *MethodPaths) {
	bad := map[string]string{}
	badShape := map[string]string{}
	badT4 := map[string]string{}
	for i := range mp.Paths {
		p := &mp.Paths[i]
		// T2: item values in outputs must be known-live
		for _, o := range outputsOf(p) {
			t := o[1].(*sym.Term)
			for _, x := range mapolds(t) {
				st := itemStatus(p.PC, x)
				if st.Status != "live" {
					k := o[0].(string)
					if _, dup := bad[k]; !dup {
						bad[k] = fmt.Sprintf("%s carries a value of the item observed by map operation #%s whose expiry status on this path is '%s' (path: %s): an expired value can be reported", k, x.K, st.Status, sym.DescribePC(p.PC))
					}
				}
			}
		}
		// T1 (global form): every expiry decision on the path is canonical and uses an in-call clock
		for _, ev := range p.Events {
			if ev.Kind != "mapop" {
				continue
			}
			x := sym.Leaf("mapold", fmt.Sprint(ev.N))
			st := itemStatus(p.PC, x)
			if st.Shape != "" {
				badShape[st.Shape] = st.Shape
			}
			if st.Clock != nil && !clockInCall(st.Clock) {
				badShape["clock"] = "an expiry decision compares against " + st.Clock.String() + ", which is not a clock reading made during this call (cached or caller-supplied timestamp)"
			}
			// T1 (freshness under the lock): an entry that a read-modify-write treats as LIVE must have been compared
			// with a clock reading made inside that operation's closure - a reading taken before the operation waited
			// for the key's lock may be arbitrarily old: a value that expired during the wait is returned / re-armed.
			// (Treating an entry as expired on an older reading is safe - it is expired now as well - and Range / Items
			// filter on the reading taken at traversal start by definition.)
			if ev.PCTo > ev.PCFrom && st.Status == "live" && st.Clock != nil {
				inside := false
				for _, a := range p.PC[ev.PCFrom:min(ev.PCTo, len(p.PC))] {
					if a.T.Op == "cmp" && len(a.T.Args) == 2 && (a.T.Args[0] == st.Clock || a.T.Args[0].String() == st.Clock.String()) && a.T.Args[1].String() == sym.Mk("field", "e", x).String() {
						inside = true
					}
				}
				// ... and the entry's value must go somewhere because of that judgement: into a result, the user's function,
				// the Items map, or a re-armed item (merely keeping the entry as it is - DeleteExpired's re-check - hands
				// nothing out)
				isX := func(t *sym.Term) bool {
					return t != nil && t.Contains(func(y *sym.Term) bool { return y.Op == "mapold" && y.K == x.K })
				}
				used := ev.Stored != nil && ev.Stored.Op != "mapold" && isX(ev.Stored)
				for _, o := range outputsOf(p) {
					if isX(o[1].(*sym.Term)) {
						used = true
					}
				}
				if k, ok := clockIndex(st.Clock); ok && inside && used && k <= ev.ClockBefore {
					badShape["staleclock"] = fmt.Sprintf("the entry observed by the %s at %s is judged unexpired inside the operation's closure against clock reading #%d, which was taken before the operation began (it may have waited for the key's lock since): a value that expired meanwhile is treated as live", ev.Name, ev.Pos, k)
				}
			}
			// T1 (no user code before the judgement): the clock reading an entry's expiry is judged with was made before any
			// evicted callback or user function that this call runs after having observed the entry - user code may take
			// arbitrarily long, and an entry that was live when it was observed (removed, returned) would be reported expired
			if st.Clock != nil && ev.Name != "Range" && ev.InRange == 0 {
				if k, ok := clockIndex(st.Clock); ok {
					after := false
					for _, e2 := range p.Events {
						if e2.Kind == "mapop" && e2.N == ev.N {
							after = true
							continue
						}
						if after && (e2.Kind == "callback" || e2.Kind == "usercall") && e2.InOp != ev.N && e2.InRange == 0 && e2.ClockBefore < k {
							badShape["lateclock"] = fmt.Sprintf("the expiry of the entry observed by the %s at %s is judged against clock reading #%d, made after the %s at %s ran: user code can take arbitrarily long, so an entry that was live when it was observed is reported expired", ev.Name, ev.Pos, k, e2.Kind, e2.Pos)
						}
					}
				}
			}
			// T4: physical removal motivated by expiry only of an entry that tested expired.
			// Explicit removers (LoadAndDelete/Delete operations, user-requested deletes) are exempt.
			// So are the removing methods themselves (Delete, GetAndDelete): removing whatever is there is their contract,
			// whichever map operation they use for it; what they do per key state is the decision table's matter (T3).
			if ev.Effect == "delete" && ev.Loaded == 1 && ev.Name == "Compute" && !userDeleted(p, &ev) && !explicitRemover[mp.Name] && st.Status != "expired" {
				badT4[ev.Pos] = fmt.Sprintf("the entry observed by the Compute at %s is deleted on a path where it did not test expired (status '%s'; path: %s): an unexpired value can be dropped by lazy deletion / cleanup", ev.Pos, st.Status, sym.DescribePC(p.PC))
			}
		}
	}
	cons := fn(mp.Fn)
	pos := r.P.Pos(mp.Fn.Pos())
	if len(bad) == 0 {
		rep.Pass("C01.T2", cons+" live-guard", pos, fmt.Sprintf("on all %d paths every item value that reaches an output tested unexpired on that path", len(mp.Paths)))
	}
	for _, k := range sortedKeysS(bad) {
		rep.Fail("C01.T2", cons+" live-guard: "+strings.SplitN(k, " at ", 2)[0], pos, bad[k])
	}
	if len(badShape) == 0 {
		rep.Pass("C01.T1", cons+" expiry decisions canonical", pos, "every expiry decision is 'e > 0 and now > e' against a clock read in this call")
	}
	for _, k := range sortedKeysS(badShape) {
		rep.Fail("C01.T1", cons+" expiry decision shape", pos, badShape[k])
	}
	if len(badT4) == 0 {
		rep.Pass("C01.T4", cons+" removal only of expired entries", pos, "every expiry-motivated removal is of an entry that tested expired")
	}
	for _, k := range sortedKeysS(badT4) {
		rep.Fail("C01.T4", cons+" removal of an untested/live entry", k, badT4[k])
	}
}

func sortedKeysS(m map[string]string) []string {
	var s []string
	for k := range m {
		s = append(s, k)
	}
	sort.Strings(s)
	return s
}

// userDeleted: the delete decision of this Compute came from the user's function (its delete flag is an atom
// added while the closure ran).
// explicitRemover: the cache methods whose contract is to remove the key's entry whatever its state.
var explicitRemover = map[string]bool{"Delete": true, "GetAndDelete": true}

func userDeleted(p *sym.Path, ev *sym.Event) bool {
	for i := ev.PCFrom; i < ev.PCTo && i < len(p.PC); i++ {
		if p.PC[i].T.Op == "uret" && p.PC[i].V {
			return true
		}
	}
	return false
}

// tableCheck compares the method's normalised decision table with the reviewed reference table.
func tableCheck(r *Run, rep *core.Report, rule string, mp *MethodPaths) {
	want, ok := goldenTables[mp.Name]
	if !ok {
		return
	}
	got := normTable(mp)
	want = expandUntested(want)
	mask := func(method, class, outcome string) string {
		// expiration(d) of a constant d that is not positive and is not the DefaultExpiration sentinel is 0 - 'never
		// expires' (the partition C09.X1 checks on the expiration function itself): an item stored with e = 0 directly
		// is the same store
		outcome = canonExp(r, outcome)
		// the first result of Compute when the user's function asks for deletion is not fixed by the
		// property or the interface comments: don't-care (constrained only by twin agreement, C12)
		if method == "Compute" && strings.Contains(class, "user=true") {
			if i := strings.Index(outcome, "return("); i >= 0 {
				rest := outcome[i+len("return("):]
				if j := strings.LastIndex(rest, ","); j >= 0 {
					return outcome[:i] + "return(_," + rest[j+1:]
				}
			}
		}
		return outcome
	}
	pos := r.P.Pos(mp.Fn.Pos())
	classes := map[string]bool{}
	for c := range want {
		classes[c] = true
	}
	for c := range got {
		classes[c] = true
	}
	var cs []string
	for c := range classes {
		cs = append(cs, c)
	}
	sort.Strings(cs)
	// a method whose reference does not depend on the key's state (one row "-": Set stores whatever is there) may be
	// written so that it does look at the entry (a store through the locked read-modify-write): every row it then has
	// must carry exactly the reference's outcome
	if len(want) == 1 && len(want["-"]) > 0 && len(got["-"]) == 0 && len(got) > 0 {
		refined := map[string][]string{}
		okRefine := true
		for c, os := range got {
			for _, o := range os {
				found := false
				for _, o2 := range want["-"] {
					if mask(mp.Name, "-", o2) == mask(mp.Name, c, o) {
						found = true
					}
				}
				if !found {
					okRefine = false
				}
			}
			_ = c
		}
		if okRefine {
			refined["-"] = want["-"]
			got = refined
			cs = []string{"-"}
		}
	}
	for _, c := range cs {
		w := map[string]bool{}
		for _, o := range want[c] {
			w[mask(mp.Name, c, o)] = true
		}
		g := map[string]bool{}
		for _, o := range got[c] {
			g[mask(mp.Name, c, o)] = true
		}
		cons := fmt.Sprintf("%s [%s]", fn(mp.Fn), c)
		if len(want[c]) == 0 {
			// a class the reference does not have: acceptable only if it is a refinement that yields outcomes
			// the reference lists for the same abstract key state (prefix before the first space)
			base := strings.SplitN(c, " ", 2)[0]
			okRef := true
			for o := range g {
				found := false
				for c2, os := range want {
					if strings.SplitN(c2, " ", 2)[0] == base {
						for _, o2 := range os {
							if mask(mp.Name, c2, o2) == o {
								found = true
							}
						}
					}
				}
				if !found {
					okRef = false
				}
			}
			rep.Check(okRef, rule, cons, pos, "extra partition whose outcomes the reference lists for the same key state", "the method behaves in a way the reference table does not list for key state "+base+": got "+strings.Join(keysB(g), " | "))
			continue
		}
		same := len(w) == len(g)
		for o := range w {
			if !g[o] {
				same = false
			}
		}
		rep.Check(same, rule, cons, pos, "outcome equals the TTL-map reference: "+strings.Join(keysB(w), " | "),
			"decision table deviates from the TTL-map semantics for key state ["+c+"]: expected {"+strings.Join(keysB(w), " | ")+"}, the code yields {"+strings.Join(keysB(g), " | ")+"}")
	}
}

func keysB(m map[string]bool) []string {
	var s []string
	for k := range m {
		s = append(s, k)
	}
	sort.Strings(s)
	return s
}

var _ = ssa.NewConst

var expConstRe = regexp.MustCompile(`opq:Exp\(const:(-?[0-9]+)\)`)

// canonExp rewrites opq:Exp(const:c) to zero for constants c <= 0 other than the DefaultExpiration sentinel.
func canonExp(r *Run, s string) string {
	if !strings.Contains(s, "opq:Exp(const:") {
		return s
	}
	sentinel, haveSentinel := int64(0), false
	if c, ok := r.P.Cache.Pkg.Scope().Lookup("DefaultExpiration").(*types.Const); ok {
		if v, exact := constant.Int64Val(constant.ToInt(c.Val())); exact {
			sentinel, haveSentinel = v, true
		}
	}
	return expConstRe.ReplaceAllStringFunc(s, func(m string) string {
		sub := expConstRe.FindStringSubmatch(m)
		v, err := strconv.ParseInt(sub[1], 10, 64)
		if err != nil || v > 0 || !haveSentinel || v == sentinel {
			return m
		}
		return "zero"
	})
}

// clockIndex: the ordinal of the clock reading a term is built from (now:k).
func clockIndex(t *sym.Term) (int, bool) {
	idx, found := 0, false
	t.Walk(func(x *sym.Term) {
		if x.Op == "now" && !found {
			if _, err := fmt.Sscanf(x.K, "%d", &idx); err == nil {
				found = true
			}
		}
	})
	return idx, found
}

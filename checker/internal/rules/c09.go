package rules

import (
	"fmt"
	"go/constant"
	"go/token"
	"go/types"
	"strings"

	"cachelint/internal/core"
	"cachelint/internal/sym"

	"golang.org/x/tools/go/ssa"
)

func init() {
	Registry["C09"] = C09
	Metas["C09"] = Meta{
		Explanation: "Decides the clauses of C09 by role evaluation over all sign regions of the TTL argument and of the default: (X1) the TTL computation of each cache implementation returns now+d for d > 0; for d == DefaultExpiration it substitutes the default loaded from the settings during this very call (one load, the same value is tested and added) and returns now+D for D > 0 and 0 (never expires) otherwise; every other d <= 0 yields 0; no other comparison is involved; (X2) every item a method stores carries the expiration computed in that call from that method's own TTL argument (Set / GetAndSet / GetAndRefresh on a live entry / Compute and the storing branches of GetOrSet and GetOrCompute re-arm; SetDefault and SetForever use the documented sentinels), while Get*, Range, Items and the hit branches of GetOrSet / GetOrCompute leave the stored item untouched - as rows of the reviewed reference table; (X3) GetWithExpiration reports Unix(0, e) exactly when e > 0 and the zero time otherwise, GetWithTTL reports Until(Unix(0, e)) exactly when e > 0 and NoExpiration otherwise, both only for an entry that tested unexpired; (X4) settings flow: SetDefaultExpiration stores its argument, the option functions write their own config field from their own argument, the constructor stores the normalised config's default into the setting (never a sibling field), option functions and the NewDefault family write their duration arguments on every path (no value is silently replaced by a default), and NewDefault passes its two durations to the fields of the same name; (X5) a stored (value, deadline) pair is replaced as a whole and a published entry is never written again, so a lock-free reader reports the instant that belongs to the value it reports (restated from C03/C04.P2); (X1 accepts, besides the sentinel test and the sign test of the effective duration, an overflow guard 'now > MaxInt64 - d' answered with 0 and a sign test of the sum); (X6) no duration passes through an integer type narrower than 64 bits on some supported platform (int, uint, int32, ...) on its way back into a duration - decided for every conversion in the cache package with the sizes of the 386 target, by forward value flow through arithmetic, phis and helpers that return their argument. NOT decided: arithmetic at the int64 / time.Time boundaries, wall-clock vs monotonic readings.",
		Rule:        "one obligation per (rule, function, partition or table row); non-trivial = decided from evaluated abstract paths",
		Assumptions: []string{"time.Now / Time.Add / UnixNano / time.Unix / time.Until behave as documented"},
	}
}

func pkgConstInt(r *Run, name string) (int64, bool) {
	c, ok := r.P.Cache.Pkg.Scope().Lookup(name).(*types.Const)
	if !ok {
		return 0, false
	}
	return constant.Int64Val(constant.ToInt(c.Val()))
}

func C09(r *Run) *core.Report {
	rep := core.NewReport("C09")
	if !modelOKFor(r, rep, "C09.X0", "cache") {
		return rep
	}
	defC, ok1 := pkgConstInt(r, "DefaultExpiration")
	noC, ok2 := pkgConstInt(r, "NoExpiration")
	if !ok1 || !ok2 {
		rep.Undecided("C09.X0", "sentinel constants", "-", "exported constants DefaultExpiration / NoExpiration not found")
		return rep
	}
	rep.Check(defC <= 0 && noC <= 0 && defC != noC, "C09.X1", "sentinels are distinct non-positive durations", "-", fmt.Sprintf("DefaultExpiration=%d NoExpiration=%d", defC, noC), fmt.Sprintf("sentinels DefaultExpiration=%d, NoExpiration=%d must be distinct and <= 0 (a positive sentinel would collide with a real TTL)", defC, noC))
	nPart := 0
	for twin := 0; twin < 2; twin++ {
		f := expirationFn(r, twin)
		if f == nil {
			rep.Undecided("C09.X1", fmt.Sprintf("twin%d TTL computation", twin), "-", "no method func(time.Duration) int64 on the cache type")
			continue
		}
		rep.Fn(fn(f))
		it := newInterp(r, false)
		paths := it.Run(f)
		if len(paths) == 0 || it.Overflow {
			rep.Undecided("C09.X1", fn(f), r.P.Pos(f.Pos()), "no return path evaluated")
			continue
		}
		dName := fmt.Sprintf("a%d", len(f.Params)-1)
		for _, p := range paths {
			nPart++
			cons := fmt.Sprintf("%s [%s]", fn(f), stripOrd(sym.DescribePC(p.PC)))
			pos := r.P.Pos(f.Pos())
			if len(p.Problems) > 0 {
				rep.Undecided("C09.X1", cons, pos, p.Problems[0])
				continue
			}
			var isDef *bool
			var dd *sym.Term
			var pos0 *bool
			var ovf, sumPos *bool
			var ovfD *sym.Term
			bad := ""
			for i := range p.PC {
				a := p.PC[i]
				switch {
				case a.T.Op == "cmp" && a.T.K == "==" && involves(a.T, "param", dName) && involvesConst(a.T, defC):
					v := a.V
					isDef = &v
				case a.T.Op == "cmp" && a.T.K == ">" && overflowGuard(a.T) != nil:
					// 'now > MaxInt64 - d' (or 'd > MaxInt64 - now'): the sum would not fit; the only accepted answer on the
					// true edge is 0, which is what the wrapped (negative) sum has always been read as
					v := a.V
					ovf = &v
					ovfD = overflowGuard(a.T)
				case a.T.Op == "cmp" && a.T.K == ">" && a.T.Args[1].IsZero() && a.T.Args[0].Op == "plus":
					// a sign test of the sum itself (a clock before 1970): non-positive is 'never expires'
					v := a.V
					sumPos = &v
				case a.T.Op == "cmp" && a.T.K == ">" && a.T.Args[1].IsZero():
					v := a.V
					pos0 = &v
					dd = a.T.Args[0]
				default:
					bad = "unexpected comparison " + a.T.String() + " in the TTL computation"
				}
			}
			switch {
			case bad != "":
			case isDef == nil:
				bad = "the DefaultExpiration sentinel is not tested on this partition"
			case pos0 == nil:
				bad = "the effective duration is not tested against 0 (d > 0) on this partition"
			case *isDef && !(dd.Op == "aload" && strings.HasPrefix(dd.K, "defaultExpiration")):
				bad = "for d == DefaultExpiration the duration tested is " + dd.String() + ", not the default loaded from the settings in this call"
			case !*isDef && !(dd.Op == "param" && dd.K == dName):
				bad = "for d != DefaultExpiration the duration tested is " + dd.String() + ", not the argument"
			}
			if bad == "" && ovf != nil && (ovfD == nil || dd == nil || ovfD.String() != dd.String()) {
				bad = "the overflow guard tests a duration other than the effective one"
			}
			if bad == "" {
				ret := p.Ret[0]
				if *pos0 && ((ovf != nil && *ovf) || (sumPos != nil && !*sumPos)) {
					if !ret.IsZero() {
						bad = "when now + d is not representable (or not positive) the result must be 0 (never expires), found " + ret.String()
					}
				} else if *pos0 {
					okRet := false
					if ret.Op == "plus" && len(ret.Args) == 2 {
						for i := 0; i < 2; i++ {
							o := ret.Args[1-i]
							if ret.Args[i].String() == dd.String() && o.Op == "unixnano" && o.Args[0].Op == "now" {
								okRet = true
							}
						}
					}
					if !okRet {
						bad = "for a positive duration " + dd.String() + " the result must be (clock reading of this call) + that same duration, found " + ret.String()
					}
				} else if !ret.IsZero() {
					bad = "for a non-positive duration the result must be 0 (never expires), found " + ret.String()
				}
			}
			rep.Check(bad == "", "C09.X1", cons, pos, "result is now+d for d>0 (d = the default of this call when d == DefaultExpiration), else 0", bad)
		}
	}
	rep.MinCount("C09.X1", "partitions of the TTL computation", nPart, 8)
	// X2 / X3: reference rows + direct re-arm rule
	rearm := []string{"Set", "SetDefault", "SetForever", "GetOrSet", "GetAndSet", "GetAndRefresh", "GetOrCompute", "Compute", "Get", "Range", "Items"}
	for twin := 0; twin < 2; twin++ {
		for _, name := range rearm {
			mp := methodPaths(r, twin, name)
			if undecidedPaths(r, rep, "C09.X0", mp) {
				continue
			}
			rep.Fn(fn(mp.Fn))
			tableCheck(r, rep, "C09.X2", mp)
			// direct rule: the expiration of every stored fresh item is Exp(<this method's TTL argument>)
			wantArg := ""
			for pi, prm := range mp.Fn.Params {
				if strings.HasSuffix(typeName(prm.Type()), "Duration") {
					wantArg = fmt.Sprintf("param:a%d", pi)
				}
			}
			switch name {
			case "SetDefault":
				wantArg = fmt.Sprintf("const:%d", defC)
			case "SetForever":
				wantArg = fmt.Sprintf("const:%d", noC)
			}
			bad := ""
			for i := range mp.Paths {
				p := &mp.Paths[i]
				for _, ev := range p.Events {
					if ev.Kind != "mapop" || ev.Effect != "store" || ev.Stored == nil {
						continue
					}
					if ev.Stored.Op == "mapold" && ev.Stored.K == fmt.Sprint(ev.N) {
						continue // unchanged
					}
					e := sym.Mk("field", "e", ev.Stored)
					okE := e.Op == "opq" && strings.HasPrefix(e.K, "Exp") && len(e.Args) == 1 && normTerm(e.Args[0]) == wantArg
					if !okE && e.IsZero() && canonExp(r, "opq:Exp("+wantArg+")") == "zero" {
						okE = true // the TTL computation of a non-positive constant other than the sentinel is 0: stored directly
					}
					if !okE && bad == "" {
						bad = fmt.Sprintf("the item stored at %s carries expiration %s; it must be the TTL computation of this call applied to %s (path: %s)", ev.Pos, stripOrd(normTerm(e)), wantArg, sym.DescribePC(p.PC))
					}
				}
			}
			rep.Check(bad == "", "C09.X2", fn(mp.Fn)+" stored expiration", r.P.Pos(mp.Fn.Pos()), "every stored fresh item carries Exp("+wantArg+") of this call; untouched items are stored back unchanged", bad)
		}
		for _, name := range []string{"GetWithExpiration", "GetWithTTL", "DefaultExpiration", "SetDefaultExpiration"} {
			mp := methodPaths(r, twin, name)
			if undecidedPaths(r, rep, "C09.X0", mp) {
				continue
			}
			rule := "C09.X3"
			if strings.Contains(name, "Default") {
				rule = "C09.X4"
			}
			tableCheck(r, rep, rule, mp)
		}
	}
	c09X4(r, rep)
	// X5: the instant reported belongs to the value reported: a stored (value, deadline) pair is replaced as a whole
	// and a published entry is never written again, so a lock-free reader cannot pair the value of one store with the
	// deadline of another or see a half-written deadline on a 32-bit platform (restated from C03/C04.P2)
	n5 := 0
	for i, mm := range r.M.Maps {
		tmp := core.NewReport("C09")
		p2Unique(r, tmp, []string{"C03", "C04"}[i], mm)
		n5 += borrow(rep, tmp, "C09.X5", "C03.P2", "C04.P2")
	}
	rep.MinCount("C09.X5", "premise obligations (stored pairs are replaced whole)", n5, 3)
	c09X6(r, rep, "C09.X6")
	return rep
}

// c09X6: a duration does not pass through an integer type that is narrower than 64 bits on some supported platform
// (int, uint, uintptr, int32, ...) on its way back into a duration: time.Duration(clamp(int(d), 0)) is the identity on
// amd64 and truncates nanosecond counts above ~2.1 s on 32-bit platforms (an interval of 3 s becomes 0, a negative one
// positive). Decided for every conversion in the cache package by forward value flow (arithmetic, phis, helper calls
// that return their argument); the sizes are those of the 386 target whatever the host.
func c09X6(r *Run, rep *core.Report, rule string) {
	sizes := types.SizesFor("gc", "386")
	isDuration := func(t types.Type) bool { return typeName(t) == "time.Duration" || typeName(t) == "Duration" }
	narrow := func(t types.Type) bool {
		b, ok := t.Underlying().(*types.Basic)
		return ok && b.Info()&types.IsInteger != 0 && sizes.Sizeof(t) < 8
	}
	nConv := 0
	for _, f := range r.P.Funcs {
		if f.Pkg != r.P.Cache || f.Blocks == nil {
			continue
		}
		core.Instrs(f, func(in ssa.Instruction) {
			cv, ok := in.(*ssa.Convert)
			if !ok {
				return
			}
			if isDuration(cv.Type()) || isDuration(cv.X.Type()) {
				nConv++
			}
			if !isDuration(cv.X.Type()) || !narrow(cv.Type()) {
				return
			}
			// forward flow of the narrowed value
			seen := map[ssa.Value]bool{}
			var back ssa.Instruction
			var flow func(v ssa.Value, depth int)
			flow = func(v ssa.Value, depth int) {
				if v == nil || seen[v] || depth > 8 || back != nil || v.Referrers() == nil {
					return
				}
				seen[v] = true
				for _, ref := range *v.Referrers() {
					switch y := ref.(type) {
					case *ssa.Convert:
						if isDuration(y.Type()) {
							back = y
							return
						}
						flow(y, depth+1)
					case *ssa.BinOp:
						flow(y, depth+1)
					case *ssa.Phi:
						flow(y, depth+1)
					case *ssa.ChangeType:
						flow(y, depth+1)
					case *ssa.Call:
						cal := core.Callee(y)
						if cal == nil || cal.Blocks == nil {
							continue
						}
						for ai, a := range y.Call.Args {
							if a != v || ai >= len(cal.Params) {
								continue
							}
							// does the callee hand the parameter back?
							prm := cal.Params[ai]
							returnsIt := false
							core.Instrs(cal, func(in2 ssa.Instruction) {
								ret, isRet := in2.(*ssa.Return)
								if !isRet {
									return
								}
								for _, res := range ret.Results {
									var reach func(x ssa.Value, d int) bool
									vis := map[ssa.Value]bool{}
									reach = func(x ssa.Value, d int) bool {
										x = core.StripConv(x)
										if x == ssa.Value(prm) {
											return true
										}
										if vis[x] || d > 6 {
											return false
										}
										vis[x] = true
										switch z := x.(type) {
										case *ssa.Phi:
											for _, e := range z.Edges {
												if reach(e, d+1) {
													return true
												}
											}
										case *ssa.BinOp:
											return reach(z.X, d+1) || reach(z.Y, d+1)
										}
										return false
									}
									if reach(res, 0) {
										returnsIt = true
									}
								}
							})
							if returnsIt {
								flow(y, depth+1)
							}
						}
					}
				}
			}
			flow(cv, 0)
			cons := fmt.Sprintf("%s duration through %s", fn(f), typeName(cv.Type()))
			rep.Check(back == nil, rule, cons, r.P.InstrPos(in), "the narrowed value does not come back as a duration",
				"a time.Duration is converted to "+typeName(cv.Type())+" (32 bits on 32-bit platforms) and the result flows back into a time.Duration: nanosecond counts above about 2.1 s are truncated there - an interval or TTL changes its value, possibly its sign")
		})
	}
	_ = nConv
	nFn := 0
	for _, f := range r.P.Funcs {
		if f.Pkg == r.P.Cache && f.Blocks != nil {
			nFn++
		}
	}
	// (today's tree has no such conversion at all: the guard is on what was scanned; seeded/C15-* holds the positive example)
	rep.MinCount(rule, "functions of the cache package scanned for narrowing conversions of durations", nFn, 40)
}

// overflowGuard: t is 'unixnano(now) > MaxInt64 - d' or 'd > MaxInt64 - unixnano(now)' with the constant exactly the
// largest int64 (a guard written with a platform-sized maximum is not one on 32-bit platforms: it is reported as an
// unexpected comparison there); the duration term d is returned.
func overflowGuard(t *sym.Term) *sym.Term {
	if t == nil || t.Op != "cmp" || t.K != ">" || len(t.Args) != 2 {
		return nil
	}
	l, r := t.Args[0], t.Args[1]
	if r.Op != "minus" || len(r.Args) != 2 {
		return nil
	}
	if c, ok := r.Args[0].IntVal(); !ok || r.Args[0].Op != "const" || c != 9223372036854775807 {
		return nil
	}
	isNow := func(x *sym.Term) bool { return x.Op == "unixnano" && len(x.Args) == 1 && x.Args[0].Op == "now" }
	switch {
	case isNow(l) && !isNow(r.Args[1]):
		return r.Args[1]
	case isNow(r.Args[1]) && !isNow(l):
		return l
	}
	return nil
}

func involves(t *sym.Term, op, k string) bool {
	return t.Contains(func(x *sym.Term) bool { return x.Op == op && x.K == k })
}
func involvesConst(t *sym.Term, c int64) bool {
	return t.Contains(func(x *sym.Term) bool { i, ok := x.IntVal(); return ok && i == c && x.Op == "const" })
}

// c09X4: settings flow through options and constructors (def-use, structural).
func c09X4(r *Run, rep *core.Report) {
	optionFlow(r, rep, "C09.X4")
	// constructors: the value stored into the defaultExpiration setting is cfg.DefaultExpiration of the normalised config
	for twin := 0; twin < 2; twin++ {
		ctor := r.M.CacheCtor[twin]
		if ctor == nil {
			continue
		}
		rep.Fn(fn(ctor))
		found := false
		roles := fieldRoles(r)
		// atomic stores of settings: in the constructor itself, or in a setter it calls (the value is then the argument)
		type sstore struct {
			in       ssa.Instruction
			dstField string
			val      ssa.Value
		}
		var stores []sstore
		var collect func(f *ssa.Function, resolve func(ssa.Value) ssa.Value, at ssa.Instruction, depth int)
		collect = func(f *ssa.Function, resolve func(ssa.Value) ssa.Value, at ssa.Instruction, depth int) {
			core.Instrs(f, func(in ssa.Instruction) {
				c, ok := in.(ssa.CallInstruction)
				if !ok {
					return
				}
				id := core.CalleeID(c)
				if strings.HasPrefix(id, "(*sync/atomic.") && strings.HasSuffix(id, ".Store") && len(c.Common().Args) == 2 {
					site := in
					if at != nil {
						site = at
					}
					val := c.Common().Args[1]
					if mi, isMI := val.(*ssa.MakeInterface); isMI {
						val = mi.X
					}
					val = core.StripConv(val)
					if al, isA := val.(*ssa.Alloc); isA {
						if st := uniqueStore(al); st != nil {
							val = core.StripConv(st.Val)
						}
					}
					stores = append(stores, sstore{site, core.Addr(c.Common().Args[0]).Field, resolve(val)})
					return
				}
				if cal := core.Callee(c); cal != nil && cal.Pkg == r.P.Cache && cal.Blocks != nil && depth < 2 && cal != f {
					args := c.Common().Args
					collect(cal, func(v ssa.Value) ssa.Value {
						v = core.StripConv(v)
						if prm, isP := v.(*ssa.Parameter); isP {
							if pi := paramIndexOf(cal, prm); pi >= 0 && pi < len(args) {
								a := args[pi]
								if mi, isMI := a.(*ssa.MakeInterface); isMI {
									a = mi.X
								}
								return resolve(core.StripConv(a))
							}
						}
						return v
					}, func() ssa.Instruction {
						if at != nil {
							return at
						}
						return in
					}(), depth+1)
				}
			})
		}
		collect(ctor, func(v ssa.Value) ssa.Value { return v }, nil, 0)
		for _, ss := range stores {
			in := ss.in
			dst := core.AddrPath{Field: ss.dstField}
			val := ss.val
			ld, isLd := val.(*ssa.UnOp)
			src := ""
			var cfgRoot ssa.Value
			if isLd {
				a := core.Addr(ld.X)
				src = a.Field
				cfgRoot = a.Root
			}
			want := ""
			switch roles[dst.Field] {
			case "defaultExpiration":
				want = "DefaultExpiration"
				found = true
			case "evictedCallback":
				want = "EvictedCallback"
			default:
				continue
			}
			// the config must be the normalised one: the cell is assigned from a call (configDefault) of the constructor's arguments
			normalised := false
			if al, isA := cfgRoot.(*ssa.Alloc); isA {
				if st := uniqueStore(al); st != nil {
					// ... directly, or - when the settings are initialised in a step function that is handed the config -
					// at that function's only call site
					v := st.Val
					for hop := 0; hop < 4 && v != nil; hop++ {
						v = core.StripConv(v)
						if call, isCall := v.(*ssa.Call); isCall {
							if core.Callee(call) != nil && core.Callee(call).Pkg == r.P.Cache {
								normalised = true
							}
							break
						}
						if prm, isP := v.(*ssa.Parameter); isP {
							v = uniqueArgOf(r, prm)
							continue
						}
						if ld2, isLd2 := v.(*ssa.UnOp); isLd2 && ld2.Op == token.MUL {
							if al2, isA2 := ld2.X.(*ssa.Alloc); isA2 {
								if st2 := uniqueStore(al2); st2 != nil {
									v = st2.Val
									continue
								}
							}
						}
						break
					}
				}
			}
			rep.Check(src == want && normalised, "C09.X4", fn(ctor)+" initialises setting "+dst.Field, r.P.InstrPos(in), "setting initialised from the normalised config's "+want,
				"the setting "+dst.Field+" is initialised from "+src+" (normalised config: "+fmt.Sprint(normalised)+"), expected the normalised config's "+want)
		}
		rep.Check(found, "C09.X4", fn(ctor)+" stores the default expiration", r.P.Pos(ctor.Pos()), "constructor stores the default expiration setting", "the constructor does not initialise the default expiration setting (Load would panic / default lost)")
	}
	// duration arguments keep their role from the public API to the config. The roles are fixed by the public
	// signatures (NewDefault(defaultExpiration, cleanupInterval, ...): the first duration is the default expiration, the
	// second the cleanup interval) and by the exported config fields; in between they are followed by value - through
	// in-package calls whose argument is the caller's parameter - never by what a parameter happens to be called.
	roles := durationRoles(r, rep)
	// config fields written from duration parameters: the parameter's role is the field
	for _, f := range r.P.Funcs {
		if f.Pkg != r.P.Cache || f.Parent() != nil || f.Signature.Recv() != nil || f.Signature.Params().Len() < 2 {
			continue
		}
		core.Instrs(f, func(in ssa.Instruction) {
			st, ok := in.(*ssa.Store)
			if !ok {
				return
			}
			p, isP := core.StripConv(st.Val).(*ssa.Parameter)
			if !isP || !strings.HasSuffix(typeName(p.Type()), "Duration") || roles[p] == "" {
				return
			}
			a := core.Addr(st.Addr)
			if !strings.HasPrefix(a.Owner, "Config") {
				return
			}
			rep.Check(a.Field == roles[p], "C09.X4", fn(f)+" stores its "+roles[p]+" argument", r.P.InstrPos(in), "the "+roles[p]+" argument goes to config."+a.Field, "the "+roles[p]+" argument is written to config."+a.Field+": default expiration and cleanup interval are swapped")
		})
	}
}

// durationRoles: which of the two durations each duration parameter of the constructor family carries. Seeds are the
// public signatures; roles follow the values through in-package calls. With rep != nil the call sites are reported.
func durationRoles(r *Run, rep *core.Report) map[*ssa.Parameter]string {
	roles := map[*ssa.Parameter]string{}
	durParams := func(f *ssa.Function) []*ssa.Parameter {
		var out []*ssa.Parameter
		for _, q := range f.Params {
			if strings.HasSuffix(typeName(q.Type()), "Duration") {
				out = append(out, q)
			}
		}
		return out
	}
	for _, f := range r.P.Funcs {
		if f.Pkg != r.P.Cache || f.Parent() != nil || f.Signature.Recv() != nil || f.Object() == nil || !f.Object().Exported() {
			continue
		}
		if dp := durParams(f); len(dp) >= 2 {
			roles[dp[0]], roles[dp[1]] = "DefaultExpiration", "CleanupInterval"
		}
	}
	for changed, round := true, 0; changed && round < 6; round++ {
		changed = false
		for _, f := range r.P.Funcs {
			if f.Pkg != r.P.Cache {
				continue
			}
			core.Instrs(f, func(in ssa.Instruction) {
				c, ok := in.(ssa.CallInstruction)
				if !ok {
					return
				}
				cal := core.Callee(c)
				if cal == nil || cal.Pkg != r.P.Cache || cal.Blocks == nil || len(durParams(cal)) < 2 {
					return
				}
				for i, a := range c.Common().Args {
					p, isP := core.StripConv(a).(*ssa.Parameter)
					if !isP || i >= len(cal.Params) || roles[p] == "" || !strings.HasSuffix(typeName(cal.Params[i].Type()), "Duration") {
						continue
					}
					q := cal.Params[i]
					switch {
					case roles[q] == "":
						roles[q] = roles[p]
						changed = true
					case roles[q] != roles[p]:
						if rep != nil {
							rep.Fail("C09.X4", fn(f)+" passes its "+roles[p]+" argument to "+fn(cal), r.P.InstrPos(in), fmt.Sprintf("the %s argument is passed in the position that other callers (or the public signature) use for the %s: default expiration and cleanup interval are swapped", roles[p], roles[q]))
						}
					default:
						if rep != nil {
							rep.Pass("C09.X4", fn(f)+" passes its "+roles[p]+" argument to "+fn(cal), r.P.InstrPos(in), "duration argument keeps its role ("+roles[p]+")")
						}
					}
				}
			})
		}
	}
	return roles
}

// defaultCtorFlow: a constructor that takes the two durations as arguments (the NewDefault family) hands exactly
// those arguments on: the store of each duration parameter into the config it builds is executed on every path to
// the constructor's return - never skipped for some values (a zero or negative cleanup interval must reach the
// config as it is: it is what disables the janitor; a non-positive default expiration means 'never expires').
// ctorArgVerdict: whether the idx-th duration argument of a default constructor reaches the config unconditionally.
type ctorArgVerdict struct {
	F   *ssa.Function
	Arg int
	OK  bool
}

func defaultCtorFlow(r *Run, rep *core.Report, rule string) []ctorArgVerdict {
	var verdicts []ctorArgVerdict
	roles := durationRoles(r, nil)
	n := 0
	for _, f := range r.P.Funcs {
		if f.Pkg != r.P.Cache || f.Parent() != nil || f.Signature.Recv() != nil {
			continue
		}
		var durs []*ssa.Parameter
		for _, q := range f.Params {
			if strings.HasSuffix(typeName(q.Type()), "Duration") {
				durs = append(durs, q)
			}
		}
		if len(durs) < 2 {
			continue
		}
		stores := map[*ssa.Parameter][]*ssa.Store{}
		builds := false
		core.Instrs(f, func(in ssa.Instruction) {
			st, ok := in.(*ssa.Store)
			if !ok {
				return
			}
			a := core.Addr(st.Addr)
			if !strings.HasPrefix(a.Owner, "Config") {
				return
			}
			builds = true
			if p, isP := core.StripConv(st.Val).(*ssa.Parameter); isP {
				stores[p] = append(stores[p], st)
			}
		})
		if !builds {
			// built on the option functions instead (opts := []Option{WithDefaultExpiration(d), WithCleanupInterval(c)};
			// New(opts...)): each duration goes, on every path, into the option of its kind, and that option value reaches
			// a constructor call. (A function that only passes its arguments on is covered by the role-keeping rule.)
			optCalls := map[*ssa.Parameter][]*ssa.Call{}
			core.Instrs(f, func(in ssa.Instruction) {
				c, ok := in.(*ssa.Call)
				if !ok {
					return
				}
				cal := core.Callee(c)
				if cal == nil || cal.Pkg != r.P.Cache || cal.Object() == nil || !cal.Object().Exported() || !strings.HasPrefix(cal.Name(), "With") || len(c.Call.Args) != 1 {
					return
				}
				if q, isP := core.StripConv(c.Call.Args[0]).(*ssa.Parameter); isP {
					optCalls[q] = append(optCalls[q], c)
				}
			})
			if len(optCalls) == 0 {
				continue
			}
			rep.Fn(fn(f))
			for _, q := range durs {
				n++
				cons := fn(f) + " hands " + fmt.Sprintf("a%d", paramIndexOf(f, q)) + " to the config"
				okq, why := false, "the duration argument "+q.Name()+" is not handed to an option function"
				for _, c := range optCalls[q] {
					dom := true
					core.Instrs(f, func(in ssa.Instruction) {
						if ret, ok := in.(*ssa.Return); ok && !core.Dominates(c, ret) {
							dom = false
						}
					})
					kind := strings.TrimSuffix(strings.TrimPrefix(core.Callee(c).Name(), "With"), "Of")
					switch {
					case roles[q] != "" && kind != roles[q]:
						why = "the " + roles[q] + " argument is handed to the option for " + kind + ": default expiration and cleanup interval are swapped"
					case !dom:
						why = "the duration argument " + q.Name() + " reaches its option only on some paths (for other values the default stays in force): a non-positive cleanup interval no longer disables the janitor / a non-positive default expiration is replaced"
					case !reachesInPackageCall(r, c, 0):
						why = "the option built from " + q.Name() + " is not handed on to a constructor"
					default:
						okq = true
					}
				}
				verdicts = append(verdicts, ctorArgVerdict{f, paramIndexOf(f, q), okq})
				rep.Check(okq, rule, cons, r.P.Pos(f.Pos()), "the argument goes into the option of its kind on every path, and the option reaches the constructor", why)
			}
			continue
		}
		rep.Fn(fn(f))
		for _, q := range durs {
			n++
			cons := fn(f) + " hands " + fmt.Sprintf("a%d", paramIndexOf(f, q)) + " to the config"
			if len(stores[q]) == 0 {
				rep.Fail(rule, cons, r.P.Pos(f.Pos()), "the duration argument "+q.Name()+" is never written to the config the constructor builds")
				verdicts = append(verdicts, ctorArgVerdict{f, paramIndexOf(f, q), false})
				continue
			}
			all := false
			for _, st := range stores[q] {
				dom := true
				core.Instrs(f, func(in ssa.Instruction) {
					if ret, ok := in.(*ssa.Return); ok && !core.Dominates(st, ret) {
						dom = false
					}
				})
				if dom {
					all = true
				}
			}
			verdicts = append(verdicts, ctorArgVerdict{f, paramIndexOf(f, q), all})
			rep.Check(all, rule, cons, r.P.InstrPos(stores[q][0]), "the argument is stored into the config on every path to the return",
				"the duration argument "+q.Name()+" reaches the config only on some paths (it is overridden by a default for other values): a non-positive cleanup interval no longer disables the janitor / a non-positive default expiration is replaced")
		}
	}
	rep.MinCount(rule, "duration arguments of default constructors", n, 4)
	return verdicts
}

// reachesInPackageCall: the value flows - directly, through a slice literal's backing array, append or a phi - into an
// argument of a call of a function of the cache package.
func reachesInPackageCall(r *Run, v ssa.Value, depth int) bool {
	seen := map[ssa.Value]bool{}
	var walk func(v ssa.Value, d int) bool
	walk = func(v ssa.Value, d int) bool {
		if v == nil || seen[v] || d > 8 || v.Referrers() == nil {
			return false
		}
		seen[v] = true
		for _, ref := range *v.Referrers() {
			switch x := ref.(type) {
			case *ssa.Store:
				if x.Val == v {
					// element of a slice literal: continue from the backing array
					root := core.Addr(x.Addr).Root
					if walk(root, d+1) {
						return true
					}
				}
			case *ssa.Slice, *ssa.Phi, *ssa.ChangeType, *ssa.Convert, *ssa.MakeInterface, *ssa.IndexAddr:
				if walk(x.(ssa.Value), d+1) {
					return true
				}
			case *ssa.Call:
				if core.IsBuiltinCall(x) == "append" {
					if walk(x, d+1) {
						return true
					}
					continue
				}
				if cal := core.Callee(x); cal != nil && cal.Pkg == r.P.Cache {
					for _, a := range x.Call.Args {
						if a == v {
							return true
						}
					}
				}
			}
		}
		return false
	}
	return walk(v, depth)
}

// optionFlow: every option function With<Field>[Of](x) returns a closure that stores x - the option's own argument,
// whatever its value - into config.<Field>, on every path.
func optionFlow(r *Run, rep *core.Report, rule string) {
	n := 0
	// option functions: With<Field>[Of](x) returns a function that, applied to a config, replaces exactly
	// config.<Field> by x - decided by evaluating the option constructor and then the function it returns (a function
	// literal, a bound method of a small option type, ...) on a symbolic config
	for _, par := range r.P.Funcs {
		if par.Pkg != r.P.Cache || par.Parent() != nil || par.Signature.Recv() != nil || par.Blocks == nil {
			continue
		}
		if par.Object() == nil || !par.Object().Exported() || !strings.HasPrefix(par.Name(), "With") {
			continue
		}
		if par.Signature.Results().Len() != 1 || !isFuncTyped(par.Signature.Results().At(0).Type()) || len(par.Params) != 1 {
			continue
		}
		n++
		rep.Fn(fn(par))
		want := strings.TrimSuffix(strings.TrimPrefix(par.Name(), "With"), "Of")
		okv, why := true, ""
		judged := 0
		it := newInterp(r, false)
		it.FieldRole = nil
		for _, p := range it.Run(par) {
			if p.Panic {
				continue
			}
			if len(p.Ret) != 1 || p.Ret[0].Op != "closure" {
				okv, why = false, "the option constructor does not return a resolvable function"
				continue
			}
			cl := p.Ret[0]
			cf, _ := cl.Fn.(*ssa.Function)
			if cf == nil || cf.Blocks == nil {
				okv, why = false, "the option constructor does not return a resolvable function"
				continue
			}
			mem := map[int]*sym.Term{}
			for k, v := range p.Mem {
				mem[k] = v
			}
			const cfgCell = 900000
			mem[cfgCell] = sym.Leaf("cfgin", "")
			it2 := newInterp(r, false)
			it2.FieldRole = nil
			for _, q := range it2.RunWith(cf, []*sym.Term{{Op: "cell", K: fmt.Sprint(cfgCell)}}, cl.Bind, mem) {
				if q.Panic {
					continue
				}
				judged++
				after := q.Mem[cfgCell]
				if after == nil || after.Op != "struct" {
					okv, why = false, "writes its field only on some paths (for other argument values the default stays in force)"
					continue
				}
				hit := false
				for i, fname := range after.Names {
					v := after.Args[i]
					if fname == want {
						hit = true
						if v.String() != "param:a0" {
							okv, why = false, "stores "+v.String()+" into config."+want+", which is not the option's own argument"
						}
						continue
					}
					if v.String() != sym.Mk("field", fname, sym.Leaf("cfgin", "")).String() {
						okv, why = false, "writes config field "+fname
					}
				}
				if !hit {
					okv, why = false, "the config has no field "+want
				}
			}
		}
		rep.Check(okv && judged > 0, rule, fn(par)+" sets its own field", r.P.Pos(par.Pos()), "option writes config."+want+" from its own argument", "option function does not write exactly its own config field ("+want+") from its own argument: "+why)
	}
	rep.MinCount(rule, "option functions", n, 8)
}

// c09Normalise: the configuration normaliser the constructors call keeps a default expiration of 1ns or more as it
// is and turns everything below into a value that means 'never expires' (<= 0) - evaluated on one representative per
// region of the constants it compares with. (A default of exactly 1ns that is dropped, or a non-positive one that
// comes out positive, changes when entries stored with DefaultExpiration expire.)
func c09Normalise(r *Run, rep *core.Report) {
	n := 0
	seen := map[*ssa.Function]bool{}
	for twin := 0; twin < 2; twin++ {
		ctor := r.M.CacheCtor[twin]
		if ctor == nil {
			continue
		}
		var norm *ssa.Function
		core.Instrs(ctor, func(in ssa.Instruction) {
			st, ok := in.(*ssa.Store)
			if !ok {
				return
			}
			if _, isAlloc := st.Addr.(*ssa.Alloc); !isAlloc {
				return
			}
			if c, isCall := st.Val.(*ssa.Call); isCall {
				if cal := core.Callee(c); cal != nil && cal.Pkg == r.P.Cache && cal.Blocks != nil && strings.HasPrefix(typeName(st.Val.Type()), "Config") {
					norm = cal
					if o := cal.Origin(); o != nil {
						norm = o
					}
				}
			}
		})
		if norm == nil || seen[norm] {
			continue
		}
		seen[norm] = true
		rep.Fn(fn(norm))
		it := newInterp(r, false)
		paths := it.Run(norm)
		prob := ""
		for _, p := range paths {
			if len(p.Problems) > 0 {
				prob = p.Problems[0]
			}
		}
		if len(paths) == 0 || prob != "" {
			rep.Undecided("C09.X4", fn(norm)+" default expiration normalisation", r.P.Pos(norm.Pos()), "cannot evaluate the normaliser: "+prob)
			continue
		}
		bad := ""
		judged := 0
		total := regionEnvs(paths, func(env map[string]int64) bool {
			var din int64
			have := false
			for k, v := range env {
				if strings.HasPrefix(k, "field:DefaultExpiration(") {
					din, have = v, true
				}
			}
			for k, v := range env {
				if strings.HasPrefix(k, "len(") && v < 1 {
					have = false // no configuration passed: the defaults are returned, nothing is normalised
				}
			}
			if !have {
				return true
			}
			res, e := resultUnder(paths, env)
			if e != "" || len(res) != 1 {
				return true
			}
			out := res[0]
			var dterm *sym.Term
			if out.Op == "struct" {
				for i, nme := range out.Names {
					if nme == "DefaultExpiration" {
						dterm = out.Args[i]
					}
				}
			} else {
				dterm = sym.Mk("field", "DefaultExpiration", out)
			}
			if dterm == nil {
				return true
			}
			dout, ok := evalInt(dterm, env)
			if !ok {
				return true
			}
			judged++
			switch {
			case din >= 1 && dout != din:
				bad = fmt.Sprintf("a configured default expiration of %dns comes out as %dns", din, dout)
			case din < 1 && dout > 0:
				bad = fmt.Sprintf("a configured default expiration of %dns (below 1ns: never expires) comes out as %dns", din, dout)
			}
			return bad == ""
		})
		n += judged
		if judged == 0 && bad == "" {
			// the normaliser never compares the field: it passes through unchanged (any value <= 0 already means 'never expires')
			n++
			rep.Pass("C09.X4", fn(norm)+" default expiration normalisation", r.P.Pos(norm.Pos()), "the default expiration is not compared with anything: it reaches the setting as configured")
			continue
		}
		rep.Check(bad == "" && judged > 0, "C09.X4", fn(norm)+" default expiration normalisation", r.P.Pos(norm.Pos()), fmt.Sprintf("a default >= 1ns is kept, anything below means 'never expires' (%d of %d region representatives carry the field)", judged, total),
			"the configuration normaliser changes the default expiration: "+bad+": entries stored with DefaultExpiration expire at the wrong time or not at all")
	}
	rep.MinCount("C09.X4", "normaliser region representatives judged", n, 2)
}

// uniqueArgOf: the argument passed for a parameter when its function has exactly one static call site.
func uniqueArgOf(r *Run, p *ssa.Parameter) ssa.Value {
	f := p.Parent()
	if f == nil {
		return nil
	}
	idx := paramIndexOf(f, p)
	sites := core.CallSitesOf(r.P.Funcs, f)
	if idx < 0 || len(sites) != 1 || idx >= len(sites[0].Common().Args) {
		return nil
	}
	return sites[0].Common().Args[idx]
}

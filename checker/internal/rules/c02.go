package rules

import (
	"fmt"

	"cachelint/internal/core"
	"cachelint/internal/sym"

	"golang.org/x/tools/go/ssa"
)

func init() {
	Registry["C02"] = C02
	Metas["C02"] = Meta{
		Explanation: "Linearizability of cache histories is NOT decided. Decided is the clause 'each call takes effect atomically': (U1) every method that changes or conditionally keeps an entry decides through operations of the underlying map that are each atomic per key, and on every abstract path at most one of them changes the entry visibly (lazy removal of an expired entry is not a visible change); (U2) no mutation is justified by a stale observation: an unconditional map mutation (Store, LoadAndStore, LoadOrStore, Delete, LoadAndDelete) never follows an earlier observation of the map in the same call (for Range visitors: the snapshot they were handed) - check-then-act - and inside a read-modify-write closure every expiry test that the decision depends on is made on the item that very operation observed under the key's lock, not on an item captured from an earlier Load or snapshot; (U3) the same for the per-entry visitor of DeleteExpired; (U4) the structural premises for 'a completed write is never lost to a table resize and a cleared value never reappears' are restated from C03/C04 (P3-P7); (U5) what each call does per key state is the reviewed decision table (restated from C01.T3 - the statement refers to the sequential semantics of C01). The per-call decision tables themselves are decided in C01 (T3) and the atomicity of the map operations in C03/C04/C05/C13/C14.",
		Rule:        "one obligation per (rule, method | closure); non-trivial = decided from evaluated abstract paths or from the explored call order",
		Assumptions: []string{"each operation of the underlying map is atomic per key (premises decided structurally in C03/C04/C05)"},
	}
}

func C02(r *Run) *core.Report {
	rep := core.NewReport("C02")
	if !modelOK(r, rep, "C02.U0") {
		return rep
	}
	// U2 structural: check-then-act over all cache methods and their closures
	var fns []*ssa.Function
	for _, f := range r.P.Funcs {
		if f.Pkg == r.P.Cache && (f.Signature.Recv() != nil || f.Parent() != nil) {
			root := f
			for root.Parent() != nil {
				root = root.Parent()
			}
			if root.Signature.Recv() != nil {
				fns = append(fns, f)
			}
		}
	}
	n := toctouCheck(r, rep, "C02.U2", fns)
	rep.MinCount("C02.U2", "cache methods and closures examined for check-then-act", n, 60)
	nOps := 0
	names, extra := cacheMethodList(r)
	for twin := 0; twin < 2; twin++ {
		for _, name := range names {
			mp := methodPaths(r, twin, name)
			if extra[name] {
				if !cleanPaths(mp) {
					continue
				}
			} else if undecidedPaths(r, rep, "C02.U0", mp) {
				continue
			}
			rep.Fn(fn(mp.Fn))
			stale := map[string]string{}
			multi := ""
			for i := range mp.Paths {
				p := &mp.Paths[i]
				visible := 0
				for j := range p.Events {
					ev := &p.Events[j]
					if ev.Kind != "mapop" {
						continue
					}
					nOps++
					own := fmt.Sprint(ev.N)
					// visible change: store of something other than the observed item; delete of a non-expired present entry; clear
					switch ev.Effect {
					case "store":
						if !(ev.Stored != nil && ev.Stored.Op == "mapold" && ev.Stored.K == own) {
							visible++
						}
					case "delete":
						if !(ev.Loaded == 1 && itemStatus(p.PC, sym.Leaf("mapold", own)).Status == "expired") {
							visible++
						}
					case "clear":
						visible++
					}
					// a present entry is removed or replaced for expiry reasons only if that very entry tested expired
					if ev.Effect == "delete" && ev.Loaded == 1 && ev.Name == "Compute" && !userDeleted(p, ev) && !explicitRemover[mp.Name] && itemStatus(p.PC, sym.Leaf("mapold", own)).Status != "expired" {
						key := "del/" + ev.Pos
						if _, dup := stale[key]; !dup {
							stale[key] = fmt.Sprintf("the read-modify-write at %s deletes the entry it found although that entry did not test expired under the key's lock (path: %s): a fresh value stored by a completed write is lost to lazy deletion / cleanup", ev.Pos, sym.DescribePC(p.PC))
						}
					}
					// atoms added while this operation's closure ran must test the operation's own item
					if ev.PCTo > ev.PCFrom && ev.Loaded == 1 {
						for k := ev.PCFrom; k < ev.PCTo && k < len(p.PC); k++ {
							for _, x := range mapolds(p.PC[k].T) {
								if x.K != own && isExpiryAtom(p.PC[k].T) {
									key := ev.Pos + "/" + x.K
									if _, dup := stale[key]; !dup {
										stale[key] = fmt.Sprintf("inside the read-modify-write at %s the decision tests the expiry of the item observed by the earlier operation #%s (%s) instead of the item this operation observed under the key's lock (#%s): a value stored in between is judged by the stale item's expiry (fresh value deleted, or expired one kept)", ev.Pos, x.K, p.PC[k].T.String(), own)
									}
								}
							}
						}
					}
				}
				if ev := lastRangeOp(p); ev == nil && visible > 1 && multi == "" {
					multi = fmt.Sprintf("a path changes the entry visibly through %d separate map operations (path: %s): the call does not take effect at one point", visible, sym.DescribePC(p.PC))
				}
			}
			pos := r.P.Pos(mp.Fn.Pos())
			if len(stale) == 0 {
				rep.Pass("C02.U2", fn(mp.Fn)+" decisions on the operation's own observation", pos, "every expiry test inside a read-modify-write is on the item observed by that operation")
			}
			for _, k := range sortedKeysS(stale) {
				rep.Fail("C02.U2", fn(mp.Fn)+" stale justification", pos, stale[k])
			}
			rep.Check(multi == "", "C02.U1", fn(mp.Fn)+" one visible change per path", pos, "at most one map operation changes the entry visibly on any path", multi)
		}
	}
	rep.MinCount("C02.U1", "map operations on evaluated paths", nOps, 150)
	// U4: premises for 'every cache call takes effect atomically on the underlying map': the whole protocol of both maps
	// (the reader's snapshot, immutable entries, writer validation, resize order, copy under lock, Clear, packed words,
	// the operation contract of the compute core)
	n2 := borrow(rep, mapProtocol(r, "C03", 0), "C02.U4", "C03.P")
	n2 += borrow(rep, mapProtocol(r, "C04", 1), "C02.U4", "C04.P")
	rep.MinCount("C02.U4", "premise obligations (writer validation, resize order, copy under lock, Clear)", n2, 30)
	// U5: the statement is 'each call takes effect atomically according to the sequential TTL semantics of C01': what
	// each call does per key state is the reviewed decision table (restated from C01.T3) - a removal or a store that
	// the table does not list is a wrong effect whatever the interleaving (and where the evaluator lost part of a
	// method, the missing rows show here rather than as silently unexamined paths in U1/U2)
	n5 := 0
	tmp := core.NewReport("C02")
	for twin := 0; twin < 2; twin++ {
		for _, name := range names {
			if extra[name] {
				continue
			}
			mp := methodPaths(r, twin, name)
			if undecidedPaths(r, core.NewReport("C02"), "C02.U0", mp) {
				continue // reported above under U0
			}
			tableCheck(r, tmp, "C01.T3", mp)
		}
	}
	n5 = borrow(rep, tmp, "C02.U5", "C01.T3")
	rep.MinCount("C02.U5", "premise obligations (per-call decision tables)", n5, 40)
	return rep
}

func lastRangeOp(p *sym.Path) *sym.Event {
	for i := range p.Events {
		if p.Events[i].Kind == "mapop" && p.Events[i].Name == "Range" {
			return &p.Events[i]
		}
	}
	return nil
}

// isExpiryAtom: a comparison involving the expiration field of an item.
func isExpiryAtom(t *sym.Term) bool {
	return t.Op == "cmp" && t.Contains(func(x *sym.Term) bool { return x.Op == "field" && x.K == "e" })
}

package rules

import (
	"fmt"
	"go/constant"
	"go/token"
	"go/types"

	"cachelint/internal/core"

	"golang.org/x/tools/go/ssa"
)

// CS is the automaton state of the compute-core analysis (one specialisation of doCompute).
type CS struct {
	Lock         bool
	Valid        uint8 // 0 locked, nothing validated; 1 resize flag seen clear; 2 table identity confirmed after that; 3 table tested before flag (wrong order)
	Calls        uint8 // user-function calls so far on this path (saturates at 2)
	Site         int8  // index of the (last) user-function call site, -1 none
	Loaded       int8  // constant 'loaded' argument of that call: -1 unknown, 0 false, 1 true
	Del          int8  // outcome of the user function's delete flag on this path: -1 not branched, 0 false, 1 true
	RelAfterCall bool
	NAdd         uint8
	Sum          int8
	SlotNil      bool // a slot word was cleared after the call
	SlotSet      bool // a slot word received a non-nil pointer after the call
	Linked       bool // a new bucket was linked after the call
	FastHit      bool // the lock-free lookup succeeded
	KeyHit       bool // passed the true edge of a key equality test (under lock)
	ChainEnd     bool // passed the true edge of a 'next == nil' test
}

// CoreExit is one (return, state) pair reached by the analysis.
type CoreExit struct {
	Ret   *ssa.Return
	S     CS
	Ret0  string // provenance class of result 0: old | new | zero | fast | other:<desc>
	Ret1  string // "true" | "false" | "?"
	Trace []string
}

// CoreFlow is the result for one specialisation.
type CoreFlow struct {
	MM              *core.MapModel
	Spec            core.Spec
	Name            string
	Exits           []CoreExit
	Findings        []core.Finding[CS]
	M               *core.Machine[CS]
	FnCalls         []ssa.CallInstruction // user-function call sites in block order
	TableVal        ssa.Value
	LoadCall        *ssa.Call
	NFnCallsReached int
}

// flagTest recognises a test of the resize flag: call of the in-progress helper or a comparison of an
// atomic load of the flag with a constant. resizingOnTrue tells which edge means "resize in progress".
func flagTest(mm *core.MapModel, v ssa.Value) (ok, resizingOnTrue bool) {
	neg := false
	for {
		if u, isU := v.(*ssa.UnOp); isU && u.Op == token.NOT {
			neg = !neg
			v = u.X
			continue
		}
		break
	}
	if c, isC := v.(*ssa.Call); isC {
		if core.Callee(c) == mm.InProg {
			return true, !neg
		}
		return false, false
	}
	if b, isB := v.(*ssa.BinOp); isB && (b.Op == token.EQL || b.Op == token.NEQ) {
		x, y := b.X, b.Y
		if _, isConst := core.ConstInt(x); isConst {
			x, y = y, x
		}
		k, isConst := core.ConstInt(y)
		a, isLoad := atomicLoadPath(x)
		if !isConst || !isLoad {
			return false, false
		}
		if !mm.IsFlag(a) {
			return false, false
		}
		// flag==1 or flag!=0 : true edge = resizing
		res := (b.Op == token.EQL && k != 0) || (b.Op == token.NEQ && k == 0)
		return true, res != neg
	}
	return false, false
}

// tableTest recognises the table identity re-check: call of the newer-table helper with the attempt's table,
// or a comparison of an atomic load of the table field with it. newerOnTrue tells which edge means "table changed".
func tableTest(mm *core.MapModel, v ssa.Value, table ssa.Value) (ok, newerOnTrue, sameTable bool) {
	neg := false
	for {
		if u, isU := v.(*ssa.UnOp); isU && u.Op == token.NOT {
			neg = !neg
			v = u.X
			continue
		}
		break
	}
	if c, isC := v.(*ssa.Call); isC {
		if core.Callee(c) == mm.NewerTbl {
			args := c.Common().Args
			same := len(args) == 2 && core.StripConv(args[1]) == core.StripConv(table)
			return true, !neg, same
		}
		return false, false, false
	}
	if b, isB := v.(*ssa.BinOp); isB && (b.Op == token.EQL || b.Op == token.NEQ) {
		for _, pair := range [][2]ssa.Value{{b.X, b.Y}, {b.Y, b.X}} {
			if a, isLoad := atomicLoadPath(pair[0]); isLoad {
				if a.Owner == mm.Name && a.Field == mm.TableF {
					same := core.StripConv(pair[1]) == core.StripConv(table)
					return true, (b.Op == token.NEQ) != neg, same
				}
			}
		}
	}
	return false, false, false
}

func isKeyType(mm *core.MapModel, t types.Type) bool {
	if b, ok := t.Underlying().(*types.Basic); ok && b.Kind() == types.String {
		return true
	}
	if _, ok := t.(*types.TypeParam); ok {
		return true
	}
	return false
}

// slotWordWrite classifies a write to a bucket word in the core: "nil", "set", "link", "meta" or "".
func slotWordWrite(r *Run, in ssa.Instruction) (kind string, addr ssa.Value) {
	return slotWordWriteR(r, in, nil)
}

// slotWordWriteR: resolve maps a parameter of a helper analysed in place to the caller's argument (the stored value
// of a shared 'publish slot' helper is nil at one call site and a fresh entry at another).
func slotWordWriteR(r *Run, in ssa.Instruction, resolve func(ssa.Value) ssa.Value) (kind string, addr ssa.Value) {
	var val ssa.Value
	switch x := in.(type) {
	case *ssa.Store:
		addr, val = x.Addr, x.Val
	case ssa.CallInstruction:
		op, a, ok := core.AtomicOp(x)
		if !ok || op == "Load" {
			return "", nil
		}
		addr = a
		val = core.AtomicLastArg(x)
	default:
		return "", nil
	}
	a := core.Addr(addr)
	if !isBucketOwner(r, a.Owner) {
		return "", nil
	}
	ft := elemOf(addr.Type())
	if core.IsAtomicPointerType(ft) {
		if a.Field != "" && a.Field[len(a.Field)-1] != ']' {
			return "link", addr
		}
		if val != nil && resolve != nil {
			val = core.StripConv(resolve(core.StripConv(val)))
		}
		if val != nil && core.IsNilConst(val) {
			return "nil", addr
		}
		return "set", addr
	}
	return "meta", addr
}

func classifyRet0(r *Run, cf *CoreFlow, v ssa.Value, s CS) string {
	v = core.StripConv(v)
	var fnCall ssa.CallInstruction
	if s.Site >= 0 && int(s.Site) < len(cf.FnCalls) {
		fnCall = cf.FnCalls[s.Site]
	}
	isExtract0 := func(x ssa.Value, c ssa.CallInstruction) bool {
		ex, ok := x.(*ssa.Extract)
		return ok && ex.Index == 0 && c != nil && ex.Tuple == c.Value()
	}
	if fnCall != nil {
		if isExtract0(v, fnCall) {
			return "new"
		}
		if v == fnCall.Common().Args[0] && !core.IsNilConst(v) {
			return "old"
		}
	}
	if cf.LoadCall != nil && isExtract0(v, cf.LoadCall) {
		return "fast"
	}
	switch x := v.(type) {
	case *ssa.Phi:
		// a merge of result temporaries: under the constant mode only the edges whose branch is feasible count
		reach := cf.Spec.Reachable(cf.MM.Core)
		res := ""
		for i, e := range x.Edges {
			pred := x.Block().Preds[i]
			if !reach[pred] {
				continue
			}
			feasible := false
			for _, sb := range cf.Spec.Succs(pred) {
				if sb == x.Block() {
					feasible = true
				}
			}
			if !feasible {
				continue
			}
			c := classifyRet0(r, cf, e, s)
			if res == "" {
				res = c
			} else if res != c {
				return "other:phi of " + res + " and " + c
			}
		}
		if res != "" {
			return res
		}
	case *ssa.Const:
		if x.Value == nil || isZeroConst(x) {
			return "zero"
		}
	case *ssa.UnOp:
		if x.Op == token.MUL {
			if al, ok := x.X.(*ssa.Alloc); ok {
				// load of a local cell: classify by what is stored into it
				var stores []*ssa.Store
				for _, ref := range *al.Referrers() {
					if st, ok := ref.(*ssa.Store); ok && st.Addr == ssa.Value(al) {
						stores = append(stores, st)
					}
				}
				if len(stores) == 0 {
					return "zero"
				}
				if len(stores) == 1 {
					return classifyRet0(r, cf, stores[0].Val, s)
				}
				return "other:cell with several stores"
			}
			// the value behind a pointer read from a bucket slot (typed-atomic slots: *b.values[i].Load(); or a plain read
			// of the slot under the lock): the old value
			if src := core.StripConv(x.X); src != nil {
				if c, isCall := src.(*ssa.Call); isCall {
					if op, addr, isAt := core.AtomicOp(c); isAt && op == "Load" {
						if k, _ := slotKind(r, addr); k == "slot" {
							return "old"
						}
					}
				}
				if ld, isLd := src.(*ssa.UnOp); isLd && ld.Op == token.MUL {
					if k, _ := slotKind(r, ld.X); k == "slot" {
						return "old"
					}
				}
			}
			// load of a slot value / entry field: an old value (hit under lock, no call)
			a := core.Addr(x.X)
			if a.Owner == cf.MM.EntryT && cf.MM.EntryT != "" {
				if fnCall == nil || x == fnCall.Common().Args[0] {
					return "old"
				}
				return "old"
			}
		}
	case *ssa.Call:
		// derefValue(vp): old value read from the slot
		if cal := core.Callee(x); cal != nil && cal.Pkg == r.P.Xsync && len(x.Call.Args) == 1 {
			if _, isPtr := x.Call.Args[0].Type().Underlying().(*types.Basic); isPtr {
				return "old"
			}
		}
	}
	return "other:" + v.Name()
}

func isZeroConst(c *ssa.Const) bool {
	if c.Value == nil {
		return true
	}
	switch c.Value.Kind() {
	case constant.Int:
		return constant.Sign(c.Value) == 0
	case constant.String:
		return constant.StringVal(c.Value) == ""
	case constant.Bool:
		return !constant.BoolVal(c.Value)
	}
	return false
}

// coreFlow runs the compute-core automaton for one specialisation.
func coreFlow(r *Run, mm *core.MapModel, sp core.Spec) *CoreFlow {
	f := mm.Core
	key := fmt.Sprintf("%s%s", mm.Name, sp.String(f))
	if cf, ok := r.cfMemo[key]; ok {
		return cf
	}
	cf := &CoreFlow{MM: mm, Spec: sp, Name: fn(f) + sp.String(f)}
	r.cfMemo[key] = cf
	// user function parameter
	var fnParam *ssa.Parameter
	for _, p := range f.Params {
		if isFuncTyped(p.Type()) {
			fnParam = p
		}
	}
	core.Instrs(f, func(in ssa.Instruction) {
		if c, ok := in.(ssa.CallInstruction); ok {
			if fnParam != nil && c.Common().Value == ssa.Value(fnParam) {
				cf.FnCalls = append(cf.FnCalls, c)
			}
			if cc, ok := in.(*ssa.Call); ok && core.Callee(c) == mm.Methods["Load"] {
				cf.LoadCall = cc
			}
		}
		if cv, ok := in.(*ssa.Convert); ok && cf.TableVal == nil {
			if a, ok := atomicLoadPath(cv.X); ok && a.Owner == mm.Name && a.Field == mm.TableF {
				cf.TableVal = cv
			}
		}
		if cl, ok := in.(*ssa.Call); ok && cf.TableVal == nil && core.NamedOf(cl.Type()) == mm.TableT {
			// table obtained through an accessor helper
			if a, ok := atomicLoadPath(cl); ok && a.Owner == mm.Name && a.Field == mm.TableF {
				cf.TableVal = cl
			}
		}
	})
	siteIdx := func(c ssa.CallInstruction) int8 {
		for i, x := range cf.FnCalls {
			if x == c {
				return int8(i)
			}
		}
		return -1
	}
	reachedCalls := map[ssa.CallInstruction]bool{}
	m := &core.Machine[CS]{P: r.P, Fn: f, Spec: sp, Init: CS{Site: -1, Loaded: -1, Del: -1}, Inline: helperInline(r)}
	m.Step = func(ctx *core.Ctx[CS], s CS, in ssa.Instruction) []CS {
		if ev := r.M.LockEventOf(in); ev != nil && ev.Class == "bucket" {
			if ev.Acquire {
				s.Lock = true
				s.Valid = 0
				s.KeyHit, s.ChainEnd = false, false
			} else {
				s.Lock = false
				if s.Calls > 0 {
					s.RelAfterCall = true
				}
			}
			return []CS{s}
		}
		// slot accesses
		isSlotAccess := false
		switch x := in.(type) {
		case *ssa.UnOp:
			if x.Op == token.MUL {
				if a := core.Addr(x.X); isBucketOwner(r, a.Owner) && r.M.IsSharedWord(a) {
					if fi := unpublishedAt(r, in.Parent(), x.X, in, 0); !fi.OK {
						isSlotAccess = true
					}
				}
			}
		case ssa.CallInstruction:
			if _, addr, ok := core.AtomicOp(x); ok {
				if a := core.Addr(addr); isBucketOwner(r, a.Owner) {
					if fi := unpublishedAt(r, in.Parent(), addr, in, 0); !fi.OK {
						isSlotAccess = true
					}
				}
			}
		}
		if kind, addr := slotWordWriteR(r, in, ctx.Resolve); kind != "" {
			if fi := unpublishedAt(r, in.Parent(), addr, in, 0); !fi.OK {
				isSlotAccess = true
				if ia, isIA := core.StripConv(addr).(*ssa.IndexAddr); isIA && (kind == "set" || kind == "nil") {
					if msg := slotPairing(r, ctx.Resolve(core.StripConv(bucketOfAddr(ia))), ctx.Resolve(core.StripConv(ia.Index))); msg != "" {
						ctx.Report(in, "P14", "%s: the write lands in a slot of another bucket and replaces a different key's entry", msg)
					}
				}
				if !s.Lock {
					ctx.Report(in, "P5", "bucket word (%s) written without holding the bucket lock", core.Addr(addr).Key())
				}
				if s.Calls > 0 && s.RelAfterCall {
					ctx.Report(in, "F2", "the user function's result is committed (%s) after the bucket lock was released since the call: another writer can interleave between compute and commit", core.Addr(addr).Key())
				}
				if s.Calls > 0 {
					switch kind {
					case "nil":
						s.SlotNil = true
					case "set":
						s.SlotSet = true
					case "link":
						s.Linked = true
					}
				}
			}
		}
		if isSlotAccess && s.Lock && s.Valid != 2 {
			switch s.Valid {
			case 3:
				ctx.Report(in, "P3", "bucket accessed after a post-lock validation in the wrong order (table identity tested before the resize flag): a resize can copy this bucket and publish between the two tests, losing the update")
			default:
				ctx.Report(in, "P3", "bucket accessed under the lock before the post-lock validation (resize flag clear, then table unchanged) has passed")
			}
			s.Valid = 2 // report once per path
		}
		c, isCall := in.(ssa.CallInstruction)
		if isCall {
			if _, isGo := in.(*ssa.Go); !isGo && fnParam != nil && ctx.Resolve(c.Common().Value) == ssa.Value(fnParam) {
				reachedCalls[c] = true
				if siteIdx(c) < 0 {
					cf.FnCalls = append(cf.FnCalls, c) // call site inside an inlined helper
				}
				if !s.Lock {
					ctx.Report(in, "F2", "user function called without holding the bucket lock")
				} else if s.Valid != 2 {
					ctx.Report(in, "F2", "user function called before the post-lock validation passed (the attempt may still be retried)")
				}
				if s.Calls < 2 {
					s.Calls++
				}
				if s.Calls >= 2 {
					ctx.Report(in, "F1", "user function can be called a second time on this path")
					return nil
				}
				s.Site = siteIdx(c)
				s.Loaded = -1
				if args := c.Common().Args; len(args) == 2 {
					if b, ok := core.ConstBool(args[1]); ok {
						if b {
							s.Loaded = 1
							if !s.KeyHit {
								ctx.Report(in, "F2", "user function told loaded=true on a path that has not passed a key equality test")
							}
						} else {
							s.Loaded = 0
							if !s.ChainEnd {
								ctx.Report(in, "F2", "user function told loaded=false before the end of the bucket chain was reached (the key may be further down the chain)")
							}
						}
					}
				}
				s.Del = -1
				s.RelAfterCall = false
				return []CS{s}
			}
			if cal := core.Callee(c); cal != nil && (cal == mm.AddSize || cal == mm.AddPlain) {
				args := c.Common().Args
				if k, ok := core.ConstInt(args[len(args)-1]); ok {
					if s.NAdd < 3 {
						s.NAdd++
					}
					s.Sum += int8(k)
				} else {
					ctx.Report(in, "S1", "counter delta is not a constant")
				}
				if core.StripConv(ctx.Resolve(core.CounterOwner(args[0]))) != core.StripConv(cf.TableVal) {
					ctx.Report(in, "S1", "counter update goes to a table other than the one validated and modified by this attempt")
				}
				if cal == mm.AddPlain {
					ctx.Report(in, "S1", "non-atomic counter update on a published table")
				}
			}
		}
		if ret, ok := in.(*ssa.Return); ok {
			ex := CoreExit{Ret: ret, S: s, Ret1: "?"}
			if len(ret.Results) == 2 {
				ex.Ret0 = classifyRet0(r, cf, ret.Results[0], s)
				if c, ok := sp.Eval(ret.Results[1]); ok && c.Kind() == constant.Bool {
					ex.Ret1 = fmt.Sprint(constant.BoolVal(c))
				}
			}
			ex.Trace = ctx.M.Trace(ctx.Node)
			cf.Exits = append(cf.Exits, ex)
		}
		return []CS{s}
	}
	m.Edge = func(ctx *core.Ctx[CS], s CS, from *ssa.BasicBlock, idx int) (CS, bool) {
		iff, ok := from.Instrs[len(from.Instrs)-1].(*ssa.If)
		if !ok {
			return s, true
		}
		onTrue := idx == 0
		if ok, resizingOnTrue := flagTest(mm, iff.Cond); ok && s.Lock {
			if onTrue != resizingOnTrue { // flag clear
				if s.Valid == 0 {
					s.Valid = 1
				}
			}
			return s, true
		}
		if ok, newerOnTrue, same := tableTest(mm, iff.Cond, cf.TableVal); ok && s.Lock {
			if onTrue != newerOnTrue && same { // table unchanged
				switch s.Valid {
				case 1:
					s.Valid = 2
				case 0:
					s.Valid = 3
				}
			}
			return s, true
		}
		// delete flag of the user function
		cond := iff.Cond
		neg := false
		for {
			if u, isU := cond.(*ssa.UnOp); isU && u.Op == token.NOT {
				neg = !neg
				cond = u.X
				continue
			}
			break
		}
		if ex, isEx := cond.(*ssa.Extract); isEx && ex.Index == 1 {
			if s.Site >= 0 && int(s.Site) < len(cf.FnCalls) && ex.Tuple == cf.FnCalls[s.Site].Value() {
				if onTrue != neg {
					s.Del = 1
				} else {
					s.Del = 0
				}
				return s, true
			}
			if cf.LoadCall != nil && ex.Tuple == ssa.Value(cf.LoadCall) {
				s.FastHit = onTrue != neg
				return s, true
			}
		}
		if b, isB := cond.(*ssa.BinOp); isB && (b.Op == token.EQL || b.Op == token.NEQ) {
			eqOnTrue := (b.Op == token.EQL) != neg
			if isKeyType(mm, b.X.Type()) && isKeyType(mm, b.Y.Type()) && !isConst(b.X) && !isConst(b.Y) {
				if onTrue == eqOnTrue {
					s.KeyHit = true
				}
				return s, true
			}
			// next == nil
			for _, pair := range [][2]ssa.Value{{b.X, b.Y}, {b.Y, b.X}} {
				if core.IsNilConst(pair[1]) && linkValue(r, pair[0], 0) && onTrue == eqOnTrue {
					s.ChainEnd = true
				}
			}
		}
		return s, true
	}
	m.Run()
	cf.M = m
	cf.Findings = m.Findings
	cf.NFnCallsReached = len(reachedCalls)
	return cf
}

// slotKind classifies the address of a bucket word: "link" (chain pointer), "slot" (entry/key/value pointer), "meta".
func slotKind(r *Run, addr ssa.Value) (string, core.AddrPath) {
	a := core.Addr(addr)
	if !isBucketOwner(r, a.Owner) {
		return "", a
	}
	ft := elemOf(addr.Type())
	if core.IsAtomicPointerType(ft) {
		if a.Field != "" && a.Field[len(a.Field)-1] != ']' {
			return "link", a
		}
		return "slot", a
	}
	return "meta", a
}

// coreFindings returns the findings with the given tag, de-duplicated per instruction.
func (cf *CoreFlow) tagged(tag string) []core.Finding[CS] {
	seen := map[ssa.Instruction]bool{}
	var out []core.Finding[CS]
	for _, fd := range cf.Findings {
		if fd.Tag == tag && !seen[fd.Instr] {
			seen[fd.Instr] = true
			out = append(out, fd)
		}
	}
	return out
}

// ---- slot (bucket, index) pairing ----

// slotPairing decides, for a write to element idx of a slot array of bucket bkt (both already resolved to the
// function under analysis), whether bucket and index belong together. Two consistent shapes exist: both are used
// *directly* (the bucket the scan stands on and an index computed for it in the same step: the slot-loop counter, the
// first marked byte of its meta word), or both were *remembered together* at the same program point ('first free
// slot seen: emptyb, emptyidx = b, i'). A write that pairs a remembered index with the bucket the scan currently
// stands on (or the reverse, or values remembered at different points) addresses a slot of some other bucket - it
// replaces another key's entry. Shapes the classification does not recognise are not judged.
func slotPairing(r *Run, bkt, idx ssa.Value) string {
	idx = core.StripConv(idx)
	bkt = core.StripConv(bkt)
	if _, isC := idx.(*ssa.Const); isC {
		return ""
	}
	iDirect, isites := pairSites(r, idx, false)
	bDirect, bsites := pairSites(r, bkt, true)
	switch {
	case iDirect && bDirect:
		return ""
	case !iDirect && !bDirect:
		if len(isites) == 0 || len(bsites) == 0 {
			return ""
		}
		for b := range isites {
			if !bsites[b] {
				return "the slot index and the bucket it is used with were remembered at different points of the scan"
			}
		}
		for b := range bsites {
			if !isites[b] {
				return "the slot index and the bucket it is used with were remembered at different points of the scan"
			}
		}
		return ""
	case !iDirect && bDirect:
		if len(isites) == 0 {
			return ""
		}
		return "a remembered slot index (the free slot noted earlier in the scan) is used with the bucket the scan is currently standing on, not with the bucket it was noted for"
	default:
		if len(bsites) == 0 {
			return ""
		}
		return "an index computed for the bucket the scan is standing on is used with a bucket remembered earlier in the scan"
	}
}

// pairSites: a value is used directly (not a merge of remembered values) or is a phi network that remembers values
// assigned at certain blocks; for the latter the blocks through which a non-constant, non-fresh value enters the
// network are returned. The loop-carried phis of the scan itself (slot counter, chain-walk bucket) count as direct.
func pairSites(r *Run, v ssa.Value, bucket bool) (direct bool, sites map[*ssa.BasicBlock]bool) {
	isScanPhi := func(phi *ssa.Phi) bool {
		for _, e := range phi.Edges {
			e = core.StripConv(e)
			if bucket {
				if ld, isLd := e.(*ssa.UnOp); isLd && ld.Op == token.MUL {
					if a := core.Addr(ld.X); isBucketOwner(r, a.Owner) && a.Field != "" && a.Field[len(a.Field)-1] != ']' {
						return true // load of the link word
					}
				}
				if c, isCall := e.(*ssa.Call); isCall {
					if a, isLoad := atomicLoadPath(c); isLoad && isBucketOwner(r, a.Owner) {
						return true
					}
				}
			} else if b, isB := e.(*ssa.BinOp); isB && b.Op == token.ADD && core.StripConv(b.X) == ssa.Value(phi) {
				if k, isK := core.ConstInt(b.Y); isK && k == 1 {
					return true
				}
			}
		}
		return false
	}
	phi, ok := v.(*ssa.Phi)
	if !ok || isScanPhi(phi) {
		return true, nil
	}
	sites = map[*ssa.BasicBlock]bool{}
	seen := map[*ssa.Phi]bool{}
	var walk func(p *ssa.Phi)
	walk = func(p *ssa.Phi) {
		if seen[p] {
			return
		}
		seen[p] = true
		for i, e := range p.Edges {
			e = core.StripConv(e)
			switch x := e.(type) {
			case *ssa.Const:
			case *ssa.Alloc:
				// a fresh bucket of this call: not a remembered position of the scan
			case *ssa.Phi:
				if isScanPhi(x) {
					sites[p.Block().Preds[i]] = true
				} else {
					walk(x)
				}
			default:
				sites[p.Block().Preds[i]] = true
			}
		}
	}
	walk(phi)
	return false, sites
}

package rules

import (
	"fmt"
	"go/token"
	"go/types"
	"strings"

	"cachelint/internal/core"
	"cachelint/internal/sym"

	"golang.org/x/tools/go/ssa"
)

func init() {
	Registry["C08"] = C08
	Metas["C08"] = Meta{
		Explanation: "Decides the counter-pairing clauses of C08 on every path: (S1) in the compute core, under each mode, a path that clears a slot performs exactly one counter update of -1, a path that fills an empty slot or links a new bucket exactly one of +1, a path that replaces a value or changes nothing performs none; the delta is a constant and the update goes, atomically, to the very table the attempt validated and modified; (S2) the resize copy returns a count incremented once per appended entry and nowhere else, resize adds it once per source bucket to the new, still unpublished table, and the clear hint copies nothing into a fresh zero-count table; (S3) Size sums every stripe of the currently published table and every return of Count hands out the Size the underlying map reported to that very call (not a remembered or adjusted number); (S4) no counter update exists outside the functions analysed by S1/S2; (S5) a Clear request cannot be dropped (restated from C03/C04.P7), so Count is 0 right after Clear; (S6) DeleteExpired and Clear do their pass on every path; (S7) the sweep judges expiry as the reference does, against a clock reading of the call (restated from C01.T1/T3: a rounded or cached instant leaves expired entries counted); (S8) a table's counter stripes are written plainly only into a fresh allocation (restated from C14.A1 for the stripe type: a recycled stripe array receives the late updates of writers of the table it came from). NOT decided: exactness over concurrent histories (it follows from S1+S2 together with the protocol shape of C03/C04, whose structural parts are decided there).",
		Rule:        "one obligation per (rule, specialisation, exit | block | call site); non-trivial = decided from explored product-graph paths or resolved call sites",
		Assumptions: []string{"C03/C04 protocol shape (writers validated on the table they modify; copy under the bucket lock)", "sync/atomic.AddInt64 is atomic"},
	}
}

func C08(r *Run) *core.Report {
	rep := core.NewReport("C08")
	if !modelOK(r, rep, "C08.S0") {
		return rep
	}
	c08S1(r, rep)
	c08S2(r, rep)
	c08S3(r, rep)
	c08S4(r, rep)
	// S5: 'Count is 0 right after Clear' additionally needs that a Clear request cannot be dropped (restated premise)
	n := borrow(rep, mapProtocol(r, "C03", 0), "C08.S5", "C03.P7")
	n += borrow(rep, mapProtocol(r, "C04", 1), "C08.S5", "C04.P7")
	rep.MinCount("C08.S5", "premise obligations (Clear acts)", n, 4)
	// S6: 'Count equals the live-entry count right after DeleteExpired and is 0 right after Clear' needs every call of
	// them to do its work: on every evaluated path DeleteExpired traverses the map and Clear clears it - a call that
	// returns early (because another pass is running, because a flag says nothing expired) leaves expired entries counted
	n6 := 0
	for twin := 0; twin < 2; twin++ {
		for name, op := range map[string]string{"DeleteExpired": "Range", "Clear": "Clear"} {
			mp := methodPaths(r, twin, name)
			if undecidedPaths(r, rep, "C08.S0", mp) {
				continue
			}
			bad := ""
			for pi := range mp.Paths {
				p := &mp.Paths[pi]
				if p.Panic {
					continue
				}
				has := false
				for _, ev := range p.Events {
					if ev.Kind == "mapop" && ev.Name == op {
						has = true
					}
				}
				if !has && bad == "" {
					bad = "a path returns without the " + op + " of the underlying map (path: " + sym.DescribePC(p.PC) + ")"
				}
			}
			n6++
			rep.Check(bad == "", "C08.S6", fn(mp.Fn)+" always does its pass", r.P.Pos(mp.Fn.Pos()), fmt.Sprintf("all %d paths perform the %s", len(mp.Paths), op), name+" can return without doing its work: "+bad)
		}
	}
	rep.MinCount("C08.S6", "cleanup entry points", n6, 4)
	// ... and 'the live-entry count right after DeleteExpired' is about the entries that are expired *now*: the sweep
	// decides as the reference does, against a clock reading of this call (restated from C01.T1 / T3 for the sweep:
	// a rounded, cached or earlier instant leaves entries that have expired counted)
	{
		tmp := core.NewReport("C08")
		for twin := 0; twin < 2; twin++ {
			mp := methodPaths(r, twin, "DeleteExpired")
			if undecidedPaths(r, core.NewReport("C08"), "C08.S0", mp) {
				continue
			}
			c01T2T4(r, tmp, mp)
			tableCheck(r, tmp, "C01.T3", mp)
		}
		n7 := borrow(rep, tmp, "C08.S7", "C01.T1", "C01.T3")
		rep.MinCount("C08.S7", "premise obligations (the sweep judges expiry as the reference does)", n7, 2)
	}
	// S8: a table's counter is its own: the stripe words are written plainly only into a fresh, unpublished allocation
	// (restated from C14.A1 for the stripe type) - a recycled or shared stripe array receives the late updates of
	// writers still working on the table it came from
	{
		tmp := core.NewReport("C08")
		c14Accesses(r, tmp, apiReachable(r))
		n8 := 0
		if st := r.M.StripeType(); st != "" {
			for _, o := range tmp.Obs {
				if o.Trivial || o.Rule != "C14.A1" || !strings.Contains(o.Construct, " of "+st+".") {
					continue
				}
				c := *o
				c.Construct = "[" + o.Rule + "] " + o.Construct
				c.Rule = "C08.S8"
				rep.Obs = append(rep.Obs, &c)
				n8++
			}
		}
		rep.MinCount("C08.S8", "premise obligations (accesses to counter stripes)", n8, 2)
	}
	return rep
}

func c08S1(r *Run, rep *core.Report) {
	nExits, nAdds := 0, 0
	for _, mm := range r.M.Maps {
		rep.Fn(fn(mm.Core))
		ords := exitOrdinals(mm.Core)
		for _, sp := range specsFor(r, mm.Core) {
			cf := coreFlow(r, mm, sp)
			rep.Spec(cf.Name)
			worst := map[*ssa.Return]string{}
			var order []*ssa.Return
			seen := map[*ssa.Return]bool{}
			for _, ex := range cf.Exits {
				if !seen[ex.Ret] {
					seen[ex.Ret] = true
					order = append(order, ex.Ret)
				}
				want := 0
				what := "no slot-occupancy change"
				switch {
				case ex.S.SlotNil:
					want, what = -1, "a slot was cleared (entry removed)"
				case ex.S.Calls > 0 && ex.S.Loaded == 0 && (ex.S.SlotSet || ex.S.Linked):
					want, what = 1, "an empty slot was filled / a new bucket linked (entry inserted)"
				case ex.S.Calls > 0 && ex.S.Loaded != 1 && ex.S.Loaded != 0 && (ex.S.SlotSet || ex.S.Linked):
					want, what = 1, "a slot was filled after a call with unknown loaded flag"
				}
				if ex.S.NAdd > 0 {
					nAdds++
				}
				msg := ""
				switch {
				case want == 0 && ex.S.NAdd != 0:
					msg = fmt.Sprintf("%s on this path, but the counter is updated %d time(s) (sum %+d)", what, ex.S.NAdd, ex.S.Sum)
				case want != 0 && (ex.S.NAdd != 1 || int(ex.S.Sum) != want):
					msg = fmt.Sprintf("%s on this path, which needs exactly one counter update of %+d, found %d update(s) summing to %+d", what, want, ex.S.NAdd, ex.S.Sum)
				}
				if msg != "" && worst[ex.Ret] == "" {
					worst[ex.Ret] = msg + " | path: " + fmt.Sprint(ex.Trace)
				}
			}
			for _, ret := range order {
				nExits++
				rep.Check(worst[ret] == "", "C08.S1", fmt.Sprintf("%s exit#%d", cf.Name, ords[ret]), r.P.InstrPos(ret), "counter updates pair with the slot-occupancy change on every path to this return", worst[ret])
			}
			for _, fd := range cf.tagged("S1") {
				rep.Fail("C08.S1", cf.Name+" counter update", r.P.InstrPos(fd.Instr), fd.Msg, cf.M.Trace(fd.At)...)
			}
		}
	}
	rep.MinCount("C08.S1", "explored core exits", nExits, 20)
	rep.MinCount("C08.S1", "exits with a counter update", nAdds, 8)
}

func c08S2(r *Run, rep *core.Report) {
	for _, mm := range r.M.Maps {
		f := mm.Copy
		rep.Fn(fn(f))
		// per block: number of plain-append calls equals number of +1 increments of the returned count
		retVals := map[ssa.Value]bool{}
		var work []ssa.Value
		core.Instrs(f, func(in ssa.Instruction) {
			if ret, ok := in.(*ssa.Return); ok {
				for _, v := range ret.Results {
					work = append(work, v)
				}
			}
		})
		for len(work) > 0 {
			v := work[len(work)-1]
			work = work[:len(work)-1]
			if retVals[v] {
				continue
			}
			retVals[v] = true
			switch x := v.(type) {
			case *ssa.Phi:
				work = append(work, x.Edges...)
			case *ssa.BinOp:
				work = append(work, x.X)
			case *ssa.UnOp:
				// named result kept in a cell (functions with defer): follow the values stored into it
				if al, isA := x.X.(*ssa.Alloc); isA {
					for _, ref := range *al.Referrers() {
						if st, isS := ref.(*ssa.Store); isS && st.Addr == ssa.Value(al) {
							work = append(work, st.Val)
						}
					}
				}
			}
		}
		nApp := 0
		for _, b := range f.Blocks {
			app, inc := 0, 0
			var pos string
			for _, in := range b.Instrs {
				if c, ok := in.(ssa.CallInstruction); ok && core.Callee(c) == mm.Append {
					app++
					pos = r.P.InstrPos(in)
				}
				if bo, ok := in.(*ssa.BinOp); ok && retVals[bo] {
					if k, isC := core.ConstInt(bo.Y); isC && bo.Op == token.ADD {
						inc += int(k)
						if pos == "" {
							pos = r.P.InstrPos(in)
						}
					} else {
						rep.Fail("C08.S2", fn(f)+" count arithmetic", r.P.InstrPos(in), "the returned copy count is computed by something other than +constant")
					}
				}
			}
			if app == 0 && inc == 0 {
				continue
			}
			nApp += app
			rep.Check(app == inc, "C08.S2", fmt.Sprintf("%s b%d append/count pairing", fn(f), b.Index), pos, "each appended entry is counted exactly once", fmt.Sprintf("%d entries appended but the returned count grows by %d in this block: the new table's size would be wrong after a resize", app, inc))
		}
		rep.MinCount("C08.S2", "append sites in "+fn(f), nApp, 1)
		// resize: count added once, plainly, to the new unpublished table
		rz := mm.Resize
		rep.Fn(fn(rz))
		nCopy := 0
		rzFns := append([]*ssa.Function{mm.Resize}, mm.ResizeHelpers...)
		for _, rz := range rzFns {
			core.Instrs(rz, func(in ssa.Instruction) {
				c, ok := in.(*ssa.Call)
				if !ok || core.Callee(c) != mm.Copy {
					return
				}
				nCopy++
				uses := 0
				for _, ref := range *c.Referrers() {
					if u, ok := ref.(ssa.CallInstruction); ok && (core.Callee(u) == mm.AddPlain || core.Callee(u) == mm.AddSize) {
						args := u.Common().Args
						if args[len(args)-1] == ssa.Value(c) {
							uses++
							fi := unpublishedAt(r, rz, args[0], ref, 0)
							// the receiver must also be the table the entries were copied into
							dest := copyDest(r, mm, c)
							same := dest != nil && core.StripConv(dest) == core.CounterOwner(args[0])
							rep.Check(fi.OK && same, "C08.S2", fn(rz)+" recount target", r.P.InstrPos(ref), "copied count added to the new, not yet published table the entries went to",
								"copied count is added to a table that is published already or is not the copy's destination: "+fi.Why)
							if ref.Block() != c.Block() && !onlyWhenNonZero(c, ref.Block()) {
								rep.Fail("C08.S2", fn(rz)+" recount placement", r.P.InstrPos(ref), "the count of a copied bucket is not added in the same step as the copy")
							}
						}
					}
				}
				rep.Check(uses == 1, "C08.S2", fn(rz)+" recount once", r.P.InstrPos(in), "each copied bucket's count is added exactly once", fmt.Sprintf("the count returned by the bucket copy is added %d times to the new table's counter", uses))
			})
		}
		rep.MinCount("C08.S2", "copy call sites in "+fn(rz), nCopy, 1)
		// clear hint: copies nothing
		clearSpec, ok := hintSpecOf(r, mm, "Clear")
		if !ok {
			rep.Undecided("C08.S2", fn(rz)+" clear hint", r.P.Pos(rz.Pos()), "cannot determine the constant hint Clear passes")
		} else {
			reach := clearSpec.Reachable(rz)
			copies := false
			core.Instrs(rz, func(in ssa.Instruction) {
				if c, ok := in.(ssa.CallInstruction); ok && reach[in.Block()] {
					cal := core.Callee(c)
					if cal == mm.Copy {
						copies = true
					}
					for _, h := range mm.ResizeHelpers {
						if cal == h {
							copies = true // the helper holds the copy loop
						}
					}
				}
			})
			rep.Check(!copies, "C08.S2", fn(rz)+clearSpec.String(rz)+" copies nothing", r.P.Pos(rz.Pos()), "the clear hint installs a fresh zero-count table without copying", "the clear hint still copies entries into the new table: Clear would not empty the map and Count would not be 0")
		}
	}
}

// hintSpecOf returns the specialisation of resize selected by the named API method (e.g. Clear).
func hintSpecOf(r *Run, mm *core.MapModel, method string) (core.Spec, bool) {
	w := mm.Methods[method]
	if w == nil {
		return nil, false
	}
	var sp core.Spec
	core.Instrs(w, func(in ssa.Instruction) {
		c, ok := in.(ssa.CallInstruction)
		if !ok || core.Callee(c) != mm.Resize {
			return
		}
		s := core.Spec{}
		for i, a := range c.Common().Args {
			if k, isC := a.(*ssa.Const); isC && k.Value != nil && i < len(mm.Resize.Params) {
				s[mm.Resize.Params[i]] = k.Value
			}
		}
		if len(s) > 0 {
			sp = s
		}
	})
	return sp, sp != nil
}

func c08S3(r *Run, rep *core.Report) {
	for _, mm := range r.M.Maps {
		sz := mm.Methods["Size"]
		rep.Fn(fn(sz))
		ok := false
		core.Instrs(sz, func(in ssa.Instruction) {
			ret, isRet := in.(*ssa.Return)
			if !isRet || len(ret.Results) != 1 {
				return
			}
			c, isCall := core.StripConv(ret.Results[0]).(*ssa.Call)
			if !isCall || core.Callee(c) != mm.SumSize {
				return
			}
			if a, isLoad := atomicLoadPath(core.CounterOwner(c.Call.Args[0])); isLoad && a.Owner == mm.Name && a.Field == mm.TableF {
				ok = true
			}
		})
		rep.Check(ok, "C08.S3", fn(sz), r.P.Pos(sz.Pos()), "returns the counter sum of the currently published table", "Size does not return the counter sum of the atomically loaded current table")
		// sumSize covers every stripe
		ss := mm.SumSize
		rep.Fn(fn(ss))
		loops := naturalLoops(ss)
		good := false
		why := "no loop over the stripes"
		if len(loops) == 1 {
			l := loops[0]
			for _, in := range l.Header.Instrs {
				phi, isPhi := in.(*ssa.Phi)
				if !isPhi || !isIntegral(phi.Type()) {
					continue
				}
				init, step, okInd := induction(l, phi)
				if !okInd {
					continue
				}
				// range form: init -1, test on i+1; indexed form: init 0
				bound := loopBound(l, phi)
				if c, isCall := bound.(*ssa.Call); isCall && core.IsBuiltinCall(c) == "len" {
					if prm, isP := c.Call.Args[0].(*ssa.Parameter); isP && len(ss.Params) > 0 && prm == ss.Params[0] && step == 1 && (init == -1 || init == 0) {
						if _, isSl := prm.Type().Underlying().(*types.Slice); isSl {
							good = true // the receiver is the stripe slice itself
						}
					}
					ld, isLd := c.Call.Args[0].(*ssa.UnOp)
					if isLd {
						a := core.Addr(ld.X)
						if a.Owner == mm.TableT && step == 1 && (init == -1 || init == 0) {
							good = true
						} else {
							why = fmt.Sprintf("loop runs from %d step %d over len(%s)", init, step, a.Key())
						}
					}
				}
			}
		}
		// every iteration adds an atomic load of the stripe
		adds := false
		core.Instrs(ss, func(in ssa.Instruction) {
			if c, isCall := in.(*ssa.Call); isCall {
				if op, addr, ok := core.AtomicOp(c); ok && op == "Load" && core.Addr(addr).Owner == r.M.StripeType() {
					adds = true
				}
			}
		})
		rep.Check(good && adds, "C08.S3", fn(ss)+" covers all stripes", r.P.Pos(ss.Pos()), "sums an atomic load of every stripe of the table", "the counter sum does not range over all stripes of the table: "+why)
	}
	for i := 0; i < 2; i++ {
		f := r.M.CacheM[i]["Count"]
		if f == nil {
			continue
		}
		rep.Fn(fn(f))
		// every return hands out the Size the underlying map reported to this very call (a remembered or adjusted number
		// is not the map's count: it misses the removals and insertions that do not go through whoever maintains it)
		nRet, nSize := 0, 0
		core.Instrs(f, func(in ssa.Instruction) {
			if ret, isRet := in.(*ssa.Return); isRet && len(ret.Results) == 1 {
				nRet++
				if c, isCall := core.StripConv(ret.Results[0]).(*ssa.Call); isCall {
					if m, _, isItems := r.M.ItemsInvoke(c); isItems && m == "Size" {
						nSize++
					}
				}
			}
		})
		rep.Check(nRet > 0 && nSize == nRet, "C08.S3", fn(f), r.P.Pos(f.Pos()), "Count is the underlying map's Size", fmt.Sprintf("Count does not return the underlying map's Size on every path (%d of %d returns do): a number kept elsewhere drifts from what the map holds", nSize, nRet))
	}
}

// induction returns the initial constant and the constant step of an integer loop phi.
func induction(l *Loop, phi *ssa.Phi) (init, step int64, ok bool) {
	haveInit, haveStep := false, false
	for i, e := range phi.Edges {
		pred := phi.Block().Preds[i]
		if !l.Body[pred] {
			k, isC := core.ConstInt(e)
			if !isC {
				return 0, 0, false
			}
			init, haveInit = k, true
			continue
		}
		for _, v := range flattenPhi(e, l, 0) {
			b, isB := v.(*ssa.BinOp)
			if !isB || b.Op != token.ADD || b.X != ssa.Value(phi) {
				return 0, 0, false
			}
			k, isC := core.ConstInt(b.Y)
			if !isC {
				return 0, 0, false
			}
			step, haveStep = k, true
		}
	}
	return init, step, haveInit && haveStep
}

// loopBound returns the value the induction variable (or its successor) is compared with on a loop exit.
func loopBound(l *Loop, phi *ssa.Phi) ssa.Value {
	for b := range l.Body {
		iff, ok := b.Instrs[len(b.Instrs)-1].(*ssa.If)
		if !ok || (l.Body[b.Succs[0]] && l.Body[b.Succs[1]]) {
			continue
		}
		cmp, ok := iff.Cond.(*ssa.BinOp)
		if !ok {
			continue
		}
		uses := func(v ssa.Value) bool {
			if v == ssa.Value(phi) {
				return true
			}
			bo, ok := v.(*ssa.BinOp)
			return ok && bo.X == ssa.Value(phi) && isConst(bo.Y)
		}
		if uses(cmp.X) {
			return cmp.Y
		}
		if uses(cmp.Y) {
			return cmp.X
		}
	}
	return nil
}

func c08S4(r *Run, rep *core.Report) {
	n := 0
	// the helper that updates the counter of a *published* table does it with one atomic read-modify-write: the
	// stripes are shared by many buckets, so the bucket lock does not serialise two writers of one stripe, and an
	// atomic load followed by an atomic store loses one of two concurrent updates (Size is then off for good)
	seenAdd := map[*ssa.Function]bool{}
	for _, mm := range r.M.Maps {
		h := mm.AddSize
		if h == nil || seenAdd[h] {
			continue
		}
		seenAdd[h] = true
		nAdd, nStore := 0, 0
		var at ssa.Instruction
		core.Instrs(h, func(in ssa.Instruction) {
			switch x := in.(type) {
			case ssa.CallInstruction:
				if op, addr, ok := core.AtomicOp(x); ok && core.Addr(addr).Owner == r.M.StripeType() {
					switch op {
					case "Add", "CAS":
						nAdd++ // an atomic add, or a compare-and-swap (the retry loop around it is a read-modify-write as well)
					case "Store", "Swap":
						nStore++
						at = in
					}
				}
			case *ssa.Store:
				if core.Addr(x.Addr).Owner == r.M.StripeType() {
					nStore++
					at = in
				}
			}
		})
		pos := r.P.Pos(h.Pos())
		if at != nil {
			pos = r.P.InstrPos(at)
		}
		rep.Check(nAdd >= 1 && nStore == 0, "C08.S4", fn(h)+" atomic read-modify-write", pos, "the stripe is updated by an atomic read-modify-write (add or compare-and-swap)", "the counter helper used on published tables does not update its stripe with a single atomic read-modify-write (load + store): two writers of buckets that share the stripe lose an update and Size stays wrong")
	}
	for _, mm := range r.M.Maps {
		for _, h := range []*ssa.Function{mm.AddSize, mm.AddPlain} {
			for _, site := range core.CallSitesOf(r.P.Funcs, h) {
				n++
				p := site.Parent()
				ok := false
				for _, m2 := range r.M.Maps {
					if (p == m2.Core || p == m2.Resize) && (m2 == mm || m2.AddSize == mm.AddSize || m2.AddPlain == mm.AddPlain) {
						ok = true // a counter type shared by both maps: the other map's analysed functions call the same helper
					}
					for _, h := range m2.ResizeHelpers {
						if p == h && (m2 == mm || m2.AddPlain == mm.AddPlain) {
							ok = true // the copy loop moved into a helper of resize (analysed with it)
						}
					}
				}
				rep.Check(ok, "C08.S4", fmt.Sprintf("%s called from %s", fn(h), fn(p)), r.P.InstrPos(site), "counter update inside a function whose pairing is analysed", "counter update in a function whose pairing with slot changes is not analysed (undecided)")
			}
		}
		// no direct writes to stripes elsewhere
		for _, f := range r.P.Funcs {
			if f == mm.AddSize || f == mm.AddPlain {
				continue
			}
			core.Instrs(f, func(in ssa.Instruction) {
				var addr ssa.Value
				switch x := in.(type) {
				case *ssa.Store:
					addr = x.Addr
				case ssa.CallInstruction:
					if op, a, ok := core.AtomicOp(x); ok && op != "Load" {
						addr = a
					}
				}
				if addr != nil && core.Addr(addr).Owner == r.M.StripeType() && r.M.MapOfFunc(f) == mm {
					rep.Fail("C08.S4", fn(f)+" writes a counter stripe directly", r.P.InstrPos(in), "counter stripe written outside the counter helpers")
				}
			})
		}
	}
	rep.MinCount("C08.S4", "counter update call sites", n, 4)
}

// onlyWhenNonZero: block b is entered from the copy call's block exactly through the 'count is not zero' edge of a test
// of the copy's result (adding a zero count is skipped: a no-op).
func onlyWhenNonZero(c *ssa.Call, b *ssa.BasicBlock) bool {
	if len(b.Preds) != 1 || b.Preds[0] != c.Block() {
		return false
	}
	iff, ok := c.Block().Instrs[len(c.Block().Instrs)-1].(*ssa.If)
	if !ok {
		return false
	}
	bo, ok := iff.Cond.(*ssa.BinOp)
	if !ok {
		return false
	}
	var other ssa.Value
	switch {
	case bo.X == ssa.Value(c):
		other = bo.Y
	case bo.Y == ssa.Value(c):
		other = bo.X
	default:
		return false
	}
	if k, isK := core.ConstInt(other); !isK || k != 0 {
		return false
	}
	nonZeroEdge := -1
	switch bo.Op {
	case token.NEQ:
		nonZeroEdge = 0
	case token.EQL:
		nonZeroEdge = 1
	case token.GTR:
		if bo.X == ssa.Value(c) {
			nonZeroEdge = 0 // c > 0 (counts are never negative)
		}
	case token.LSS:
		if bo.Y == ssa.Value(c) {
			nonZeroEdge = 0 // 0 < c
		}
	}
	return nonZeroEdge >= 0 && c.Block().Succs[nonZeroEdge] == b
}

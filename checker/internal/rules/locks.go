package rules

import (
	"cachelint/internal/core"
	"strings"

	"golang.org/x/tools/go/ssa"
)

// LS is the lock automaton state: the canonical identity of the held bucket lock ("" = none)
// and whether the resize mutex is held.
type LS struct {
	B   string
	Mu  bool
	DB  string // bucket lock whose release is deferred to the function's return
	DMu bool   // resize mutex release deferred
}

// LockFacts is the result of running the lock automaton over one function specialisation.
type LockFacts struct {
	F    *ssa.Function
	Spec core.Spec
	M    *core.Machine[LS]
	// At records, for every instruction, the set of lock states in which it is reached.
	At map[ssa.Instruction]map[LS]bool
	// RootOf maps a lock's canonical name to the root value of its access path.
	RootOf map[string]ssa.Value
	// ExitHeld lists returns reached with a lock held.
	Events int
}

// lockFacts runs the pairing automaton: acquire only when free, release only the held lock.
func lockFacts(r *Run, f *ssa.Function, sp core.Spec) *LockFacts {
	lf := &LockFacts{F: f, Spec: sp, At: map[ssa.Instruction]map[LS]bool{}, RootOf: map[string]ssa.Value{}}
	m := &core.Machine[LS]{P: r.P, Fn: f, Spec: sp, Inline: helperInline(r)}
	m.Visit = func(ctx *core.Ctx[LS], s LS, in ssa.Instruction) {
		set := lf.At[in]
		if set == nil {
			set = map[LS]bool{}
			lf.At[in] = set
		}
		set[s] = true
	}
	m.Step = func(ctx *core.Ctx[LS], s LS, in ssa.Instruction) []LS {
		if _, ok := in.(*ssa.Defer); ok {
			if dev := r.M.LockEventOfCall(in.(ssa.CallInstruction)); dev != nil {
				switch {
				case dev.Acquire:
					ctx.Report(in, "undecided", "deferred lock acquisition is not modelled")
				case dev.Class == "bucket":
					s.DB = dev.Canon
				default:
					s.DMu = true
				}
			}
			return []LS{s}
		}
		if _, ok := in.(*ssa.RunDefers); ok {
			// deferred releases take effect here, just before the return
			if s.DB != "" {
				if s.B != s.DB {
					ctx.Report(in, "release-unheld", "deferred release of %s runs while %q is held", s.DB, s.B)
					return nil
				}
				s.B, s.DB = "", ""
			}
			if s.DMu {
				if !s.Mu {
					ctx.Report(in, "release-unheld", "deferred release of the resize mutex runs while it is not held")
					return nil
				}
				s.Mu, s.DMu = false, false
			}
			return []LS{s}
		}
		ev := r.M.LockEventOf(in)
		if ev == nil {
			if ret, ok := in.(*ssa.Return); ok {
				if s.B != "" {
					ctx.Report(ret, "held-at-return", "bucket lock %s still held at return", s.B)
				}
				if s.Mu {
					ctx.Report(ret, "held-at-return", "resize mutex still held at return")
				}
			}
			return []LS{s}
		}
		lf.Events++
		if ctx.Frame != nil {
			// inside an inlined helper: name the lock in the caller's terms
			canon, _ := core.CanonIn(ctx.Frame, ev.AddrV)
			if len(ev.Extra) > 0 {
				canon += "." + strings.Join(ev.Extra, ".")
			}
			ev.Canon = canon
			ev.AddrV = core.ResolveIn(ctx.Frame, core.Addr(ev.AddrV).Root)
		}
		lf.RootOf[ev.Canon] = ev.AddrV
		switch {
		case ev.Class == "bucket" && ev.Acquire:
			if s.B != "" {
				ctx.Report(in, "double-acquire", "bucket lock %s acquired while %s is held (non-reentrant)", ev.Canon, s.B)
				return nil
			}
			s.B = ev.Canon
		case ev.Class == "bucket" && !ev.Acquire:
			if s.B == "" {
				ctx.Report(in, "release-unheld", "bucket lock %s released while not held", ev.Canon)
				return nil
			}
			if s.B != ev.Canon {
				ctx.Report(in, "release-other", "released %s but the held bucket lock is %s", ev.Canon, s.B)
				return nil
			}
			s.B = ""
		case ev.Class == "resize" && ev.Acquire:
			if s.Mu {
				ctx.Report(in, "double-acquire", "resize mutex acquired while held")
				return nil
			}
			s.Mu = true
		default:
			if !s.Mu {
				ctx.Report(in, "release-unheld", "resize mutex released while not held")
				return nil
			}
			s.Mu = false
		}
		return []LS{s}
	}
	m.Run()
	lf.M = m
	return lf
}

// HeldAt reports whether a bucket lock is held in every state reaching in (must-lockset),
// and whether in some state (may).
func (lf *LockFacts) HeldAt(in ssa.Instruction) (must, may bool, canon string) {
	set := lf.At[in]
	if len(set) == 0 {
		return false, false, ""
	}
	must = true
	for s := range set {
		if s.B == "" {
			must = false
		} else {
			may = true
			canon = s.B
		}
	}
	return
}

// Reached reports whether the instruction is reachable under the specialisation.
func (lf *LockFacts) Reached(in ssa.Instruction) bool { return len(lf.At[in]) > 0 }

// lockUsers lists the library functions that contain at least one lock event.
func lockUsers(r *Run) []*ssa.Function {
	var out []*ssa.Function
	for _, f := range r.P.Funcs {
		if r.M.Acquire[f] || r.M.Release[f] {
			continue
		}
		if _, w := r.M.Wrappers[f]; w {
			continue
		}
		has := false
		core.Instrs(f, func(in ssa.Instruction) {
			if r.M.LockEventOf(in) != nil {
				has = true
			}
		})
		if has {
			out = append(out, f)
		}
	}
	return out
}

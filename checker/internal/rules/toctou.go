package rules

import (
	"fmt"

	"cachelint/internal/core"

	"golang.org/x/tools/go/ssa"
)

// Unconditional mutators of the underlying map: their effect does not depend on what the entry
// currently is (or, for LoadOrStore, only on presence), so issuing one after an earlier observation
// of the same map in the same cache call is a check-then-act pair.
var unconditionalMutator = map[string]bool{"Store": true, "LoadAndStore": true, "LoadOrStore": true, "Delete": true, "LoadAndDelete": true}

// observingOp: operations whose result a later operation could be (wrongly) justified by.
var observingOp = map[string]bool{"Load": true, "LoadOrStore": true, "LoadAndStore": true, "LoadOrCompute": true, "Compute": true, "LoadAndDelete": true}

// performsObservation computes, per cache-package function, whether it (transitively, through static
// in-package calls) performs an observing map operation.
func performsObservation(r *Run) map[*ssa.Function]bool {
	out := map[*ssa.Function]bool{}
	for changed := true; changed; {
		changed = false
		for _, f := range r.P.Funcs {
			if f.Pkg != r.P.Cache || out[f] {
				continue
			}
			core.Instrs(f, func(in ssa.Instruction) {
				c, ok := in.(ssa.CallInstruction)
				if !ok || out[f] {
					return
				}
				if m, _, ok := r.M.ItemsInvoke(c); ok && observingOp[m] {
					out[f] = true
					changed = true
					return
				}
				if cal := core.Callee(c); cal != nil && out[cal] {
					out[f] = true
					changed = true
				}
			})
		}
	}
	return out
}

// performsMutation computes, per cache-package function, whether it (transitively, through static in-package
// calls) issues an unconditional mutator of the underlying map.
func performsMutation(r *Run) map[*ssa.Function]string {
	out := map[*ssa.Function]string{}
	for changed := true; changed; {
		changed = false
		for _, f := range r.P.Funcs {
			if f.Pkg != r.P.Cache || out[f] != "" {
				continue
			}
			core.Instrs(f, func(in ssa.Instruction) {
				c, ok := in.(ssa.CallInstruction)
				if !ok || out[f] != "" {
					return
				}
				if m, mm, ok := r.M.ItemsInvoke(c); ok && unconditionalMutator[m] {
					out[f] = mm.Name + "." + m
					changed = true
					return
				}
				if cal := core.Callee(c); cal != nil && out[cal] != "" {
					out[f] = out[cal] + " (via " + fn(cal) + ")"
					changed = true
				}
			})
		}
	}
	return out
}

type tocState struct {
	Obs bool
	Key ssa.Value
}

// tocKeyValue: the SSA value standing for a key variable, if it is one that is defined by an instruction of the
// function (a loop variable: phi, extract of a range step, load); parameters and constants never change.
func tocKeyValue(v ssa.Value) ssa.Value {
	v = core.StripConv(v)
	if mi, ok := v.(*ssa.MakeInterface); ok {
		v = core.StripConv(mi.X)
	}
	switch v.(type) {
	case *ssa.Phi, *ssa.Extract, *ssa.UnOp, *ssa.Lookup, *ssa.Index, *ssa.Field:
		return v
	}
	return nil
}

// toctouCheck reports, for each function in fns, every unconditional mutator of the underlying map that can
// execute after an earlier observation of the map in the same call (for closures handed to Range: after the
// snapshot they receive). One obligation per function.
func toctouCheck(r *Run, rep *core.Report, rule string, fns []*ssa.Function) int {
	obs := performsObservation(r)
	mut := performsMutation(r)
	// closures that receive a Range snapshot
	snapshot := map[*ssa.Function]bool{}
	for _, f := range r.P.Funcs {
		if f.Pkg != r.P.Cache {
			continue
		}
		core.Instrs(f, func(in ssa.Instruction) {
			if c, ok := in.(ssa.CallInstruction); ok {
				if m, _, ok := r.M.ItemsInvoke(c); ok && m == "Range" {
					for _, a := range c.Common().Args {
						if mc, ok := a.(*ssa.MakeClosure); ok {
							snapshot[mc.Fn.(*ssa.Function)] = true
						}
						if fv, ok := a.(*ssa.Function); ok {
							snapshot[fv] = true
						}
					}
				}
			}
		})
	}
	n := 0
	for _, f := range fns {
		if f == nil {
			continue
		}
		n++
		// state: an observation was made, and of which key (an SSA value of f; nil = unknown / several). An observation
		// of a key variable that is then assigned anew (the next iteration of a loop over keys: DeleteMulti, GetMulti)
		// says nothing about the new key: it is dropped when the variable's defining instruction executes again.
		m := &core.Machine[tocState]{P: r.P, Fn: f, Spec: core.Spec{}, Init: tocState{Obs: snapshot[f]}}
		type hit struct {
			in  ssa.Instruction
			msg string
			at  core.Node[tocState]
		}
		var hits []hit
		observe := func(s tocState, key ssa.Value) tocState {
			if s.Obs && s.Key != key {
				key = nil
			}
			return tocState{Obs: true, Key: key}
		}
		m.Step = func(ctx *core.Ctx[tocState], s tocState, in ssa.Instruction) []tocState {
			if v, isV := in.(ssa.Value); isV && s.Obs && s.Key != nil && v == s.Key {
				s = tocState{}
			}
			c, ok := in.(ssa.CallInstruction)
			if !ok {
				return []tocState{s}
			}
			if meth, mm, ok := r.M.ItemsInvoke(c); ok {
				if unconditionalMutator[meth] && s.Obs {
					what := "an earlier map operation of this call"
					if snapshot[f] {
						what = "the Range snapshot this visitor received"
					}
					hits = append(hits, hit{in, fmt.Sprintf("%s.%s is issued after %s: the entry may have been replaced in between (check-then-act), so a fresh value can be overwritten or removed", mm.Name, meth, what), ctx.Node})
				}
				if observingOp[meth] {
					var key ssa.Value
					if args := c.Common().Args; len(args) > 0 && c.Common().IsInvoke() {
						key = tocKeyValue(args[0])
					}
					s = observe(s, key)
				}
				return []tocState{s}
			}
			if cal := core.Callee(c); cal != nil {
				if what := mut[cal]; what != "" && s.Obs && cal != f {
					hits = append(hits, hit{in, fmt.Sprintf("%s, which issues the unconditional mutation %s, is called after an earlier map observation of this call: the entry may have been replaced in between (check-then-act), so a fresh value can be overwritten or removed", fn(cal), what), ctx.Node})
				}
				if obs[cal] {
					// the key is the callee's first parameter after the receiver when that is what it hands to the map
					var key ssa.Value
					if args := c.Common().Args; len(args) > 1 && cal.Signature.Recv() != nil {
						key = tocKeyValue(args[1])
					}
					s = observe(s, key)
				}
			}
			return []tocState{s}
		}
		m.Run()
		if len(hits) == 0 {
			rep.Pass(rule, fn(f)+" no check-then-act", r.P.Pos(f.Pos()), "no unconditional map mutation follows an earlier observation in this call")
			continue
		}
		seen := map[ssa.Instruction]bool{}
		for _, h := range hits {
			if seen[h.in] {
				continue
			}
			seen[h.in] = true
			rep.Fail(rule, fn(f)+" check-then-act", r.P.InstrPos(h.in), h.msg, m.Trace(h.at)...)
		}
	}
	return n
}

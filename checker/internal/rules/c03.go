package rules

import (
	"fmt"
	"go/constant"
	"go/token"
	"go/types"
	"strings"

	"cachelint/internal/core"

	"golang.org/x/tools/go/ssa"
)

func init() {
	Registry["C03"] = func(r *Run) *core.Report { return mapProtocol(r, "C03", 0) }
	Registry["C04"] = func(r *Run) *core.Report { return mapProtocol(r, "C04", 1) }
	expl := func(which, p1 string) string {
		return "Linearizability of " + which + " is NOT decided (it quantifies over interleavings). Decided, on every CFG path, are the protocol-shape obligations without which this design cannot be linearizable: " + p1 + " - decided for Load (or, when Load only hands out what one shared reader found, for that reader) and for every other function reachable from the API that reads a bucket slot outside the chain's lock and returns a (value, found) pair or a pointer with nil for 'not found'; (P2) unique value pointers / immutable entries (slot pointers are per-call allocations, published entries are never written); (P3) after taking the bucket lock a writer touches the bucket only after seeing the resize flag clear and then the table pointer unchanged, in that order, and a bucket-word write justified by the lock occurs in the compute core (or in a function only it calls) and nowhere else - the validation is decided on the core's paths; (P4) in resize all bucket copies precede the single publishing store of the very table they filled, which precedes clearing the flag, and the table pointer is stored nowhere else except the constructor; (P5) bucket words are written only under the bucket lock: in the compute core on every path, and at every other write of a bucket word - atomic store, swap, add or compare-and-swap, or plain - in any function reachable from the public API, unless the bucket written is not yet published (the copy's destination, a new overflow bucket); (P6) the copy runs under the source bucket's lock and leaves the source intact; (P7) Clear's resize request reaches the publishing store of a fresh table on every path to its return (it cannot be dropped); (P8) bucket array, mask and seed of an attempt come from one table value, in every function reachable from the API that selects a bucket by a hashed key; (P10) a packed bucket word (meta / top-hash) is rewritten from a read of the same bucket's word; (P11) the lock-free lookup - and any other lock-free reader whose 'not found' some caller takes as final (returns without going on to the compute core) - reports a key absent only on a path whose last chain-link test saw 'next == nil'; (P3a/b) the resize flag goes 0 -> one non-zero constant -> 0 and every test of it tells that constant from 0, and the table re-check compares pointer identity; (P12) packed-word arithmetic is carried out in 64 bits; (P14) a slot write pairs a bucket with an index found in that very bucket (both used directly, or remembered together; one index value, one bucket value)."
	}
	Metas["C03"] = Meta{Explanation: expl("Map", "(P1) the lock-free reader returns a value only after reading the value pointer, then the key pointer, matching the key, and re-reading the same value slot unchanged"),
		Rule:        "one obligation per (rule, function/specialisation, exit | site); non-trivial = decided by exploring the product of the CFG with the protocol automaton or by a provenance query",
		Assumptions: []string{"sync/atomic operations are sequentially consistent", "C13/C14 (lock pairing, access discipline) checked separately"}}
	Metas["C04"] = Meta{Explanation: expl("MapOf", "(P1') the lock-free reader returns the value field of the one entry pointer it loaded atomically and whose key field it compared equal with =="),
		Rule: Metas["C03"].Rule, Assumptions: Metas["C03"].Assumptions}
}

func mapProtocol(r *Run, prop string, idx int) *core.Report {
	rep := core.NewReport(prop)
	if !modelOKFor(r, rep, prop+".P0", []string{"map0", "map1"}[idx]) {
		return rep
	}
	mm := r.M.Maps[idx]
	if mm.EntryT == "" {
		p1Snapshot(r, rep, prop, mm)
	} else {
		p1Entry(r, rep, prop, mm)
	}
	p1Elsewhere(r, rep, prop, mm)
	p2Unique(r, rep, prop, mm)
	p3p5Core(r, rep, prop, mm)
	p5Everywhere(r, rep, prop, mm)
	p4Resize(r, rep, prop, mm)
	p6Copy(r, rep, prop, mm)
	p7Clear(r, rep, prop, mm)
	p8Root(r, rep, prop, mm)
	p10RMW(r, rep, prop, mm)
	p11Absence(r, rep, prop+".P11", mm)
	p3Helpers(r, rep, prop+".P3", mm)
	p12WordWidth(r, rep, prop+".P12")
	if mm.LockKind == "spin" {
		// the packed top-hash word's bit layout for the analysed target (same evaluation as C11.L2b)
		if obj := r.P.Xsync.Pkg.Scope().Lookup(mm.BucketT[len(mm.BucketT)-1]); obj != nil {
			if st := core.StructOf(obj.Type()); st != nil {
				n := 0
				for i := 0; i < st.NumFields(); i++ {
					if at, ok := st.Field(i).Type().(*types.Array); ok {
						n = int(at.Len())
					}
				}
				tmp := core.NewReport(prop)
				c11MaskLayout(r, tmp, n)
				borrow(rep, tmp, prop+".P10", "C11.L2b")
			}
		}
	}
	// P15: every return of the compute core does what its operation's sequential contract says (result roles and map
	// effect per class and mode - in particular a load-if-exists call that finds the key neither calls the function
	// nor writes): restated from C11.L1 for this map's core and wrappers
	{
		tmp := core.NewReport(prop)
		c11L1(r, tmp)
		sub := core.NewReport(prop)
		for _, o := range tmp.Obs {
			if strings.Contains(o.Construct, "(*"+mm.Name+")") {
				sub.Obs = append(sub.Obs, o)
			}
		}
		n15 := borrow(rep, sub, prop+".P15", "C11.L1")
		rep.MinCount(prop+".P15", "premise obligations (operation contract of the compute core)", n15, 8)
	}
	if idx == 1 {
		// P13 (generic keys): keys that compare equal hash equal under every seed (restated from C10)
		n13 := borrow(rep, C10(r), prop+".P13", "C10.H")
		rep.MinCount(prop+".P13", "premise obligations (hash agrees with ==)", n13, 4)
	} else {
		// P13 (string keys): equal strings hash equal - the byte hash is applied to exactly the bytes of the key, wherever
		// they are in memory (restated from C10.H3 for the functions that hash strings)
		n13 := 0
		for _, o := range C10(r).Obs {
			if o.Trivial || o.Rule != "C10.H3" || !strings.Contains(o.Construct, "memhash") {
				continue
			}
			c := *o
			c.Construct = "[" + o.Rule + "] " + o.Construct
			c.Rule = prop + ".P13"
			rep.Obs = append(rep.Obs, &c)
			n13++
		}
		rep.MinCount(prop+".P13", "premise obligations (the string hash reads the key's bytes)", n13, 1)
	}
	return rep
}

// p3Helpers: the two tests of the post-lock validation mean what the protocol needs.
// (a) The resize flag: the winning CAS installs one non-zero constant K over 0, the owner's store puts 0 back, and
// every comparison a reader makes with the loaded flag tells K from 0 (a test that is false for the value the
// owner installs does not see the running resize). (b) The table re-check compares the *identity* of the table the
// attempt used with the current table pointer - any other relation between the two (equal lengths, equal seeds)
// lets a writer validate against a table that was replaced and replaced again (ABA), and its update is lost.
func p3Helpers(r *Run, rep *core.Report, rule string, mm *core.MapModel) {
	// (a) flag values
	var ks []constant.Value
	okCAS := true
	why := ""
	nTests := 0
	for _, f := range r.P.Funcs {
		if f.Pkg != r.P.Xsync || core.AtomicAccessor(f) {
			continue
		}
		core.Instrs(f, func(in ssa.Instruction) {
			c, ok := in.(ssa.CallInstruction)
			if !ok {
				return
			}
			op, addr, isAt := core.AtomicOp(c)
			if !isAt || !mm.IsFlag(core.Addr(addr)) {
				return
			}
			args := core.AtomicArgs(c)
			switch op {
			case "CAS":
				if len(args) < 2 {
					return
				}
				oldV, newV := args[len(args)-2], args[len(args)-1]
				ko, isKo := core.StripConv(oldV).(*ssa.Const)
				kn, isKn := core.StripConv(newV).(*ssa.Const)
				if !isKo || !isKn || ko.Value == nil || kn.Value == nil {
					okCAS, why = false, "the CAS on the resize flag at "+r.P.InstrPos(in)+" does not install a constant: the value readers must recognise as 'resize in progress' depends on run-time data"
					return
				}
				if constSign(ko.Value) != 0 || constSign(kn.Value) == 0 {
					okCAS, why = false, "the CAS on the resize flag at "+r.P.InstrPos(in)+" is not 0 -> non-zero"
					return
				}
				ks = append(ks, kn.Value)
			case "Store":
				if len(args) == 0 {
					okCAS, why = false, "the value stored into the resize flag at "+r.P.InstrPos(in)+" is not resolvable"
					return
				}
				k, isK := core.StripConv(args[len(args)-1]).(*ssa.Const)
				if !isK || k.Value == nil || constSign(k.Value) != 0 {
					okCAS, why = false, "the resize flag is stored with something other than 0 at "+r.P.InstrPos(in)
				}
			}
		})
	}
	for i := 1; i < len(ks); i++ {
		if !constant.Compare(ks[0], token.EQL, ks[i]) {
			okCAS, why = false, "the resize flag is raised with different constants"
		}
	}
	pos := "-"
	if mm.Resize != nil {
		pos = r.P.Pos(mm.Resize.Pos())
	}
	if len(ks) == 0 && okCAS {
		rep.Undecided(rule, mm.Name+" resize flag values", pos, "no CAS on the resize flag found")
	} else {
		rep.Check(okCAS, rule, mm.Name+" resize flag values", pos, "the flag goes 0 -> one non-zero constant (CAS) -> 0 (store)", why)
	}
	if okCAS && len(ks) > 0 {
		K := ks[0]
		for _, f := range r.P.Funcs {
			if f.Pkg != r.P.Xsync {
				continue
			}
			core.Instrs(f, func(in ssa.Instruction) {
				b, ok := in.(*ssa.BinOp)
				if !ok {
					return
				}
				for _, pair := range [][2]ssa.Value{{b.X, b.Y}, {b.Y, b.X}} {
					a, isLoad := atomicLoadPath(pair[0])
					k, isK := core.StripConv(pair[1]).(*ssa.Const)
					if !isLoad || !mm.IsFlag(a) || !isK || k.Value == nil {
						continue
					}
					op := b.Op
					x, y := K, k.Value
					z := constant.MakeInt64(0)
					if pair[0] != b.X {
						// constant on the left: mirror the comparison
						switch op {
						case token.LSS:
							op = token.GTR
						case token.GTR:
							op = token.LSS
						case token.LEQ:
							op = token.GEQ
						case token.GEQ:
							op = token.LEQ
						}
					}
					switch op {
					case token.EQL, token.NEQ, token.LSS, token.GTR, token.LEQ, token.GEQ:
					default:
						return
					}
					nTests++
					atK := constant.Compare(x, op, y)
					at0 := constant.Compare(z, op, y)
					rep.Check(atK != at0, rule, fn(f)+" flag test tells idle from resizing", r.P.InstrPos(in),
						fmt.Sprintf("the comparison is %v for the owner's value %s and %v for 0", atK, K.ExactString(), at0),
						fmt.Sprintf("the comparison of the resize flag with %s gives the same answer (%v) for the value the resize owner installs (%s) and for 0: a running resize is not recognised, writers go on modifying buckets that were already copied", k.Value.ExactString(), atK, K.ExactString()))
					return
				}
			})
		}
		// a boolean flag word (atomic.Bool): the loaded value is the test, true exactly for the owner's value
		if K.Kind() == constant.Bool {
			for _, f := range r.P.Funcs {
				if f.Pkg != r.P.Xsync || core.AtomicAccessor(f) {
					continue
				}
				core.Instrs(f, func(in ssa.Instruction) {
					c, ok := in.(*ssa.Call)
					if !ok {
						return
					}
					if op, addr, isAt := core.AtomicOp(c); isAt && op == "Load" && mm.IsFlag(core.Addr(addr)) {
						if b, isB := c.Type().Underlying().(*types.Basic); isB && b.Kind() == types.Bool {
							nTests++
							rep.Pass(rule, fn(f)+" flag test tells idle from resizing", r.P.InstrPos(in), "the flag is a boolean: the loaded value is true exactly while a resize owns it")
						}
					}
				})
			}
		}
		rep.MinCount(rule, mm.Name+" resize flag tests", nTests, 1)
	}
	// (b) table identity
	if g := mm.NewerTbl; g != nil {
		okID := true
		whyID := ""
		nRet := 0
		core.Instrs(g, func(in ssa.Instruction) {
			ret, ok := in.(*ssa.Return)
			if !ok || len(ret.Results) != 1 {
				return
			}
			nRet++
			v := ret.Results[0]
			for {
				if u, isU := v.(*ssa.UnOp); isU && u.Op == token.NOT {
					v = u.X
					continue
				}
				break
			}
			b, isB := v.(*ssa.BinOp)
			if !isB || (b.Op != token.EQL && b.Op != token.NEQ) {
				okID, whyID = false, "the helper's result is not an (in)equality of two table pointers"
				return
			}
			sawLoad, sawParam := false, false
			for _, side := range []ssa.Value{b.X, b.Y} {
				if a, isLoad := atomicLoadPath(side); isLoad && a.Owner == mm.Name && a.Field == mm.TableF {
					sawLoad = true
					continue
				}
				if prm, isP := core.StripConv(side).(*ssa.Parameter); isP && core.NamedOf(prm.Type()) == mm.TableT {
					sawParam = true
				}
			}
			if !sawLoad || !sawParam {
				okID, whyID = false, "the helper does not compare the current table pointer itself with the table it was given (it compares something derived from them: lengths, seeds, ...): two different tables can pass for the same one (ABA after grow+shrink or Clear)"
			}
		})
		if nRet == 0 {
			rep.Undecided(rule, fn(g)+" compares table identity", r.P.Pos(g.Pos()), "no return found")
		} else {
			rep.Check(okID, rule, fn(g)+" compares table identity", r.P.Pos(g.Pos()), "the re-check is pointer identity of the attempt's table with the current table", whyID)
		}
	}
}

// p12WordWidth: the packed 64-bit bucket words (meta bytes, top hashes, lock bit) are computed in 64 bits. A left
// shift carried out in a platform-sized integer type (int, uint, uintptr) whose result is then widened to a 64-bit
// type loses the upper half on 32-bit platforms: the fifth and later byte lanes of a word are then never set or
// cleared there.
func p12WordWidth(r *Run, rep *core.Report, rule string) {
	n := 0
	for _, f := range r.P.Funcs {
		if f.Pkg != r.P.Xsync {
			continue
		}
		core.Instrs(f, func(in ssa.Instruction) {
			cv, ok := in.(*ssa.Convert)
			if !ok {
				return
			}
			dst, isB := cv.Type().Underlying().(*types.Basic)
			if !isB || (dst.Kind() != types.Uint64 && dst.Kind() != types.Int64) {
				return
			}
			src, isB2 := cv.X.Type().Underlying().(*types.Basic)
			if !isB2 || (src.Kind() != types.Int && src.Kind() != types.Uint && src.Kind() != types.Uintptr) {
				return
			}
			// does the converted value come from a left shift by a non-constant or large amount?
			var shl *ssa.BinOp
			var walk func(v ssa.Value, d int)
			walk = func(v ssa.Value, d int) {
				if d > 6 || shl != nil {
					return
				}
				switch x := v.(type) {
				case *ssa.BinOp:
					if x.Op == token.SHL {
						if k, isK := core.ConstInt(x.Y); !isK || k >= 8 {
							if _, isConstVal := x.X.(*ssa.Const); isConstVal || true {
								shl = x
							}
						}
						return
					}
					switch x.Op {
					case token.AND, token.OR, token.XOR, token.AND_NOT, token.ADD, token.SUB:
						walk(x.X, d+1)
						walk(x.Y, d+1)
					}
				case *ssa.UnOp:
					if x.Op == token.XOR {
						walk(x.X, d+1)
					}
				case *ssa.Phi:
					for _, e := range x.Edges {
						walk(e, d+1)
					}
				}
			}
			walk(cv.X, 0)
			n++
			rep.Check(shl == nil, rule, fn(f)+" 64-bit word arithmetic", r.P.InstrPos(in), "no platform-sized left shift is widened to 64 bits",
				"a left shift is evaluated in a platform-sized integer type ("+src.Name()+") and only then widened to "+dst.Name()+": on 32-bit platforms the bits for byte lanes 4-7 of the packed word are lost")
		})
	}
	_ = n
}

// p11Absence: the lock-free lookup reports a key absent only after it has followed the chain to its end. A
// not-found return (constant false in the result that tells presence) must lie on a path whose last link test
// saw 'next == nil'; any earlier exit (an empty-looking bucket, a free slot, a hash mismatch) loses keys that
// live further down the chain - slots are freed by deletes and reused, so no occupancy pattern of an earlier
// bucket implies the end of the chain.
func p11Absence(r *Run, rep *core.Report, rule string, mm *core.MapModel) {
	if h := loadDelegate(r, core.NewReport("tmp"), "tmp", mm); h != nil {
		p11AbsenceOn(r, rep, rule, mm, h) // Load's 'not found' is its reader's
	} else {
		p11AbsenceOn(r, rep, rule, mm, mm.Methods["Load"])
	}
	// a second lock-free reader whose 'not found' some caller takes as final (it returns without going on to the locked
	// read-modify-write) answers the same question as Load and must not give up before the end of the chain either; one
	// that is only a fast path in front of the locked operation may give up whenever it likes
	readers, _ := secondReaders(r, mm)
	_, others := secondReadersAll(r, mm)
	hd := loadDelegate(r, core.NewReport("tmp"), "tmp", mm)
	for _, g := range append(readers, others...) {
		if g != hd && missTakenAsFinal(r, mm, g) {
			p11AbsenceOn(r, rep, rule, mm, g)
		}
	}
}

// missTakenAsFinal: at some call site of reader g, a path from the 'not found' edge of the test of g's found flag
// reaches a return of the caller without a call that leads into the compute core.
func missTakenAsFinal(r *Run, mm *core.MapModel, g *ssa.Function) bool {
	final := false
	for _, site := range core.CallSitesOf(r.P.Funcs, g) {
		call, ok := site.(*ssa.Call)
		if !ok {
			continue
		}
		h := call.Parent()
		// blocks entered on the miss edge of a branch on g's found flag
		for _, b := range h.Blocks {
			if !onFlagEdge(b, call, false) {
				continue
			}
			seen := map[*ssa.BasicBlock]bool{}
			var walk func(x *ssa.BasicBlock)
			walk = func(x *ssa.BasicBlock) {
				if seen[x] || final {
					return
				}
				seen[x] = true
				for _, in := range x.Instrs {
					if c, isC := in.(ssa.CallInstruction); isC {
						if cal := core.Callee(c); cal != nil {
							if cal == mm.Core {
								return
							}
							if cc, _ := coreCallOf(mm, cal, 0); cc != nil {
								return
							}
						}
					}
					if _, isRet := in.(*ssa.Return); isRet {
						final = true
						return
					}
				}
				for _, n := range x.Succs {
					walk(n)
				}
			}
			walk(b)
		}
	}
	return final
}

// onFlagEdge: like onEdgeOf, for a reader whose found flag is its second result or its only (boolean) result.
func onFlagEdge(b *ssa.BasicBlock, call *ssa.Call, hit bool) bool {
	if onEdgeOf(b, call, hit) {
		return true
	}
	if len(b.Preds) != 1 {
		return false
	}
	p := b.Preds[0]
	iff, ok := p.Instrs[len(p.Instrs)-1].(*ssa.If)
	if !ok {
		return false
	}
	cond := iff.Cond
	neg := false
	for {
		if u, isU := cond.(*ssa.UnOp); isU && u.Op == token.NOT {
			neg = !neg
			cond = u.X
			continue
		}
		break
	}
	if bo, isB := cond.(*ssa.BinOp); isB && (bo.Op == token.NEQ || bo.Op == token.EQL) {
		// a reader that returns a pointer: 'p != nil' is its found flag
		var other ssa.Value
		switch {
		case core.StripConv(bo.X) == ssa.Value(call):
			other = bo.Y
		case core.StripConv(bo.Y) == ssa.Value(call):
			other = bo.X
		}
		if other == nil || !core.IsNilConst(other) {
			return false
		}
		if bo.Op == token.EQL {
			neg = !neg
		}
		hitIdx := 0
		if neg {
			hitIdx = 1
		}
		if hit {
			return p.Succs[hitIdx] == b
		}
		return p.Succs[1-hitIdx] == b
	}
	if cond != ssa.Value(call) {
		return false
	}
	hitIdx := 0
	if neg {
		hitIdx = 1
	}
	if hit {
		return p.Succs[hitIdx] == b
	}
	return p.Succs[1-hitIdx] == b
}

func p11AbsenceOn(r *Run, rep *core.Report, rule string, mm *core.MapModel, f *ssa.Function) {
	if f == nil {
		return
	}
	rep.Fn(fn(f))
	m := &core.Machine[bool]{P: r.P, Fn: f, Spec: core.Spec{}, Inline: helperInline(r)}
	bad := ""
	var badIn ssa.Instruction
	nAbs := 0
	m.Step = func(ctx *core.Ctx[bool], s bool, in ssa.Instruction) []bool {
		ret, ok := in.(*ssa.Return)
		if !ok || ctx.Frame != nil {
			return []bool{s}
		}
		for _, res := range ret.Results {
			_, isPtr := res.Type().Underlying().(*types.Pointer)
			if bt, isB := res.Type().Underlying().(*types.Basic); isB && bt.Kind() == types.UnsafePointer {
				isPtr = true
			}
			nilMiss := len(ret.Results) == 1 && isPtr && core.IsNilConst(res) // a reader that returns a pointer: nil is 'not found'
			if b, isC := core.ConstBool(res); (isC && !b) || nilMiss {
				nAbs++
				if !s && bad == "" {
					bad = "the lookup reports the key absent on a path that has not reached the end of the bucket chain (next == nil): a key stored further down the chain is reported missing"
					badIn = in
				}
			}
		}
		return []bool{s}
	}
	m.Edge = chainEndEdge(r)
	m.Run()
	pos := r.P.Pos(f.Pos())
	if badIn != nil {
		pos = r.P.InstrPos(badIn)
	}
	if nAbs == 0 {
		rep.Undecided(rule, fn(f)+" absence only at the chain end", pos, "no return with a constant 'not found' result was found in the lookup")
		return
	}
	rep.Check(bad == "", rule, fn(f)+" absence only at the chain end", pos, "every not-found return follows a 'next == nil' test of the chain walk", bad)
}

// ---- P1: reader snapshot (pointer-pair layout) ----

type snapState struct {
	Seq    uint8 // 0 none; 1 value ptr loaded; 2 key ptr loaded; 3 key matched; 4 value slot re-read equal
	VP     ssa.Value
	KP     ssa.Value
	Reload ssa.Value
}

func p1Snapshot(r *Run, rep *core.Report, prop string, mm *core.MapModel) {
	if h := loadDelegate(r, rep, prop, mm); h != nil {
		return // Load hands out what a shared reader found: that reader is judged by p1Elsewhere
	}
	p1SnapshotOn(r, rep, prop, mm, mm.Methods["Load"])
}

// loadDelegate: Load reads no bucket slot itself and every 'found' return of it is on the found edge of one call of a
// lock-free reader of this map, handing out what that call returned (the value behind the returned pointer / a field of
// the returned entry). The reader is returned, and the delegation recorded as a P1 obligation of Load.
func loadDelegate(r *Run, rep *core.Report, prop string, mm *core.MapModel) *ssa.Function {
	load := mm.Methods["Load"]
	if load == nil {
		return nil
	}
	reads := false
	core.Instrs(load, func(in ssa.Instruction) {
		if c, ok := in.(*ssa.Call); ok {
			if op, addr, ok := core.AtomicOp(c); ok && op == "Load" {
				if k, _ := slotKind(r, addr); k == "slot" {
					reads = true
				}
			}
		}
	})
	if reads {
		return nil
	}
	readers, _ := secondReadersAll(r, mm)
	is := map[*ssa.Function]bool{}
	for _, f := range readers {
		is[f] = true
	}
	var h *ssa.Function
	var hcall *ssa.Call
	n := 0
	core.Instrs(load, func(in ssa.Instruction) {
		if c, ok := in.(*ssa.Call); ok && is[core.Callee(c)] {
			h, hcall = core.Callee(c), c
			n++
		}
	})
	if n != 1 {
		return nil
	}
	bad := ""
	nFound := 0
	core.Instrs(load, func(in ssa.Instruction) {
		ret, ok := in.(*ssa.Return)
		if !ok {
			return
		}
		if found, _ := foundReturn(ret); !found {
			return
		}
		nFound++
		if !onFlagEdge(ret.Block(), hcall, true) {
			bad = "a found-return of Load is not on the found edge of its reader call"
			return
		}
		if !derivesFromCall(ret.Results[0], hcall) {
			bad = "the value Load returns is not what its reader call found"
		}
	})
	if nFound == 0 {
		return nil
	}
	rep.Check(bad == "", prop+".P1", fn(load)+" hands out what its reader found", r.P.Pos(load.Pos()), "every found-return is on the found edge of "+fn(h)+" and returns what that call returned", bad)
	return h
}

// derivesFromCall: v is the call's result (or one of its results), possibly dereferenced, converted, passed through a
// one-argument helper or with a field selected.
func derivesFromCall(v ssa.Value, call *ssa.Call) bool {
	for i := 0; i < 8 && v != nil; i++ {
		v = core.StripConv(v)
		if v == ssa.Value(call) {
			return true
		}
		switch x := v.(type) {
		case *ssa.Extract:
			v = x.Tuple
		case *ssa.Call:
			if len(x.Call.Args) != 1 {
				return false
			}
			v = x.Call.Args[0]
		case *ssa.UnOp:
			v = x.X
		case *ssa.FieldAddr:
			v = x.X
		case *ssa.Field:
			v = x.X
		default:
			return false
		}
	}
	return false
}

func p1SnapshotOn(r *Run, rep *core.Report, prop string, mm *core.MapModel, f *ssa.Function) {
	rep.Fn(fn(f))
	valueField, keyField := "", ""
	// the value slot is the one whose loaded pointer is dereferenced into the returned value; the key slot the one compared with the key
	m := &core.Machine[snapState]{P: r.P, Fn: f, Spec: core.Spec{}}
	found := 0
	type res struct {
		ok  bool
		msg string
		at  core.Node[snapState]
	}
	results := map[*ssa.Return]res{}
	m.Step = func(ctx *core.Ctx[snapState], s snapState, in ssa.Instruction) []snapState {
		if c, ok := in.(*ssa.Call); ok {
			if op, addr, ok := core.AtomicOp(c); ok && op == "Load" {
				if k, a := slotKind(r, addr); k == "slot" {
					switch {
					case s.Seq == 3 && s.VP != nil && core.Addr(addr).Canon() == core.Addr(atomicAddrOf(s.VP)).Canon():
						s.Reload = c
					case s.Seq == 1 && a.Field != core.Addr(atomicAddrOf(s.VP)).Field:
						s.Seq, s.KP = 2, c
						keyField = a.Field
					default:
						s = snapState{Seq: 1, VP: c}
					}
				}
			}
		}
		if ret, ok := in.(*ssa.Return); ok && ctx.Frame == nil {
			if isFound, ptrShape := foundReturn(ret); isFound {
				found++
				okv := s.Seq == 4
				msg := ""
				if !okv {
					msg = fmt.Sprintf("found-return reached with snapshot step %d/4 (value pointer -> key pointer -> key equal -> value slot re-read unchanged): a slot reused for another key between the reads yields another key's value", s.Seq)
				} else {
					// returned value derives from the first value pointer (a reader that returns the value pointer itself,
					// nil meaning 'not found', returns that very pointer)
					v := core.StripConv(ret.Results[0])
					if ptrShape {
						// as is
					} else if c, isCall := v.(*ssa.Call); isCall && len(c.Call.Args) == 1 {
						v = core.StripConv(c.Call.Args[0])
					} else if u, isU := v.(*ssa.UnOp); isU {
						v = core.StripConv(u.X)
					}
					if v != s.VP {
						okv = false
						msg = "the returned value is not read through the value pointer that was validated by the snapshot"
					} else if a := atomicAddrOf(s.VP); a != nil {
						valueField = core.Addr(a).Field
					}
				}
				if prev, seen := results[ret]; !seen || (prev.ok && !okv) {
					results[ret] = res{okv, msg, ctx.Node}
				}
			}
		}
		return []snapState{s}
	}
	m.Edge = func(ctx *core.Ctx[snapState], s snapState, from *ssa.BasicBlock, idx int) (snapState, bool) {
		iff, ok := from.Instrs[len(from.Instrs)-1].(*ssa.If)
		if !ok {
			return s, true
		}
		cond := iff.Cond
		neg := false
		for {
			if u, isU := cond.(*ssa.UnOp); isU && u.Op == token.NOT {
				neg = !neg
				cond = u.X
				continue
			}
			break
		}
		b, isB := cond.(*ssa.BinOp)
		if !isB || (b.Op != token.EQL && b.Op != token.NEQ) {
			return s, true
		}
		eqEdge := ((b.Op == token.EQL) != neg) == (idx == 0)
		// key equality: string operands, one derived from KP
		if isKeyType(mm, b.X.Type()) && isKeyType(mm, b.Y.Type()) {
			if s.Seq == 2 && (derivesFrom(b.X, s.KP) || derivesFrom(b.Y, s.KP)) {
				if eqEdge {
					s.Seq = 3
				} else {
					s.Seq = 0
				}
			} else if eqEdge && s.Seq != 2 {
				// a key match that is not on the snapshot's key pointer does not advance the snapshot
			}
			return s, true
		}
		// re-validation compare
		if s.Seq == 3 && s.Reload != nil {
			x, y := core.StripConv(b.X), core.StripConv(b.Y)
			if (x == s.VP && y == s.Reload) || (y == s.VP && x == s.Reload) {
				if eqEdge {
					s.Seq = 4
				} else {
					s = snapState{}
				}
			}
		}
		return s, true
	}
	m.Run()
	for ret, rs := range results {
		if rs.ok {
			rep.Pass(prop+".P1", fn(f)+" found-return", r.P.InstrPos(ret), "atomic snapshot order value-ptr, key-ptr, key==, value slot re-read equal holds on every path (value slot "+valueField+", key slot "+keyField+")")
		} else {
			rep.Fail(prop+".P1", fn(f)+" found-return", r.P.InstrPos(ret), rs.msg, m.Trace(rs.at)...)
		}
	}
	rep.MinCount(prop+".P1", p1Label(mm, f), len(results), 1)
}

func atomicAddrOf(v ssa.Value) ssa.Value {
	if v == nil {
		return nil
	}
	a, _ := atomicLoadAddr(v)
	return a
}

// derivesFrom: v is computed from base through conversions, a single-argument helper call or a dereference.
func derivesFrom(v, base ssa.Value) bool {
	for i := 0; i < 6 && v != nil; i++ {
		v = core.StripConv(v)
		if v == base {
			return true
		}
		switch x := v.(type) {
		case *ssa.Call:
			if len(x.Call.Args) == 1 {
				v = x.Call.Args[0]
				continue
			}
		case *ssa.UnOp:
			v = x.X
			continue
		case *ssa.FieldAddr:
			v = x.X
			continue
		}
		return false
	}
	return false
}

// ---- P1': reader over immutable entries ----

func p1Entry(r *Run, rep *core.Report, prop string, mm *core.MapModel) {
	if h := loadDelegate(r, rep, prop, mm); h != nil {
		return
	}
	p1EntryOn(r, rep, prop, mm, mm.Methods["Load"])
}

func p1EntryOn(r *Run, rep *core.Report, prop string, mm *core.MapModel, f *ssa.Function) {
	rep.Fn(fn(f))
	type st struct {
		E   ssa.Value // the atomically loaded entry pointer (converted)
		Hit bool
	}
	m := &core.Machine[st]{P: r.P, Fn: f, Spec: core.Spec{}}
	type res struct {
		ok  bool
		msg string
		at  core.Node[st]
	}
	results := map[*ssa.Return]res{}
	m.Step = func(ctx *core.Ctx[st], s st, in ssa.Instruction) []st {
		if c, ok := in.(*ssa.Call); ok {
			if op, addr, ok := core.AtomicOp(c); ok && op == "Load" {
				if k, _ := slotKind(r, addr); k == "slot" {
					s = st{E: c}
				}
			}
		}
		if ret, ok := in.(*ssa.Return); ok {
			if isFound, ptrShape := foundReturn(ret); isFound {
				okv, msg := true, ""
				if !s.Hit || s.E == nil {
					okv, msg = false, "found-return not dominated by a successful == comparison of the loaded entry's key with the lookup key: a hash-byte match alone is taken as a hit"
				} else if ptrShape {
					// a reader that returns the entry itself (nil meaning 'not found')
					if !derivesFrom(ret.Results[0], s.E) {
						okv, msg = false, "the returned entry is not the entry whose key was compared"
					}
				} else {
					ld, isLd := ret.Results[0].(*ssa.UnOp)
					if !isLd || !derivesFrom(ld.X, s.E) || core.Addr(ld.X).Owner != mm.EntryT {
						okv, msg = false, "the returned value is not a field of the entry whose key was compared (key and value could come from different entries)"
					}
				}
				if prev, seen := results[ret]; !seen || (prev.ok && !okv) {
					results[ret] = res{okv, msg, ctx.Node}
				}
			}
		}
		return []st{s}
	}
	m.Edge = func(ctx *core.Ctx[st], s st, from *ssa.BasicBlock, idx int) (st, bool) {
		iff, ok := from.Instrs[len(from.Instrs)-1].(*ssa.If)
		if !ok {
			return s, true
		}
		b, isB := iff.Cond.(*ssa.BinOp)
		if !isB || (b.Op != token.EQL && b.Op != token.NEQ) {
			return s, true
		}
		if isKeyType(mm, b.X.Type()) && isKeyType(mm, b.Y.Type()) && s.E != nil {
			var fld ssa.Value
			for _, o := range []ssa.Value{b.X, b.Y} {
				if ld, isLd := o.(*ssa.UnOp); isLd && derivesFrom(ld.X, s.E) && core.Addr(ld.X).Owner == mm.EntryT {
					fld = o
				}
			}
			if fld != nil {
				s.Hit = (b.Op == token.EQL) == (idx == 0)
			}
		}
		return s, true
	}
	m.Run()
	for ret, rs := range results {
		rep.Check(rs.ok, prop+".P1", fn(f)+" found-return", r.P.InstrPos(ret), "returns the value field of the single atomically loaded entry whose key compared equal", rs.msg, m.Trace(rs.at)...)
	}
	rep.MinCount(prop+".P1", p1Label(mm, f), len(results), 1)
}

// foundReturn: the return reports 'found' - (value, true) for a reader of the usual shape, a non-nil pointer for a
// reader that returns the value pointer / the entry itself with nil meaning 'not found' (ptrShape).
func foundReturn(ret *ssa.Return) (found, ptrShape bool) {
	switch len(ret.Results) {
	case 2:
		if b, isC := core.ConstBool(ret.Results[1]); isC && b {
			return true, false
		}
	case 1:
		if isPointerLike(ret.Results[0].Type()) && !core.IsNilConst(ret.Results[0]) {
			return true, true
		}
	}
	return false, false
}

func isPointerLike(t types.Type) bool {
	if _, ok := t.Underlying().(*types.Pointer); ok {
		return true
	}
	if bt, ok := t.Underlying().(*types.Basic); ok && bt.Kind() == types.UnsafePointer {
		return true
	}
	return false
}

// readerShaped: the function's results have a lock-free reader's shape.
func readerShaped(f *ssa.Function) bool {
	res := f.Signature.Results()
	if res.Len() == 2 && typeName(res.At(1).Type()) == "bool" {
		return true
	}
	return res.Len() == 1 && isPointerLike(res.At(0).Type())
}

func p1Label(mm *core.MapModel, f *ssa.Function) string {
	if f == mm.Methods["Load"] {
		return "found-returns of the lock-free reader"
	}
	return "found-returns of the lock-free reader " + fn(f)
}

// p1Elsewhere: P1 is a rule about *the* lock-free reader. Every other place that reads a bucket slot without the
// chain's lock (and not on an unpublished bucket) and returns a (value, found) pair is a second lock-free reader and
// is judged by the same rule - a fast path that skips the snapshot returns another key's value.
// Functions reached only through Load are part of the reader (the machine follows them).
func p1Elsewhere(r *Run, rep *core.Report, prop string, mm *core.MapModel) {
	readers, others := secondReaders(r, mm)
	for _, f := range readers {
		// a reader of its own: same rule
		if mm.EntryT == "" {
			p1SnapshotOn(r, rep, prop, mm, f)
		} else {
			p1EntryOn(r, rep, prop, mm, f)
		}
	}
	for _, n := range others {
		// any other shape (a presence test, a scan that returns nothing) hands out no value: what it *does* with what it
		// saw is judged by the write rules (P5: slot writes only under the lock)
		rep.Note(prop + ".P1: " + n + " and returns no (value, found) pair: not a reader in the sense of P1")
	}
}

// lockedWriteInCore: the write through addr in f, justified by the bucket lock, belongs to the compute core: f is the
// core (or called only by it), or addr derives from a parameter of f and at every call site the argument is an
// unpublished bucket (the copy's destination: nothing to validate) or the caller is, recursively, in the core.
func lockedWriteInCore(r *Run, inCore map[*ssa.Function]bool, f *ssa.Function, addr ssa.Value, depth int) bool {
	if inCore[f] {
		return true
	}
	if depth > 3 {
		return false
	}
	roots := bucketRoots(r, addr)
	if len(roots) == 0 {
		return false
	}
	for rt := range roots {
		prm, isP := rt.(*ssa.Parameter)
		if !isP {
			return false
		}
		idx := paramIndexOf(f, prm)
		sites := core.CallSitesOf(r.P.Funcs, f)
		if idx < 0 || len(sites) == 0 {
			return false
		}
		for _, site := range sites {
			if idx >= len(site.Common().Args) {
				return false
			}
			arg := site.Common().Args[idx]
			if fi := unpublishedAt(r, site.Parent(), arg, site, 0); fi.OK {
				continue
			}
			if !lockedWriteInCore(r, inCore, site.Parent(), arg, depth+1) {
				return false
			}
		}
	}
	return true
}

// onlyCalledFrom: root, its closures, and the functions every call of which is made by one of those (transitively).
func onlyCalledFrom(r *Run, reach map[*ssa.Function]bool, root *ssa.Function) map[*ssa.Function]bool {
	covered := map[*ssa.Function]bool{root: true}
	for changed := true; changed; {
		changed = false
		for _, f := range r.P.Funcs {
			if covered[f] || !reach[f] || f.Blocks == nil {
				continue
			}
			if f.Parent() != nil {
				if covered[f.Parent()] {
					covered[f] = true
					changed = true
				}
				continue
			}
			sites := core.CallSitesOf(r.P.Funcs, f)
			if len(sites) == 0 {
				continue
			}
			all := true
			for _, st := range sites {
				if !covered[st.Parent()] {
					all = false
				}
			}
			if all {
				covered[f] = true
				changed = true
			}
		}
	}
	return covered
}

// secondReaders: functions other than Load (and the helpers only Load calls) that read a bucket slot of this map
// without the chain's lock and not on an unpublished bucket; those with the reader's result shape (value, found) are
// returned as functions, the others described.
func secondReaders(r *Run, mm *core.MapModel) (readers []*ssa.Function, others []string) {
	readers, _ = secondReadersAll(r, mm)
	_, fs := secondReadersAll(r, mm)
	for _, f := range fs {
		others = append(others, fn(f)+" reads a bucket slot lock-free")
	}
	return readers, others
}

// secondReadersAll: as secondReaders, the functions of other shapes returned as functions (those with a boolean
// result only: a presence test).
func secondReadersAll(r *Run, mm *core.MapModel) (readers []*ssa.Function, others []*ssa.Function) {
	load := mm.Methods["Load"]
	mine := map[string]bool{}
	for _, b := range mm.BucketT {
		mine[b] = true
	}
	reach := apiReachable(r)
	// functions every call of which is made by the reader itself
	covered := onlyCalledFrom(r, reach, load)
	for _, f := range r.P.Funcs {
		if !reach[f] || covered[f] || f.Blocks == nil || r.M.Acquire[f] || r.M.Release[f] {
			continue
		}
		var first, firstAny ssa.Instruction
		var word core.AddrPath
		core.Instrs(f, func(in ssa.Instruction) {
			c, ok := in.(*ssa.Call)
			if !ok || first != nil {
				return
			}
			op, addr, ok := core.AtomicOp(c)
			if !ok || op != "Load" {
				return
			}
			k, a := slotKind(r, addr)
			if k == "" || !mine[a.Owner] {
				return
			}
			if fi := unpublishedAt(r, f, addr, in, 0); fi.OK {
				return
			}
			if ok, _ := lockCovers(r, f, addr, in, 0); ok {
				return
			}
			if k == "slot" {
				first, word = in, a
			} else if firstAny == nil {
				firstAny = in // a packed word or a chain link only: enough for a presence filter, not for a value
			}
		})
		if first == nil {
			// a filter that compares hash bits only and walks the links hands out no value either
			res := f.Signature.Results()
			if firstAny != nil && res.Len() == 1 && typeName(res.At(0).Type()) == "bool" && core.NamedOf(recvType(f)) == mm.Name {
				others = append(others, f)
			}
			continue
		}
		res := f.Signature.Results()
		if readerShaped(f) {
			readers = append(readers, f)
			continue
		}
		_ = word
		if res.Len() == 1 && typeName(res.At(0).Type()) == "bool" {
			others = append(others, f)
		}
	}
	return readers, others
}

// ---- P2: uniqueness / immutability (borrowed from the access rules) ----

func p2Unique(r *Run, rep *core.Report, prop string, mm *core.MapModel) {
	tmp := core.NewReport(prop)
	c14Accesses(r, tmp, apiReachable(r))
	n := 0
	for _, o := range tmp.Obs {
		if (o.Rule == "C14.A3" || o.Rule == "C14.A4") && !strings.HasPrefix(o.Construct, "nonvacuous") {
			mine := false
			for _, g := range []*ssa.Function{mm.Core, mm.Copy, mm.Append, mm.Resize, mm.NewTable} {
				if g != nil && strings.HasPrefix(o.Construct, fn(g)+" ") {
					mine = true
				}
			}
			for _, g := range mm.Methods {
				if strings.HasPrefix(o.Construct, fn(g)+" ") {
					mine = true
				}
			}
			if !mine {
				continue
			}
			n++
			c := *o
			c.Rule = prop + ".P2"
			c.Property = prop
			rep.Obs = append(rep.Obs, &c)
		}
	}
	rep.MinCount(prop+".P2", "slot-pointer / immutable-field writes", n, 3)
}

// ---- P3 / P5 from the compute-core flow ----

// p5Everywhere: P5 outside the compute core. Every write of a bucket word - atomic store, swap, add or
// compare-and-swap, or a plain store - made by any function reachable from the public API happens while the lock of
// the chain's root bucket is held, or on a bucket that is not published yet (the copy's destination, a new overflow
// bucket). A lock-free write of a slot, however atomic, is a second writer the locked read-modify-write does not
// serialise with: an update made between a locked writer's read and its write is overwritten.
func p5Everywhere(r *Run, rep *core.Report, prop string, mm *core.MapModel) {
	mine := map[string]bool{}
	for _, b := range mm.BucketT {
		mine[b] = true
	}
	reach := apiReachable(r)
	// the compute core and what only it calls: the one place whose locked writes are validated (P3)
	inCore := onlyCalledFrom(r, reach, mm.Core)
	n := 0
	for _, f := range r.P.Funcs {
		if !reach[f] || r.M.Acquire[f] || r.M.Release[f] || f.Blocks == nil {
			continue
		}
		if _, isW := r.M.Wrappers[f]; isW {
			continue
		}
		if _, isH := r.M.HelperWord[f]; isH {
			continue
		}
		seen := map[string]bool{}
		core.Instrs(f, func(in ssa.Instruction) {
			var addr ssa.Value
			op := ""
			switch x := in.(type) {
			case *ssa.Store:
				addr, op = x.Addr, "plain store"
			case ssa.CallInstruction:
				if _, isGo := in.(*ssa.Go); isGo {
					return
				}
				o, a, ok := core.AtomicOp(x)
				if !ok || o == "Load" {
					return
				}
				addr, op = a, "atomic "+o
			default:
				return
			}
			a := core.Addr(addr)
			if !mine[a.Owner] || a.Field == "" {
				return
			}
			if r.M.LockEventOf(in) != nil {
				return // the lock word's own operations
			}
			if ci, isCall := in.(ssa.CallInstruction); isCall && r.M.LockEventOfCall(ci) != nil {
				return
			}
			n++
			cons := fmt.Sprintf("%s %s of %s", fn(f), op, a.Key())
			if seen[cons] {
				// one obligation per (function, operation, word); every site is still judged
				cons = ""
			}
			ok, why := false, ""
			if fi := unpublishedAt(r, f, addr, in, 0); fi.OK {
				ok = true
			} else {
				ok, why = lockCovers(r, f, addr, in, 0)
				if ok && !lockedWriteInCore(r, inCore, f, addr, 0) {
					// a second locked writer: the lock alone is not enough - a resize copies a chain under this very lock and
					// then retires the table, so a writer must see the flag clear and the table unchanged after locking; that
					// is decided on the paths of the compute core only
					rep.Fail(prop+".P3", fmt.Sprintf("%s %s of %s under the lock, outside the compute core", fn(f), op, a.Key()), r.P.InstrPos(in),
						"a bucket word of a published table is written under the bucket lock by a function that is not the compute core ("+fn(mm.Core)+") nor called only by it: the post-lock validation (resize flag clear, then table pointer unchanged) is decided for the core's paths only, and a locked writer that skips it writes into a chain that is being copied or into a retired table (a lost update)")
				}
			}
			if cons == "" {
				if !ok {
					rep.Fail(prop+".P5", fmt.Sprintf("%s %s of %s", fn(f), op, a.Key()), r.P.InstrPos(in), "bucket word written without holding the lock of its chain's root bucket (and the bucket is not an unpublished one): "+why)
				}
				return
			}
			seen[cons] = true
			rep.Check(ok, prop+".P5", cons, r.P.InstrPos(in), "written under the lock of its chain's root bucket, or into a bucket not yet published",
				"bucket word written without holding the lock of its chain's root bucket (and the bucket is not an unpublished one): a lock-free write is not serialised with the locked read-modify-write of the same slot: "+why)
		})
	}
	rep.MinCount(prop+".P5", "bucket word writes examined", n, 6)
}

func p3p5Core(r *Run, rep *core.Report, prop string, mm *core.MapModel) {
	rep.Fn(fn(mm.Core))
	p14SameBucket(r, rep, prop+".P14", mm)
	for _, sp := range specsFor(r, mm.Core) {
		cf := coreFlow(r, mm, sp)
		rep.Spec(cf.Name)
		for _, tag := range []string{"P3", "P5", "P14"} {
			fds := cf.tagged(tag)
			for _, fd := range fds {
				rep.Fail(prop+"."+tag, cf.Name+" "+tag, r.P.InstrPos(fd.Instr), fd.Msg, cf.M.Trace(fd.At)...)
			}
			if len(fds) == 0 {
				msg := "every bucket access under the lock follows the flag-then-table validation"
				if tag == "P5" {
					msg = "bucket words are written only while the bucket lock is held"
				}
				if tag == "P14" {
					msg = "every slot write pairs a bucket with an index of that bucket (both live, or remembered together)"
				}
				rep.Pass(prop+"."+tag, cf.Name+" "+tag, r.P.Pos(mm.Core.Pos()), msg)
			}
		}
		// the validation must exist at all: some exit with a committed effect passed it
		validated := false
		for _, ex := range cf.Exits {
			if ex.S.Calls > 0 {
				validated = true
			}
		}
		_ = validated
	}
}

// ---- P4: resize order ----

type rzOrd struct {
	Owner     bool
	Published bool
	Cleared   bool
}

func p4Resize(r *Run, rep *core.Report, prop string, mm *core.MapModel) {
	f := mm.Resize
	rep.Fn(fn(f))
	for _, sp := range specsFor(r, f) {
		name := fn(f) + sp.String(f)
		rep.Spec(name)
		m := &core.Machine[rzOrd]{P: r.P, Fn: f, Spec: sp, Inline: helperInline(r)}
		var publishes []ssa.Instruction
		var publishVals []ssa.Value
		m.Step = func(ctx *core.Ctx[rzOrd], s rzOrd, in ssa.Instruction) []rzOrd {
			c, ok := in.(ssa.CallInstruction)
			if !ok {
				if st, isSt := in.(*ssa.Store); isSt {
					if a := core.Addr(st.Addr); a.Owner == mm.Name && a.Field == mm.TableF {
						ctx.Report(in, "P4", "table pointer published with a plain store")
					}
				}
				return []rzOrd{s}
			}
			if op, addr, ok := core.AtomicOp(c); ok {
				a := core.Addr(addr)
				if a.Owner == mm.Name && a.Field == mm.TableF && op != "Load" {
					publishes = append(publishes, in)
					if s.Cleared {
						ctx.Report(in, "P4", "new table published after the resize flag was cleared: a writer can validate against the old table in between and lose its update")
					}
					if s.Published {
						ctx.Report(in, "P4", "table pointer stored twice in one resize")
					}
					s.Published = true
					// published value must be a fresh table of this activation
					val := ctx.Resolve(core.StripConv(core.AtomicLastArg(c)))
					publishVals = append(publishVals, core.StripConv(val))
					at := ssa.Instruction(in)
					host := in.Parent()
					if ctx.Frame != nil {
						// publishing store inside a helper: judge the argument at the outermost call site
						fr := ctx.Frame
						for fr.Up != nil {
							fr = fr.Up
						}
						at, host = fr.Site.(ssa.Instruction), fr.Site.Parent()
					}
					if fi := unpublishedAt(r, host, val, at, 0); !fi.OK {
						ctx.Report(in, "P4", "the published table is not the fresh table built by this resize: "+fi.Why)
					}
				}
				if mm.IsFlag(a) && op == "Store" {
					s.Cleared = true
				}
				if mm.IsFlag(a) && op == "CAS" {
					s.Published, s.Cleared = false, false
				}
				return []rzOrd{s}
			}
			if cal := core.Callee(c); cal == mm.Copy && cal != nil {
				if s.Published {
					ctx.Report(in, "P4", "bucket copied after the new table was published: readers and writers of the new table would miss the entry")
				}
				if s.Cleared {
					ctx.Report(in, "P4", "bucket copied after the resize flag was cleared")
				}
			}
			return []rzOrd{s}
		}
		m.Run()
		seen := map[string]bool{}
		for _, fd := range m.Findings {
			k := fd.Msg + r.P.InstrPos(fd.Instr)
			if seen[k] {
				continue
			}
			seen[k] = true
			rep.Fail(prop+".P4", name+" order", r.P.InstrPos(fd.Instr), fd.Msg, m.Trace(fd.At)...)
		}
		if len(m.Findings) == 0 {
			rep.Pass(prop+".P4", name+" order", r.P.Pos(f.Pos()), "copies precede the single publishing store of the fresh table, which precedes the flag clear")
		}
		// the destination of every copy is the table that gets published
		core.Instrs(f, func(in ssa.Instruction) {
			c, ok := in.(*ssa.Call)
			if !ok || core.Callee(c) != mm.Copy {
				return
			}
			dest := copyDest(r, mm, c)
			same := false
			for _, val := range publishVals {
				if dest != nil && val == core.StripConv(dest) {
					same = true
				}
			}
			if len(publishes) > 0 {
				rep.Check(same, prop+".P4", name+" copy destination", r.P.InstrPos(in), "entries are copied into the table that is then published", "the table the buckets are copied into is not the one that gets published")
			}
		})
	}
	// the resize owner works on the table that is current once it owns the flag: the source of every copy and the
	// length the new table is sized from come from an atomic load of the table pointer executed after the winning CAS
	var cas ssa.Instruction
	if cv := flagCASIn(mm, f); cv != nil {
		cas = cv.(ssa.Instruction)
	}
	if cas != nil {
		nSrc := 0
		srcOK := func(v ssa.Value, at ssa.Instruction, what string) {
			roots := map[ssa.Value]string{}
			tableFieldLoads(mm, v, roots, map[ssa.Value]bool{}, 0)
			if len(roots) == 0 && core.NamedOf(v.Type()) == mm.TableT {
				roots[core.StripConv(v)] = "" // the table value itself (handed to a helper that holds the copy loop)
			}
			if what == "copy source" {
				nSrc++
			}
			if len(roots) == 0 {
				if _, isConst := core.StripConv(v).(*ssa.Const); isConst {
					return
				}
				// lengths taken from the map header (minimum length) carry no table value
				return
			}
			for root := range roots {
				okv := false
				why := root.Name() + " is not an atomic load of the table pointer"
				if a, isLoad := atomicLoadPath(root); isLoad {
					if a.Owner == mm.Name && a.Field == mm.TableF {
						ld := core.StripConv(root).(ssa.Instruction)
						if reaches(cas, ld, nil) && !reachAvoiding(f, core.Spec{}, cas)(ld) {
							okv = true
						} else {
							why = "the table pointer was loaded before the resize flag was won"
						}
					}
				} else if p, isP := root.(*ssa.Parameter); isP {
					why = "the caller's table (parameter " + p.Name() + ") may have been replaced by another resize or Clear before this one won the flag"
				}
				rep.Check(okv, prop+".P4", fn(f)+" "+what, r.P.InstrPos(at), "taken from the table that is current after the resize flag was won", what+" uses a stale table: "+why+"; the resize would rebuild from a dead table and publish it, rolling the map back (completed writes lost, cleared entries resurrected)")
			}
		}
		core.Instrs(f, func(in ssa.Instruction) {
			c, ok := in.(*ssa.Call)
			if !ok {
				return
			}
			switch core.Callee(c) {
			case mm.Copy:
				for i, p := range mm.Copy.Params {
					if isBucketType(r, elemOf(p.Type())) {
						if ia, isIA := c.Call.Args[i].(*ssa.IndexAddr); isIA {
							srcOK(ia.X, in, "copy source")
						}
					}
				}
			case mm.NewTable:
				srcOK(c.Call.Args[0], in, "new table length")
			}
			// the copy loop moved into a helper: the table argument its copy sources are taken from
			for _, h := range mm.ResizeHelpers {
				if core.Callee(c) != h {
					continue
				}
				core.Instrs(h, func(in2 ssa.Instruction) {
					c2, ok := in2.(*ssa.Call)
					if !ok || core.Callee(c2) != mm.Copy {
						return
					}
					for i, p := range mm.Copy.Params {
						if !isBucketType(r, elemOf(p.Type())) {
							continue
						}
						ia, isIA := c2.Call.Args[i].(*ssa.IndexAddr)
						if !isIA {
							continue
						}
						roots := map[ssa.Value]string{}
						tableFieldLoads(mm, ia.X, roots, map[ssa.Value]bool{}, 0)
						for root := range roots {
							if prm, isP := root.(*ssa.Parameter); isP {
								if pi := paramIndexOf(h, prm); pi >= 0 && pi < len(c.Call.Args) {
									srcOK(c.Call.Args[pi], in, "copy source")
								}
							}
						}
					}
				})
			}
		})
		rep.MinCount(prop+".P4", "copy sources judged in "+fn(f), nSrc, 1)
	}
	// table pointer written only by resize and the constructor (fresh map object)
	for _, g := range r.P.Funcs {
		if g == f || r.M.MapOfFunc(g) != mm && !isCtorOf(mm, g) {
			continue
		}
		if core.AtomicAccessor(g) {
			continue // judged at its call sites, where the call is read as the store it performs
		}
		core.Instrs(g, func(in ssa.Instruction) {
			var addr, base ssa.Value
			switch x := in.(type) {
			case *ssa.Store:
				addr, base = x.Addr, x.Addr
			case ssa.CallInstruction:
				if op, a, ok := core.AtomicOp(x); ok && op != "Load" {
					addr, base = a, core.AtomicBase(x)
				}
			}
			if addr == nil {
				return
			}
			if a := core.Addr(addr); a.Owner == mm.Name && a.Field == mm.TableF {
				fi := unpublishedAt(r, g, base, in, 0)
				rep.Check(fi.OK, prop+".P4", fn(g)+" stores the table pointer", r.P.InstrPos(in), "initialising store into a map object that is not yet shared", "the table pointer is stored outside resize on a shared map object: "+fi.Why)
			}
		})
	}
}

func isCtorOf(mm *core.MapModel, g *ssa.Function) bool {
	for _, c := range mm.Ctor {
		if c == g {
			return true
		}
	}
	return false
}

// ---- P6: copy under the source lock, source intact ----

// p6EveryBucket: in the copy loop of a grow or shrink the copy routine runs for every source bucket - no path of the
// loop body gets back to the loop's head without having called it. (The call is what takes the source bucket's lock:
// a bucket skipped because it looks empty is one whose in-flight writer - validated before the resize began - is not
// waited for; its update lands in the retired table and is lost.)
func p6EveryBucket(r *Run, rep *core.Report, prop string, mm *core.MapModel) {
	n := 0
	for _, f := range append([]*ssa.Function{mm.Resize}, mm.ResizeHelpers...) {
		if f == nil {
			continue
		}
		core.Instrs(f, func(in ssa.Instruction) {
			c, ok := in.(*ssa.Call)
			if !ok || core.Callee(c) != mm.Copy {
				return
			}
			B := c.Block()
			// the innermost loop around the call: header H dominates B, some latch X (X -> H, H dominates X) is reachable from B
			var head *ssa.BasicBlock
			for _, h := range f.Blocks {
				if !(h == B || h.Dominates(B)) {
					continue
				}
				isHead := false
				for _, x := range h.Preds {
					if (h == x || h.Dominates(x)) && (x == B || blockReachUntil(B, h)[x]) {
						isHead = true
					}
				}
				if isHead && (head == nil || head.Dominates(h)) {
					head = h
				}
			}
			if head == nil {
				return // not in a loop (a helper called per bucket): its caller's loop is judged where the helper is called
			}
			n++
			okAll := true
			for _, x := range head.Preds {
				if !(head == x || head.Dominates(x)) {
					continue // loop entry edge
				}
				if !(B == x || B.Dominates(x)) {
					okAll = false
				}
			}
			rep.Check(okAll, prop+".P6", fn(f)+" copies every bucket", r.P.InstrPos(in), "every iteration of the copy loop calls the copy routine (which takes the source bucket's lock)", "an iteration of the copy loop can go on to the next bucket without calling the copy routine: the skipped bucket's lock is not taken, so a writer that validated before the resize began and is still inside that bucket is not waited for - its update goes to the retired table and is lost")
		})
	}
	rep.MinCount(prop+".P6", "copy loops in "+mm.Name+" resize", n, 1)
}

func p6Copy(r *Run, rep *core.Report, prop string, mm *core.MapModel) {
	p6EveryBucket(r, rep, prop, mm)
	f := mm.Copy
	rep.Fn(fn(f))
	lf := lockFactsCached(r, f, core.Spec{})
	var src *ssa.Parameter
	for _, p := range f.Params {
		if isBucketType(r, elemOf(p.Type())) {
			src = p
		}
	}
	nApp := 0
	core.Instrs(f, func(in ssa.Instruction) {
		c, ok := in.(ssa.CallInstruction)
		if !ok || core.Callee(c) != mm.Append {
			return
		}
		nApp++
		must, _, canon := lf.HeldAt(in)
		okRoot := false
		if must && src != nil {
			okRoot = bucketRoots(r, lf.RootOf[canon])[src]
		}
		rep.Check(must && okRoot, prop+".P6", fn(f)+" copies under the source lock", r.P.InstrPos(in), "entries are moved while the source chain's bucket lock is held", "entries are copied to the new table without holding the source chain's bucket lock: a concurrent writer's update to this chain can be lost")
	})
	rep.MinCount(prop+".P6", "append sites in the copy routine", nApp, 1)
	// every path through the copy takes the source lock: it is the barrier that waits for writers
	// which validated before the resize began and are still modifying this chain
	mb := &core.Machine[bool]{P: r.P, Fn: f, Spec: core.Spec{}}
	barrier := true
	var skipRet ssa.Instruction
	mb.Step = func(ctx *core.Ctx[bool], s bool, in ssa.Instruction) []bool {
		if ev := r.M.LockEventOf(in); ev != nil && ev.Acquire && ev.Class == "bucket" {
			s = true
		}
		if _, ok := in.(*ssa.Return); ok && !s {
			barrier = false
			skipRet = in
		}
		return []bool{s}
	}
	mb.Run()
	pos6 := r.P.Pos(f.Pos())
	if skipRet != nil {
		pos6 = r.P.InstrPos(skipRet)
	}
	rep.Check(barrier, prop+".P6", fn(f)+" lock barrier on every path", pos6, "every path through the copy acquires the source chain's lock", "a path through the bucket copy returns without ever taking the source chain's lock: a writer that validated before the resize and still holds that lock inserts into the abandoned table and its completed write is lost")
	bad := 0
	core.Instrs(f, func(in ssa.Instruction) {
		var addr ssa.Value
		switch x := in.(type) {
		case *ssa.Store:
			addr = x.Addr
		case ssa.CallInstruction:
			if op, a, ok := core.AtomicOp(x); ok && op != "Load" {
				addr = a
			}
		}
		if addr != nil && src != nil && bucketRoots(r, addr)[src] {
			bad++
			rep.Fail(prop+".P6", fn(f)+" writes source bucket", r.P.InstrPos(in), "the copy modifies its source chain ("+core.Addr(addr).Key()+"): lock-free readers of the old table lose entries before the new table is published")
		}
	})
	if bad == 0 {
		rep.Pass(prop+".P6", fn(f)+" source intact", r.P.Pos(f.Pos()), "no store through the source chain except its lock word")
	}
}

// ---- P7: Clear cannot be dropped ----

func p7Clear(r *Run, rep *core.Report, prop string, mm *core.MapModel) {
	f := mm.Resize
	sp, ok := hintSpecOf(r, mm, "Clear")
	if !ok {
		rep.Undecided(prop+".P7", fn(mm.Methods["Clear"]), r.P.Pos(mm.Methods["Clear"].Pos()), "Clear does not call resize with a constant hint")
		return
	}
	name := fn(f) + sp.String(f)
	rep.Spec(name)
	ords := exitOrdinals(f)
	m := &core.Machine[bool]{P: r.P, Fn: f, Spec: sp, Inline: helperInline(r)}
	type res struct {
		ok bool
		at core.Node[bool]
	}
	results := map[*ssa.Return]res{}
	m.Step = func(ctx *core.Ctx[bool], s bool, in ssa.Instruction) []bool {
		if c, ok := in.(ssa.CallInstruction); ok {
			if op, addr, ok := core.AtomicOp(c); ok && op != "Load" {
				if a := core.Addr(addr); a.Owner == mm.Name && a.Field == mm.TableF {
					val := ctx.Resolve(core.StripConv(core.AtomicLastArg(c)))
					at := ssa.Instruction(in)
					host := in.Parent()
					if ctx.Frame != nil {
						fr := ctx.Frame
						for fr.Up != nil {
							fr = fr.Up
						}
						at, host = fr.Site.(ssa.Instruction), fr.Site.Parent()
					}
					if fi := unpublishedAt(r, host, val, at, 0); fi.OK {
						s = true
					}
				}
			}
		}
		if ret, ok := in.(*ssa.Return); ok {
			if prev, seen := results[ret]; !seen || (prev.ok && !s) {
				results[ret] = res{s, ctx.Node}
			}
		}
		return []bool{s}
	}
	m.Run()
	for ret, rs := range results {
		rep.Check(rs.ok, prop+".P7", fmt.Sprintf("%s exit#%d", name, ords[ret]), r.P.InstrPos(ret), "every path of a clear request to this return publishes a fresh empty table",
			"a clear request can return here without having published a fresh table (e.g. after losing the race for the resize flag): Clear returns although entries stored before it began are still present", m.Trace(rs.at)...)
	}
	rep.MinCount(prop+".P7", "returns of resize reachable under the clear hint", len(results), 1)
	// Clear itself: returns only after resize returned
	cl := mm.Methods["Clear"]
	calls := 0
	core.Instrs(cl, func(in ssa.Instruction) {
		if c, ok := in.(ssa.CallInstruction); ok && core.Callee(c) == f {
			if _, isGo := in.(*ssa.Go); isGo {
				rep.Fail(prop+".P7", fn(cl)+" asynchronous", r.P.InstrPos(in), "Clear hands the resize to another goroutine and returns before it ran")
				return
			}
			if _, isDefer := in.(*ssa.Defer); !isDefer {
				calls++
			}
		}
	})
	lfOK := true
	mc := &core.Machine[int]{P: r.P, Fn: cl, Spec: core.Spec{}}
	mc.Step = func(ctx *core.Ctx[int], s int, in ssa.Instruction) []int {
		if c, ok := in.(ssa.CallInstruction); ok && core.Callee(c) == f {
			s = 1
		}
		if _, ok := in.(*ssa.Return); ok && s == 0 {
			lfOK = false
		}
		return []int{s}
	}
	mc.Run()
	rep.Check(calls > 0 && lfOK, prop+".P7", fn(cl)+" issues the clear request", r.P.Pos(cl.Pos()), "every path of Clear runs the clear request to completion", "Clear can return without issuing the clear request")
}

// ---- P8: single root ----

func p8Root(r *Run, rep *core.Report, prop string, mm *core.MapModel) {
	tmp := core.NewReport(prop)
	c11L3(r, tmp)
	n := 0
	for _, o := range tmp.Obs {
		if !strings.Contains(o.Construct, "root bucket selection") {
			continue
		}
		mine := false
		sel, _ := rootSelectors(r, mm)
		for _, g := range sel {
			if g != nil && strings.HasPrefix(o.Construct, fn(g)+" ") {
				mine = true
			}
		}
		if !mine {
			continue
		}
		n++
		c := *o
		c.Rule = prop + ".P8"
		rep.Obs = append(rep.Obs, &c)
	}
	rep.MinCount(prop+".P8", "root bucket selections", n, 3)
}

// ---- P10: packed-word read-modify-write consistency ----

// packedLoads collects, in the backward slice of v, the loads (atomic or plain) of packed bucket words
// (non-pointer words of a bucket: meta / top-hash) together with the bucket value they were read from.
func packedLoads(r *Run, v ssa.Value, out map[ssa.Value]ssa.Value, seen map[ssa.Value]bool, depth int) {
	if v == nil || seen[v] || depth > 10 {
		return
	}
	seen[v] = true
	// only values of the packed word's own type carry the word; indices and hash bytes derived from it do not
	if b, ok := v.Type().Underlying().(*types.Basic); !ok || b.Kind() != types.Uint64 {
		return
	}
	if addr, ok := atomicLoadAddr(v); ok {
		if k, _ := slotKind(r, addr); k == "meta" {
			out[v] = bucketOfAddr(addr)
		}
		return
	}
	switch x := v.(type) {
	case *ssa.Parameter:
		out[v] = v // the word is handed in by the caller: judged at the call sites
	case *ssa.UnOp:
		if x.Op == token.MUL {
			if k, _ := slotKind(r, x.X); k == "meta" {
				out[v] = bucketOfAddr(x.X)
			}
			return
		}
		packedLoads(r, x.X, out, seen, depth+1)
	case *ssa.BinOp:
		packedLoads(r, x.X, out, seen, depth+1)
		packedLoads(r, x.Y, out, seen, depth+1)
	case *ssa.Convert:
		packedLoads(r, x.X, out, seen, depth+1)
	case *ssa.Call:
		if cal := core.Callee(x); cal != nil && cal.Pkg == r.P.Xsync {
			for _, a := range x.Call.Args {
				packedLoads(r, a, out, seen, depth+1)
			}
		}
	case *ssa.Phi:
		for _, e := range x.Edges {
			packedLoads(r, e, out, seen, depth+1)
		}
	}
}

// bucketOfAddr returns the bucket pointer value an address of a bucket word is derived from.
func bucketOfAddr(addr ssa.Value) ssa.Value {
	v := addr
	for {
		v = core.StripConv(v)
		switch x := v.(type) {
		case *ssa.FieldAddr:
			v = x.X
			continue
		case *ssa.IndexAddr:
			if _, isArr := elemOf(x.X.Type()).Underlying().(*types.Array); isArr {
				v = x.X
				continue
			}
		}
		return v
	}
}

func p10RMW(r *Run, rep *core.Report, prop string, mm *core.MapModel) {
	n := 0
	for _, f := range mapFuncs(r, mm) {
		rep.Fn(fn(f))
		core.Instrs(f, func(in ssa.Instruction) {
			var addr, val ssa.Value
			switch x := in.(type) {
			case *ssa.Store:
				addr, val = x.Addr, x.Val
			case ssa.CallInstruction:
				if op, a, ok := core.AtomicOp(x); ok && op == "Store" {
					addr, val = a, core.AtomicLastArg(x)
				}
			}
			if addr == nil {
				return
			}
			if k, _ := slotKind(r, addr); k != "meta" {
				return
			}
			if r.M.LockEventOf(in) != nil {
				return
			}
			n++
			dst := bucketOfAddr(addr)
			loads := map[ssa.Value]ssa.Value{}
			packedLoads(r, val, loads, map[ssa.Value]bool{}, 0)
			okv := true
			why := ""
			// a helper that rebuilds the word must derive its result from the word it is given on every path: a path that
			// returns a constant wipes the other slots' bits - and, where the word also holds the lock bit, releases the lock
			if msg := wordHelpersPreserve(r, val, 0); msg != "" {
				okv, why = false, msg
			}
			for ld, b := range loads {
				if prm, isP := ld.(*ssa.Parameter); isP {
					// a helper that writes the word it is given into the bucket it is given: at every call site the
					// word must have been read from that very bucket
					pi := paramIndexOf(f, prm)
					di := -1
					if dp, isDP := core.StripConv(dst).(*ssa.Parameter); isDP {
						di = paramIndexOf(f, dp)
					}
					sites := core.CallSitesOf(r.P.Funcs, f)
					if pi < 0 || di < 0 || len(sites) == 0 {
						continue
					}
					for _, site := range sites {
						args := site.Common().Args
						if pi >= len(args) || di >= len(args) {
							continue
						}
						l2 := map[ssa.Value]ssa.Value{}
						packedLoads(r, args[pi], l2, map[ssa.Value]bool{}, 0)
						for ld2, b2 := range l2 {
							if _, again := ld2.(*ssa.Parameter); again {
								continue
							}
							if core.StripConv(b2) != core.StripConv(args[di]) {
								okv = false
								why = fmt.Sprintf("at the call site %s the word handed to %s was read from bucket %s but is written to bucket %s", r.P.InstrPos(site), fn(f), b2.Name(), args[di].Name())
							}
						}
					}
					continue
				}
				if core.StripConv(b) != core.StripConv(dst) {
					okv = false
					why = fmt.Sprintf("the new word for bucket %s is computed from the word read from bucket %s (%s)", dst.Name(), b.Name(), r.P.InstrPos(ld.(ssa.Instruction)))
				}
			}
			rep.Check(okv, prop+".P10", fmt.Sprintf("%s rewrites %s", fn(f), core.Addr(addr).Key()), r.P.InstrPos(in),
				"the packed word is rewritten from a read of the same bucket's word (or from constants)",
				"read-modify-write of a packed bucket word mixes two buckets: "+why+"; the hash bytes / presence bits of the other entries in the written bucket are overwritten, making live entries unreachable")
		})
	}
	rep.MinCount(prop+".P10", "packed-word rewrites", n, 3)
}

// p14SameBucket: one slot index is used with one bucket. Within the compute core every access to a slot array that
// uses the same (non-constant) index value must go to the same bucket value: an index found by scanning bucket b and
// then applied to the root bucket (or any other) reads or replaces a different key's slot.
func p14SameBucket(r *Run, rep *core.Report, rule string, mm *core.MapModel) {
	f := mm.Core
	type use struct {
		base ssa.Value
		in   ssa.Instruction
	}
	groups := map[ssa.Value][]use{}
	var order []ssa.Value
	core.Instrs(f, func(in ssa.Instruction) {
		ia, ok := in.(*ssa.IndexAddr)
		if !ok {
			return
		}
		if _, isArr := elemOf(ia.X.Type()).Underlying().(*types.Array); !isArr || !isBucketOwner(r, core.Addr(ia).Owner) {
			return
		}
		idx := core.StripConv(ia.Index)
		if _, isC := idx.(*ssa.Const); isC {
			return
		}
		if _, seen := groups[idx]; !seen {
			order = append(order, idx)
		}
		groups[idx] = append(groups[idx], use{core.StripConv(bucketOfAddr(ia)), in})
	})
	n := 0
	for _, idx := range order {
		us := groups[idx]
		if len(us) < 2 {
			continue
		}
		n++
		bad := ""
		var badIn ssa.Instruction
		for _, u := range us[1:] {
			if u.base != us[0].base {
				bad = fmt.Sprintf("slot index %s is used with bucket %s at %s and with bucket %s here: an index found in one bucket addresses another key's slot in the other", idx.Name(), us[0].base.Name(), r.P.InstrPos(us[0].in), u.base.Name())
				badIn = u.in
				break
			}
		}
		pos := r.P.InstrPos(us[0].in)
		if badIn != nil {
			pos = r.P.InstrPos(badIn)
		}
		rep.Check(bad == "", rule, fmt.Sprintf("%s slot index %s stays with one bucket", fn(f), idx.Name()), pos, fmt.Sprintf("all %d slot accesses with this index go to the same bucket value", len(us)), bad)
	}
	_ = n
}

// wordHelpersPreserve walks the value stored into a packed bucket word; for every call of an in-package helper that
// takes the word (a uint64 argument carrying a load of a packed word, or a word parameter) and returns a uint64, every
// return of that helper must derive from that parameter.
func wordHelpersPreserve(r *Run, v ssa.Value, depth int) string {
	if v == nil || depth > 6 {
		return ""
	}
	switch x := core.StripConv(v).(type) {
	case *ssa.BinOp:
		if m := wordHelpersPreserve(r, x.X, depth+1); m != "" {
			return m
		}
		return wordHelpersPreserve(r, x.Y, depth+1)
	case *ssa.Phi:
		for _, e := range x.Edges {
			if m := wordHelpersPreserve(r, e, depth+1); m != "" {
				return m
			}
		}
	case *ssa.Call:
		cal := core.Callee(x)
		if cal == nil || cal.Pkg != r.P.Xsync || cal.Blocks == nil {
			return ""
		}
		if b, ok := x.Type().Underlying().(*types.Basic); !ok || b.Kind() != types.Uint64 {
			return ""
		}
		for ai, a := range x.Call.Args {
			l := map[ssa.Value]ssa.Value{}
			packedLoads(r, a, l, map[ssa.Value]bool{}, 0)
			if len(l) == 0 || ai >= len(cal.Params) {
				continue
			}
			prm := cal.Params[ai]
			bad := ""
			core.Instrs(cal, func(in ssa.Instruction) {
				ret, isRet := in.(*ssa.Return)
				if !isRet || len(ret.Results) != 1 || bad != "" {
					return
				}
				if !derivesOnAllPaths(ret.Results[0], prm, map[ssa.Value]bool{}, 0) {
					bad = fmt.Sprintf("%s returns, at %s, a word that does not derive from the word it was given (a constant or unrelated value on some path): storing it wipes the other slots' bits%s", fn(cal), r.P.InstrPos(ret), lockBitNote(r))
				}
			})
			if bad != "" {
				return bad
			}
			if m := wordHelpersPreserve(r, a, depth+1); m != "" {
				return m
			}
		}
	}
	return ""
}

func lockBitNote(r *Run) string {
	for _, mm := range r.M.Maps {
		if mm.LockKind == "spin" {
			return " and, in the map whose bucket lock is a bit of that word, releases the lock in the middle of the critical section"
		}
	}
	return ""
}

// derivesOnAllPaths: v is computed from src on every path (phi edges all derive; a constant does not).
func derivesOnAllPaths(v, src ssa.Value, seen map[ssa.Value]bool, depth int) bool {
	v = core.StripConv(v)
	if v == src {
		return true
	}
	if depth > 12 {
		return false
	}
	if seen[v] {
		return true // a cycle through a phi: decided by its other edges
	}
	seen[v] = true
	switch x := v.(type) {
	case *ssa.BinOp:
		return derivesOnAllPaths(x.X, src, seen, depth+1) || derivesOnAllPaths(x.Y, src, seen, depth+1)
	case *ssa.UnOp:
		return derivesOnAllPaths(x.X, src, seen, depth+1)
	case *ssa.Phi:
		for _, e := range x.Edges {
			if !derivesOnAllPaths(e, src, seen, depth+1) {
				return false
			}
		}
		return true
	case *ssa.Call:
		for _, a := range x.Call.Args {
			if derivesOnAllPaths(a, src, seen, depth+1) {
				return true
			}
		}
	}
	return false
}

// constSign: sign of a numeric constant; a boolean flag value counts as 0 (false) / 1 (true).
func constSign(v constant.Value) int {
	if v.Kind() == constant.Bool {
		if constant.BoolVal(v) {
			return 1
		}
		return 0
	}
	return constant.Sign(v)
}

func recvType(f *ssa.Function) types.Type {
	if f.Signature.Recv() == nil {
		return nil
	}
	return f.Signature.Recv().Type()
}

package rules

import (
	"fmt"
	"go/types"
	"regexp"
	"sort"
	"strings"

	"cachelint/internal/core"
	"cachelint/internal/sym"

	"golang.org/x/tools/go/ssa"
)

// MethodPaths holds the evaluated paths of one cache method of one twin.
type MethodPaths struct {
	Twin     int
	Name     string
	Fn       *ssa.Function
	Paths    []sym.Path
	Overflow bool
}

// opaqueFns: the TTL computation (method (Duration) int64 on the cache type) is kept as the opaque role
// Exp(d); its own decision table is checked separately (C09.X1).
func opaqueFns(r *Run) map[*ssa.Function]string {
	out := map[*ssa.Function]string{}
	for i := 0; i < 2; i++ {
		if f := expirationFn(r, i); f != nil {
			out[f] = "Exp"
		}
	}
	return out
}

// expirationFn finds the method of the cache type with signature func(time.Duration) int64.
func expirationFn(r *Run, twin int) *ssa.Function {
	// candidates: (Duration) -> int64 where the result is an instant, i.e. not itself a Duration (a helper that resolves the
	// DefaultExpiration sentinel to a Duration has the same underlying signature); among several the one most cache methods call,
	// then by name, so that the choice does not depend on map order
	var best *ssa.Function
	bestCalls := -1
	for _, f := range r.M.CacheM[twin] {
		sig := f.Signature
		if sig.Params().Len() != 1 || sig.Results().Len() != 1 || !strings.HasSuffix(typeName(sig.Params().At(0).Type()), "Duration") {
			continue
		}
		rt := sig.Results().At(0).Type()
		if b, ok := rt.Underlying().(*types.Basic); !ok || b.Kind() != types.Int64 || strings.HasSuffix(typeName(rt), "Duration") {
			continue
		}
		n := len(core.CallSitesOf(r.P.Funcs, f))
		if n > bestCalls || (n == bestCalls && f.Name() < best.Name()) {
			best, bestCalls = f, n
		}
	}
	return best
}

// fieldRoles derives the canonical role names of unexported fields structurally: in each item type the int64
// field is the expiration "e" and the other field the value "v"; in each cache type the atomic.Value field
// loaded by the DefaultExpiration accessor is "defaultExpiration" and the one loaded by EvictedCallback is
// "evictedCallback".
func fieldRoles(r *Run) map[string]string {
	out := map[string]string{}
	for twin := 0; twin < 2; twin++ {
		if obj := r.P.Cache.Pkg.Scope().Lookup(r.M.ItemT[twin]); obj != nil {
			if st := core.StructOf(obj.Type()); st != nil && st.NumFields() == 2 {
				for i := 0; i < 2; i++ {
					if b, ok := st.Field(i).Type().Underlying().(*types.Basic); ok && b.Kind() == types.Int64 {
						out[st.Field(i).Name()] = "e"
						out[st.Field(1-i).Name()] = "v"
					}
					// expiration carried by an embedded one-field struct: that field is transparent
					if es := core.StructOf(st.Field(i).Type()); es != nil && st.Field(i).Embedded() && core.NamedOf(st.Field(i).Type()) == r.M.ItemEmb[twin] && r.M.ItemEmb[twin] != "" {
						out[st.Field(i).Name()] = "embed"
						out[es.Field(0).Name()] = "e"
						out[st.Field(1-i).Name()] = "v"
					}
				}
			}
		}
		for acc, role := range map[string]string{"DefaultExpiration": "defaultExpiration", "EvictedCallback": "evictedCallback"} {
			f := r.M.CacheM[twin][acc]
			if f == nil {
				continue
			}
			// the atomic load may sit in the accessor itself or in a small typed cell's getter it calls
			var scan func(g *ssa.Function, depth int)
			scan = func(g *ssa.Function, depth int) {
				core.Instrs(g, func(in ssa.Instruction) {
					c, ok := in.(ssa.CallInstruction)
					if !ok {
						return
					}
					if strings.HasPrefix(core.CalleeID(c), "(*sync/atomic.") && strings.HasSuffix(core.CalleeID(c), ".Load") && len(c.Common().Args) == 1 {
						if a := core.Addr(c.Common().Args[0]); a.Field != "" {
							out[a.Field] = role
						}
						return
					}
					if cal := core.Callee(c); cal != nil && cal.Pkg == r.P.Cache && cal.Blocks != nil && depth < 2 {
						if o := cal.Origin(); o != nil {
							cal = o
						}
						scan(cal, depth+1)
					}
				})
			}
			scan(f, 0)
		}
	}
	return out
}

// newInterp builds an evaluator with the run's canonical naming; opaqueTTL keeps the TTL computation opaque.
func newInterp(r *Run, opaqueTTL bool) *sym.Interp {
	it := &sym.Interp{P: r.P, M: r.M, MaxPaths: 500, FieldRole: fieldRoles(r)}
	if opaqueTTL {
		it.Opaque = opaqueFns(r)
	}
	return it
}

func methodPaths(r *Run, twin int, name string) *MethodPaths {
	key := fmt.Sprintf("%d/%s", twin, name)
	if mp, ok := r.mpMemo[key]; ok {
		return mp
	}
	f := r.M.CacheM[twin][name]
	mp := &MethodPaths{Twin: twin, Name: name, Fn: f}
	r.mpMemo[key] = mp
	if f == nil {
		return mp
	}
	it := newInterp(r, true)
	it.MaxPaths = 5000
	mp.Paths = it.Run(f)
	mp.Overflow = it.Overflow
	return mp
}

// ---- path interpretation helpers ----

// itemStatus classifies, on one path, what is known about the expiry of an item term X:
// "live", "expired", "untested"; clock is the clock term compared against; ok=false when the
// test has a non-canonical shape (reported by C01.T1).
type itemTest struct {
	Status string
	Clock  *sym.Term
	Shape  string // "" canonical, else description of the deviation
}

func atomVal(pc []sym.Atom, key string) (bool, bool) {
	for i := len(pc) - 1; i >= 0; i-- {
		if pc[i].T.String() == key {
			return pc[i].V, true
		}
	}
	return false, false
}

// expiryAtoms finds the atoms that test item X on the path: the sign test (e > 0) and the clock test (clock > e).
func itemStatus(pc []sym.Atom, x *sym.Term) itemTest {
	e := sym.Mk("field", "e", x).String()
	res := itemTest{Status: "untested"}
	var signV, clockV *bool
	for i := range pc {
		a := pc[i]
		if a.T.Op != "cmp" || len(a.T.Args) != 2 {
			continue
		}
		l, rr := a.T.Args[0], a.T.Args[1]
		switch {
		case l.String() == e && rr.IsZero() && a.T.K == ">":
			v := a.V
			signV = &v
		case rr.String() == e && a.T.K == ">" && clockLike(l):
			v := a.V
			clockV = &v
			res.Clock = l
		case (l.String() == e && clockLike(rr)) || (rr.String() == e && clockLike(l)) || (l.String() == e && rr.IsZero()):
			res.Shape = "non-canonical expiry comparison " + a.T.String()
			v := a.V
			if rr.String() == e {
				clockV = &v
				res.Clock = l
			} else {
				signV = &v
			}
		}
	}
	switch {
	case signV != nil && !*signV:
		res.Status = "live" // e <= 0: never expires
	case signV != nil && *signV && clockV != nil && *clockV:
		res.Status = "expired"
	case signV != nil && *signV && clockV != nil && !*clockV:
		res.Status = "live"
	case signV == nil && clockV != nil:
		// clock test without sign test
		res.Shape = "expiry decided without testing that an expiration is set (e > 0)"
		if *clockV {
			res.Status = "expired"
		} else {
			res.Status = "live"
		}
	}
	return res
}

// clockLike: the term is a point in time to compare an expiration instant with: it contains a clock
// reading, is a caller-supplied parameter or a constant (cached / defaulted timestamps are caught as not in-call).
func clockLike(t *sym.Term) bool {
	if t == nil {
		return false
	}
	if t.Op == "param" || t.Op == "const" || t.Op == "zero" || t.Op == "deref" || t.Op == "field" {
		return true
	}
	return t.Contains(func(x *sym.Term) bool { return x.Op == "now" }) && !t.Contains(func(x *sym.Term) bool { return x.Op == "opq" })
}

// clockInCall: the clock term is unixnano(now#k): a reading made during this call.
func clockInCall(c *sym.Term) bool {
	return c != nil && c.Op == "unixnano" && len(c.Args) == 1 && c.Args[0].Op == "now"
}

// mapolds lists the distinct mapold#n terms occurring in t.
func mapolds(t *sym.Term) []*sym.Term {
	seen := map[string]bool{}
	var out []*sym.Term
	t.Walk(func(x *sym.Term) {
		if x.Op == "mapold" && !seen[x.K] {
			seen[x.K] = true
			out = append(out, x)
		}
	})
	return out
}

// opByN returns the map operation event with index n on the path.
func opByN(p *sym.Path, n string) *sym.Event {
	for i := range p.Events {
		if p.Events[i].Kind == "mapop" && fmt.Sprint(p.Events[i].N) == n {
			return &p.Events[i]
		}
	}
	return nil
}

// normTerm renders a term with twin-specific details removed: zero values of any type are "zero",
// struct type names are dropped, operation / call ordinals kept.
func normTerm(t *sym.Term) string { return normTermD(t, "") }

// normTermD renders with respect to the deciding operation: the item observed by it is "mapold", an item
// observed by an earlier operation of the same call is "mapold.stale".
func normTermD(t *sym.Term, deciding string) string {
	if t == nil {
		return "-"
	}
	if t.IsZero() {
		return "zero"
	}
	if t.Op == "mapold" && deciding != "" {
		if t.K == deciding {
			return "mapold"
		}
		return "mapold.stale"
	}
	if t.Op == "rangekey" && deciding != "" {
		return "rangekey"
	}
	switch t.Op {
	case "struct":
		var s []string
		for i, a := range t.Args {
			s = append(s, t.Names[i]+"="+normTermD(a, deciding))
		}
		return "{" + strings.Join(s, ",") + "}"
	case "param", "mapold", "rangekey", "uret", "aload", "now", "size", "const", "loaded":
		return t.Op + ":" + t.K
	}
	var s []string
	for _, a := range t.Args {
		s = append(s, normTermD(a, deciding))
	}
	k := t.K
	if k != "" {
		k = ":" + k
	}
	return t.Op + k + "(" + strings.Join(s, ",") + ")"
}

// statusClass renders the abstract state of the entry an operation observed: A absent, L0 present and never
// expiring (e <= 0), L+ present with a future expiration, E expired, P present but untested.
func statusClass(p *sym.Path, ev *sym.Event) string {
	x := sym.Leaf("mapold", fmt.Sprint(ev.N))
	present := ev.Loaded == 1 || (ev.Loaded == -1 && ev.Name == "Range")
	if ev.Loaded == 0 {
		return "A"
	}
	if !present {
		return "-"
	}
	st := itemStatus(p.PC, x)
	switch st.Status {
	case "expired":
		return "E"
	case "live":
		e := sym.Mk("field", "e", x).String()
		for _, a := range p.PC {
			if a.T.Op == "cmp" && a.T.K == ">" && a.T.Args[0].String() == e && a.T.Args[1].IsZero() {
				if a.V {
					return "L+"
				}
				return "L0"
			}
		}
		return "L"
	}
	return "P"
}

// classOf is the semantic class of a path: the abstract state of the key as seen by the LAST map operation
// of the path (the deciding observation), plus the outcome atoms of user functions, the nil-ness of the
// callback and of the visitor, and (for the TTL computation) the sign regions of its arguments. Earlier
// operations of the same call (a lock-free fast path, a snapshot that is re-validated) do not enter the class,
// so adding or removing such a step is not a table change.
func classOf(p *sym.Path) string {
	var parts []string
	var last *sym.Event
	for i := range p.Events {
		ev := &p.Events[i]
		if ev.Kind == "mapop" && ev.Name != "Size" {
			last = ev
		}
	}
	if last != nil {
		c := statusClass(p, last)
		st := itemStatus(p.PC, sym.Leaf("mapold", fmt.Sprint(last.N)))
		if st.Shape != "" || (st.Clock != nil && !clockInCall(st.Clock)) {
			c += "!" // decided by a non-canonical expiry test (shape or clock)
		}
		parts = append(parts, c)
	}
	seen := map[string]bool{}
	add := func(s string) {
		if !seen[s] {
			seen[s] = true
			parts = append(parts, s)
		}
	}
	for _, a := range p.PC {
		if a.T.Op == "uret" {
			add(fmt.Sprintf("user=%v", a.V))
		}
		if a.T.Op == "cmp" && a.T.K == "==" {
			for _, x := range a.T.Args {
				if x.Op == "aload" {
					add(fmt.Sprintf("cbnil=%v", a.V))
				}
			}
			if a.T.Args[0].Op == "param" && a.T.Args[1].IsZero() || a.T.Args[1].Op == "param" && a.T.Args[0].IsZero() {
				add(fmt.Sprintf("nilarg=%v", a.V))
			}
		}
		if a.T.Op == "cmp" {
			str := a.T.String()
			if (strings.Contains(str, "param:") || strings.Contains(str, "aload:defaultExpiration")) && !strings.Contains(str, "mapold") && !strings.Contains(str, "aload:evictedCallback") && a.T.K != "==" || (a.T.K == "==" && strings.Contains(str, "const:") && strings.Contains(str, "param:")) {
				add(fmt.Sprintf("%s=%v", normTerm(a.T), a.V))
			}
		}
	}
	return strings.Join(parts, " ")
}

// outcomeOf renders the observable outcome of a path: effects, results, user calls, callbacks.
func decidingOp(p *sym.Path) string {
	d := ""
	for i := range p.Events {
		ev := &p.Events[i]
		if ev.Kind == "mapop" && ev.Name != "Size" {
			d = fmt.Sprint(ev.N)
		}
	}
	return d
}

func outcomeOf(p *sym.Path) string {
	var parts []string
	dec := decidingOp(p)
	normTerm := func(t *sym.Term) string { return normTermD(t, dec) }
	for _, ev := range p.Events {
		switch ev.Kind {
		case "mapop":
			if ev.Effect == "none" {
				continue
			}
			// an expired entry left in place is equivalent to a removed one: its physical removal is not an outcome
			if ev.Effect == "delete" && ev.Loaded == 1 && itemStatus(p.PC, sym.Leaf("mapold", fmt.Sprint(ev.N))).Status == "expired" {
				continue
			}
			s := ev.Effect
			if ev.Stored != nil {
				st := normTerm(ev.Stored)
				// storing back the observed item is 'unchanged'
				if ev.Stored.Op == "mapold" && ev.Stored.K == fmt.Sprint(ev.N) {
					continue
				}
				s += " " + st
			}
			parts = append(parts, s)
		case "usercall":
			var a []string
			for _, x := range ev.Args {
				a = append(a, normTerm(x))
			}
			parts = append(parts, "user "+ev.Name+"("+strings.Join(a, ",")+")")
		case "callback":
			var a []string
			for _, x := range ev.Args {
				a = append(a, normTerm(x))
			}
			parts = append(parts, "callback("+strings.Join(a, ",")+")")
		case "itemsstore":
			parts = append(parts, "items["+normTerm(ev.Key)+"]="+normTerm(ev.Args[0]))
		case "settingstore":
			parts = append(parts, "setting "+settingName(ev.Name)+"="+normTerm(ev.Args[0]))
		case "rangeret":
			if len(ev.Ret) == 1 {
				parts = append(parts, "continue="+normTerm(ev.Ret[0]))
			}
		}
	}
	// what goes into the Items map is recorded before the visitor's verdict of the same entry, whether the method stores
	// the pair while traversing or collects first and builds the map afterwards
	sort.SliceStable(parts, func(a, b int) bool {
		return strings.HasPrefix(parts[a], "items[") && strings.HasPrefix(parts[b], "continue=")
	})
	if p.Panic {
		parts = append(parts, "panic")
		return strings.Join(parts, "; ")
	}
	var rs []string
	for _, t := range p.Ret {
		rs = append(rs, normTerm(t))
	}
	parts = append(parts, "return("+strings.Join(rs, ",")+")")
	return strings.Join(parts, "; ")
}

func settingName(s string) string {
	if i := strings.Index(s, "#"); i >= 0 {
		return s[:i]
	}
	return s
}

// decisionTable maps class -> set of outcomes.
func decisionTable(mp *MethodPaths) map[string][]string {
	tab := map[string]map[string]bool{}
	for i := range mp.Paths {
		p := &mp.Paths[i]
		c := classOf(p)
		if tab[c] == nil {
			tab[c] = map[string]bool{}
		}
		tab[c][outcomeOf(p)] = true
	}
	out := map[string][]string{}
	for c, set := range tab {
		for o := range set {
			out[c] = append(out[c], o)
		}
		sort.Strings(out[c])
	}
	return out
}

// undecidedPaths adds an undecided obligation when the evaluator met constructs it does not model.
func undecidedPaths(r *Run, rep *core.Report, rule string, mp *MethodPaths) bool {
	bad := false
	if mp.Fn == nil {
		rep.Undecided(rule, fmt.Sprintf("twin%d.%s", mp.Twin, mp.Name), "-", "method not found")
		return true
	}
	if mp.Overflow {
		rep.Undecided(rule, fn(mp.Fn)+" path budget", r.P.Pos(mp.Fn.Pos()), "more than 5000 abstract paths")
		bad = true
	}
	seen := map[string]bool{}
	for _, p := range mp.Paths {
		for _, pr := range p.Problems {
			if !seen[pr] {
				seen[pr] = true
				bad = true
				rep.Undecided(rule, fn(mp.Fn)+" unmodelled construct", r.P.Pos(mp.Fn.Pos()), pr)
			}
		}
	}
	if len(mp.Paths) == 0 {
		rep.Undecided(rule, fn(mp.Fn)+" no paths", r.P.Pos(mp.Fn.Pos()), "the evaluator found no return path")
		bad = true
	}
	return bad
}

// DumpPaths prints the paths and decision table of a method (development aid).
func DumpPaths(r *Run, twin int, name string) {
	mp := methodPaths(r, twin, name)
	fmt.Printf("%s: %d paths overflow=%v\n", name, len(mp.Paths), mp.Overflow)
	for i := range mp.Paths {
		p := &mp.Paths[i]
		fmt.Printf("--- path %d\n  pc: %s\n  class: %s\n  outcome: %s\n", i, sym.DescribePC(p.PC), classOf(p), outcomeOf(p))
		for _, pr := range p.Problems {
			fmt.Println("  PROBLEM:", pr)
		}
	}
}

// stripOrd canonicalises path-local ordinals: "#k" counters (calls, setting loads, user-function results) and
// clock / operation numbers are renumbered by order of first appearance, per name, so that tables can be
// compared across twins and against the reference tables while "the same load / reading" stays distinguishable
// from "another one".
func stripOrd(s string) string {
	counters := map[string]map[string]int{}
	renum := func(name, k string) string {
		m := counters[name]
		if m == nil {
			m = map[string]int{}
			counters[name] = m
		}
		if _, ok := m[k]; !ok {
			m[k] = len(m) + 1
		}
		if m[k] == 1 {
			return ""
		}
		return fmt.Sprintf("'%d", m[k])
	}
	var sb strings.Builder
	for i := 0; i < len(s); i++ {
		c := s[i]
		if c == '#' {
			j := i + 1
			for j < len(s) && s[j] >= '0' && s[j] <= '9' {
				j++
			}
			// name: the identifier before '#'
			k := i
			for k > 0 && (s[k-1] == '_' || s[k-1] >= 'a' && s[k-1] <= 'z' || s[k-1] >= 'A' && s[k-1] <= 'Z' || s[k-1] >= '0' && s[k-1] <= '9') {
				k--
			}
			sb.WriteString(renum(s[k:i], s[i+1:j]))
			i = j - 1
			continue
		}
		sb.WriteByte(c)
	}
	out := sb.String()
	for _, p := range []string{"now:", "mapold:", "rangekey:", "size:", "loaded:", "newmap:"} {
		var sb2 strings.Builder
		for {
			i := strings.Index(out, p)
			if i < 0 {
				break
			}
			j := i + len(p)
			for j < len(out) && out[j] >= '0' && out[j] <= '9' {
				j++
			}
			sb2.WriteString(out[:i] + strings.TrimSuffix(p, ":") + renum(p, out[i+len(p):j]))
			out = out[j:]
		}
		out = sb2.String() + out
	}
	return out
}

// normTable renders a decision table with ordinals stripped: class -> sorted distinct outcomes.
func normTable(mp *MethodPaths) map[string][]string {
	raw := decisionTable(mp)
	out := map[string][]string{}
	for c, os := range raw {
		nc := stripOrd(c)
		set := map[string]bool{}
		for _, o := range out[nc] {
			set[o] = true
		}
		for _, o := range os {
			joint := stripOrd(c + " \x00 " + o)
			if k := strings.Index(joint, " \x00 "); k >= 0 {
				joint = joint[k+3:]
			}
			set[joint] = true
		}
		var l []string
		for o := range set {
			l = append(l, o)
		}
		sort.Strings(l)
		out[nc] = l
	}
	return expandUntested(out)
}

// expandUntested: a row whose key state is 'present, expiry not tested' (P) says the outcome does not depend on
// the expiry of the entry: it stands for the rows expired / live-with-deadline / live-forever with that outcome
// (likewise L = live, sign of the deadline not tested, stands for L+ and L0). Tables are compared in the expanded
// form, so dropping an expiry test whose result is not used - or adding one - is not a table change.
func expandUntested(t map[string][]string) map[string][]string {
	out := map[string][]string{}
	add := func(k string, os []string) {
		set := map[string]bool{}
		for _, o := range out[k] {
			set[o] = true
		}
		for _, o := range os {
			set[o] = true
		}
		var l []string
		for o := range set {
			l = append(l, o)
		}
		sort.Strings(l)
		out[k] = l
	}
	t = collapseIrrelevantAtoms(t)
	for k, os := range t {
		head, rest := k, ""
		if i := strings.Index(k, " "); i >= 0 {
			head, rest = k[:i], k[i:]
		}
		switch head {
		case "P":
			for _, h := range []string{"L+", "L0"} {
				add(h+rest, os)
			}
			// for an expired entry the physical removal is not an outcome (it is as good as absent already)
			var eos []string
			for _, o := range os {
				var parts []string
				for _, part := range strings.Split(o, "; ") {
					if part != "delete" {
						parts = append(parts, part)
					}
				}
				eos = append(eos, strings.Join(parts, "; "))
			}
			add("E"+rest, eos)
		case "L":
			for _, h := range []string{"L+", "L0"} {
				add(h+rest, os)
			}
		default:
			add(k, os)
		}
	}
	return out
}

// DumpTables prints the normalised decision tables of all cache methods of a twin (development aid; also
// used to produce the reviewed reference tables).
func DumpTables(r *Run, twin int) {
	var names []string
	for n := range r.M.CacheM[twin] {
		names = append(names, n)
	}
	sort.Strings(names)
	for _, n := range names {
		mp := methodPaths(r, twin, n)
		tab := normTable(mp)
		var cs []string
		for c := range tab {
			cs = append(cs, c)
		}
		sort.Strings(cs)
		fmt.Printf("%q: {\n", n)
		for _, c := range cs {
			fmt.Printf("\t%q: {", c)
			for i, o := range tab[c] {
				if i > 0 {
					fmt.Print(", ")
				}
				fmt.Printf("%q", o)
			}
			fmt.Println("},")
		}
		fmt.Println("},")
	}
}

// collapseIrrelevantAtoms: a row key carries, besides the key state, boolean atoms the path happened to test
// (cbnil=, nilarg=, user=). When the two rows that differ only in one such atom have the same outcomes, the atom does
// not matter there and both rows stand for the row without it - so testing the callback for nil earlier or later
// (a getter with a nil guard, a test hoisted out of a branch) is not a table change.
var aloadCallbackRe = regexp.MustCompile(`aload:evictedCallback`)

func collapseIrrelevantAtoms(t map[string][]string) map[string][]string {
	out := map[string][]string{}
	for k, v := range t {
		out[k] = v
	}
	for changed := true; changed; {
		changed = false
		var keys []string
		for k := range out {
			keys = append(keys, k)
		}
		sort.Strings(keys)
		for _, k := range keys {
			if _, still := out[k]; !still {
				continue
			}
			toks := strings.Split(k, " ")
			for i, tok := range toks {
				if !strings.HasSuffix(tok, "=true") {
					continue
				}
				name := strings.TrimSuffix(tok, "=true")
				if !(strings.HasPrefix(name, "cbnil") || strings.HasPrefix(name, "nilarg")) {
					continue
				}
				other := append([]string{}, toks...)
				other[i] = name + "=false"
				ko := strings.Join(other, " ")
				vo, ok := out[ko]
				if !ok {
					continue
				}
				same := strings.Join(vo, " | ") == strings.Join(out[k], " | ")
				if !same && strings.HasPrefix(name, "cbnil") {
					// on the 'callback is nil' row the loaded callback *is* nil: the general row with the callback replaced
					// by nil must give the nil row
					var sub []string
					for _, o := range vo {
						sub = append(sub, aloadCallbackRe.ReplaceAllString(o, "zero"))
					}
					sort.Strings(sub)
					tr := append([]string{}, out[k]...)
					sort.Strings(tr)
					same = strings.Join(sub, " | ") == strings.Join(tr, " | ")
				}
				if !same {
					continue
				}
				base := append(append([]string{}, toks[:i]...), toks[i+1:]...)
				kb := strings.Join(base, " ")
				merged := map[string]bool{}
				for _, o := range out[kb] {
					merged[o] = true
				}
				for _, o := range vo {
					merged[o] = true
				}
				var l []string
				for o := range merged {
					l = append(l, o)
				}
				sort.Strings(l)
				delete(out, k)
				delete(out, ko)
				out[kb] = l
				changed = true
				break
			}
		}
	}
	return out
}

// cacheExtraNames: exported methods of the cache types beyond the reviewed list (API additions). The per-path rules
// (live-guard, removal only of expired entries, callbacks, check-then-act, nothing foreign under the lock, twins
// agree) are applied to them as well wherever the evaluator models the method completely; they have no reference
// table.
func cacheExtraNames(r *Run) []string {
	known := map[string]bool{}
	for _, n := range cachePublic {
		known[n] = true
	}
	set := map[string]bool{}
	for twin := 0; twin < 2; twin++ {
		for n, f := range r.M.CacheM[twin] {
			if f != nil && !known[n] && f.Object() != nil && f.Object().Exported() {
				set[n] = true
			}
		}
	}
	var out []string
	for n := range set {
		out = append(out, n)
	}
	sort.Strings(out)
	return out
}

// cleanPaths: the method exists and was evaluated without unmodelled constructs or overflow.
func cleanPaths(mp *MethodPaths) bool {
	if mp == nil || mp.Fn == nil || mp.Overflow || len(mp.Paths) == 0 {
		return false
	}
	for _, p := range mp.Paths {
		if len(p.Problems) > 0 {
			return false
		}
	}
	return true
}

// cacheMethodList: the reviewed methods followed by the API additions; extra[name] marks the latter.
func cacheMethodList(r *Run) (names []string, extra map[string]bool) {
	extra = map[string]bool{}
	names = append(names, cachePublic...)
	for _, n := range cacheExtraNames(r) {
		names = append(names, n)
		extra[n] = true
	}
	return names, extra
}

package rules

import (
	"go/types"

	"cachelint/internal/core"

	"golang.org/x/tools/go/ssa"
)

// bucketRoots computes the set of base values a (bucket) pointer or address derives from,
// closing over phi nodes, conversions, field/index steps inside a bucket and loads of link
// words inside a bucket (the chain). It stops at an IndexAddr whose element is a bucket
// (the root bucket of a chain), at parameters, allocations and other producers.
func bucketRoots(r *Run, v ssa.Value) map[ssa.Value]bool {
	out := map[ssa.Value]bool{}
	seen := map[ssa.Value]bool{}
	var walk func(v ssa.Value)
	walk = func(v ssa.Value) {
		v = core.StripConv(v)
		if v == nil || seen[v] {
			return
		}
		seen[v] = true
		switch x := v.(type) {
		case *ssa.Phi:
			for _, e := range x.Edges {
				walk(e)
			}
		case *ssa.FieldAddr:
			walk(x.X)
		case *ssa.IndexAddr:
			if isBucketType(r, elemOf(x.Type())) {
				out[v] = true
				return
			}
			walk(x.X)
		case *ssa.UnOp:
			// load: pointer read from memory; derived from the container it was read from
			a := core.Addr(x.X)
			if a.Root != nil && a.Root != x.X && isBucketOwner(r, a.Owner) {
				walk(a.Root)
				return
			}
			out[v] = true
		case *ssa.Const:
			if x.Value == nil {
				return // nil
			}
			out[v] = true
		case *ssa.Call:
			// an atomic load of a link word inside a bucket (typed atomics make every read of the link one, also under the
			// lock): derived from the bucket it was read from, like the plain load
			if op, addr, ok := core.AtomicOp(x); ok && op == "Load" {
				a := core.Addr(addr)
				if a.Root != nil && a.Root != addr && isBucketOwner(r, a.Owner) {
					walk(a.Root)
					return
				}
			}
			out[v] = true
		default:
			out[v] = true
		}
	}
	walk(v)
	return out
}

func elemOf(t types.Type) types.Type {
	if p, ok := t.Underlying().(*types.Pointer); ok {
		return p.Elem()
	}
	return t
}

func isBucketType(r *Run, t types.Type) bool {
	n, ok := t.(*types.Named)
	if !ok {
		return false
	}
	return isBucketOwner(r, n.Obj().Name())
}

func isBucketOwner(r *Run, name string) bool {
	for _, mm := range r.M.Maps {
		for _, b := range mm.BucketT {
			if b == name {
				return true
			}
		}
	}
	return false
}

// reaches reports whether control can flow from instruction a (after it) to instruction b
// without passing through instruction stop (may be nil). Same-block order is respected.
func reaches(a, b, stop ssa.Instruction) bool {
	idx := func(in ssa.Instruction) int {
		for i, x := range in.Block().Instrs {
			if x == in {
				return i
			}
		}
		return -1
	}
	ba, bb := a.Block(), b.Block()
	ia, ib := idx(a), idx(b)
	stopIdx := -1
	var stopB *ssa.BasicBlock
	if stop != nil {
		stopB = stop.Block()
		stopIdx = idx(stop)
	}
	// scan the rest of a's block
	if ba == bb && ib > ia {
		if !(stopB == ba && stopIdx > ia && stopIdx < ib) {
			return true
		}
	}
	if stopB == ba && stopIdx > ia {
		return false
	}
	seen := map[*ssa.BasicBlock]bool{}
	work := append([]*ssa.BasicBlock{}, ba.Succs...)
	for len(work) > 0 {
		x := work[len(work)-1]
		work = work[:len(work)-1]
		if seen[x] {
			continue
		}
		seen[x] = true
		if x == bb {
			if !(stopB == x && stopIdx < ib) {
				return true
			}
		}
		if stopB == x {
			continue // cannot pass through the stop instruction
		}
		work = append(work, x.Succs...)
	}
	return false
}

// freshInfo describes why a value is (not) an unpublished allocation at a program point.
type freshInfo struct {
	OK  bool
	Why string
}

// unpublishedAt decides whether every object v may denote at instruction `at` (in function f)
// is an allocation of the current resize/insert activation that no instruction able to reach
// `at` has yet made reachable to other goroutines. Parameters are resolved through all call
// sites (depth-bounded).
func unpublishedAt(r *Run, f *ssa.Function, v ssa.Value, at ssa.Instruction, depth int) freshInfo {
	if depth > 7 {
		return freshInfo{false, "call depth bound exceeded"}
	}
	seen := map[ssa.Value]bool{}
	var walk func(v ssa.Value) freshInfo
	walk = func(v ssa.Value) freshInfo {
		v = core.StripConv(v)
		if seen[v] {
			return freshInfo{true, ""}
		}
		seen[v] = true
		switch x := v.(type) {
		case *ssa.Const:
			if x.Value == nil {
				return freshInfo{true, ""}
			}
			return freshInfo{false, "constant"}
		case *ssa.Phi:
			for _, e := range x.Edges {
				if fi := walk(e); !fi.OK {
					return fi
				}
			}
			return freshInfo{true, ""}
		case *ssa.FieldAddr:
			return walk(x.X)
		case *ssa.IndexAddr:
			return walk(x.X)
		case *ssa.UnOp:
			// a local variable cell (a variable captured by a closure, or whose address is taken): the loaded
			// pointer is whatever was stored into the cell, not something the cell's own allocation makes fresh
			if cell, isCell := x.X.(*ssa.Alloc); isCell {
				for _, ref := range *cell.Referrers() {
					switch y := ref.(type) {
					case *ssa.Store:
						if y.Addr == ssa.Value(cell) {
							if fi := walk(y.Val); !fi.OK {
								return fi
							}
						}
					case *ssa.MakeClosure:
						cl := y.Fn.(*ssa.Function)
						for bi, b := range y.Bindings {
							if b != ssa.Value(cell) || bi >= len(cl.FreeVars) {
								continue
							}
							written := false
							core.Instrs(cl, func(in ssa.Instruction) {
								if st, ok := in.(*ssa.Store); ok && st.Addr == ssa.Value(cl.FreeVars[bi]) {
									written = true
								}
							})
							if written {
								return freshInfo{false, "variable " + cell.Comment + " is assigned inside a closure"}
							}
						}
					}
				}
				return freshInfo{true, ""}
			}
			// value loaded from memory: fresh iff loaded from a fresh container (slice header of a fresh table, link of a fresh bucket)
			a := core.Addr(x.X)
			if a.Root != nil {
				// ... unless the container is a local that was filled by copying shared memory into it (a by-value copy of
				// the published table header: its slice fields still point at the shared buckets)
				if loc, isLoc := a.Root.(*ssa.Alloc); isLoc {
					bad := freshInfo{OK: true}
					core.Instrs(f, func(in2 ssa.Instruction) {
						st, ok := in2.(*ssa.Store)
						if !ok || !bad.OK {
							return
						}
						sa := core.Addr(st.Addr)
						if sa.Root != ssa.Value(loc) {
							return
						}
						if st.Addr != ssa.Value(loc) && sa.Field != a.Field {
							return
						}
						if fi := walk(st.Val); !fi.OK {
							bad = freshInfo{false, "the local it is read from was filled from shared memory (" + fi.Why + ")"}
						}
					})
					if !bad.OK {
						return bad
					}
				}
				return walk(a.Root)
			}
			return freshInfo{false, "loaded from memory of unknown provenance"}
		case *ssa.Alloc, *ssa.MakeSlice:
			return publishedBefore(r, f, v, v.(ssa.Instruction), at)
		case *ssa.Extract:
			// one result of a helper that returns several: '(newTable, copyOver) := m.nextTable(table, hint)'
			if call, isCall := x.Tuple.(*ssa.Call); isCall {
				if cal := core.Callee(call); cal != nil && cal.Blocks != nil && depth < 6 && freshReturningAt(r, cal, x.Index, depth) {
					return publishedBefore(r, f, v, call, at)
				}
			}
			return freshInfo{false, "result of a call that is not a fresh allocation"}
		case *ssa.Call:
			// an atomic load of a word of a container (the link of a bucket read through its typed-atomic method): fresh
			// iff the container is, like the plain load above
			if op, addr, isAt := core.AtomicOp(x); isAt && op == "Load" {
				if a := core.Addr(addr); a.Root != nil && a.Root != addr {
					return walk(a.Root)
				}
			}
			cal := core.Callee(x)
			for _, mm := range r.M.Maps {
				if cal != nil && cal == mm.NewTable {
					return publishedBefore(r, f, v, x, at)
				}
			}
			if cal != nil && cal.Blocks != nil && depth < 6 {
				// a helper whose every return is an allocation of its own that it has not published
				if freshReturning(r, cal, depth) {
					return publishedBefore(r, f, v, x, at)
				}
				// a helper returning an address derived from one of its parameters (e.g. the counter stripe of a table)
				if pi, ok := returnsParamDerived(cal); ok && pi < len(x.Call.Args) {
					return walk(x.Call.Args[pi])
				}
			}
			return freshInfo{false, "result of " + fn(cal) + " is not a fresh allocation"}
		case *ssa.Parameter:
			idx := -1
			for i, p := range f.Params {
				if p == x {
					idx = i
				}
			}
			sites := core.CallSitesOf(r.P.Funcs, f)
			if idx < 0 || len(sites) == 0 {
				return freshInfo{false, "parameter " + x.Name() + " of " + fn(f) + " has no resolvable call site"}
			}
			for _, s := range sites {
				if fi := unpublishedAt(r, s.Parent(), s.Common().Args[idx], s, depth+1); !fi.OK {
					return freshInfo{false, "at call site " + r.P.InstrPos(s) + " in " + fn(s.Parent()) + ": " + fi.Why}
				}
			}
			return freshInfo{true, ""}
		}
		return freshInfo{false, "value " + v.Name() + " (" + typeName(v.Type()) + ") is not an allocation of this activation"}
	}
	return walk(v)
}

// freshReturning: every return of callee yields an allocation made by that activation which is still
// unpublished at the return.
func freshReturning(r *Run, cal *ssa.Function, depth int) bool {
	return freshReturningAt(r, cal, 0, depth)
}

// freshReturningAt: result #idx of every return of cal is an allocation of that activation, unpublished at the
// return (a nil result - 'nothing built on this path' - is fine too).
func freshReturningAt(r *Run, cal *ssa.Function, idx, depth int) bool {
	n := 0
	ok := true
	core.Instrs(cal, func(in ssa.Instruction) {
		ret, isRet := in.(*ssa.Return)
		if !isRet || len(ret.Results) <= idx {
			return
		}
		n++
		v := core.StripConv(ret.Results[idx])
		if core.IsNilConst(v) {
			return
		}
		switch v.(type) {
		case *ssa.Alloc, *ssa.MakeSlice, *ssa.Call, *ssa.Phi:
			if fi := unpublishedAt(r, cal, v, ret, depth+1); !fi.OK {
				ok = false
			}
		default:
			ok = false
		}
	})
	return ok && n > 0
}

// returnsParamDerived: every return of callee is an address (or pointer) derived from one and the same
// parameter through field / index steps and loads of its fields.
func returnsParamDerived(cal *ssa.Function) (int, bool) {
	idx := -1
	ok := true
	n := 0
	core.Instrs(cal, func(in ssa.Instruction) {
		ret, isRet := in.(*ssa.Return)
		if !isRet || len(ret.Results) != 1 {
			return
		}
		n++
		v := ret.Results[0]
		for d := 0; d < 8; d++ {
			v = core.StripConv(v)
			a := core.Addr(v)
			if a.Root != nil && a.Root != v {
				v = a.Root
				continue
			}
			if ld, isLd := v.(*ssa.UnOp); isLd {
				v = ld.X
				continue
			}
			break
		}
		p, isP := v.(*ssa.Parameter)
		if !isP {
			ok = false
			return
		}
		for i, q := range cal.Params {
			if q == p {
				if idx >= 0 && idx != i {
					ok = false
				}
				idx = i
			}
		}
	})
	return idx, ok && n > 0 && idx >= 0
}

// publishedBefore checks that no publication of the allocation `obj` can reach `at`.
func publishedBefore(r *Run, f *ssa.Function, obj ssa.Value, allocIn ssa.Instruction, at ssa.Instruction) freshInfo {
	// collect aliases of obj: conversions, phis, field/index addresses and slices of it
	alias := map[ssa.Value]bool{obj: true}
	for changed := true; changed; {
		changed = false
		core.Instrs(f, func(in ssa.Instruction) {
			v, ok := in.(ssa.Value)
			if !ok || alias[v] {
				return
			}
			switch x := in.(type) {
			case *ssa.Convert:
				if alias[x.X] {
					alias[v] = true
					changed = true
				}
			case *ssa.ChangeType:
				if alias[x.X] {
					alias[v] = true
					changed = true
				}
			case *ssa.Phi:
				for _, e := range x.Edges {
					if alias[e] {
						alias[v] = true
						changed = true
					}
				}
			case *ssa.FieldAddr:
				if alias[x.X] {
					alias[v] = true
					changed = true
				}
			case *ssa.IndexAddr:
				if alias[x.X] {
					alias[v] = true
					changed = true
				}
			case *ssa.Slice:
				if alias[x.X] {
					alias[v] = true
					changed = true
				}
			}
		})
	}
	var bad freshInfo
	bad.OK = true
	check := func(p ssa.Instruction, what string) {
		if !bad.OK || p == at {
			return
		}
		if reaches(p, at, allocIn) {
			bad = freshInfo{false, "object allocated at " + r.P.InstrPos(allocIn) + " is already published by " + what + " at " + r.P.InstrPos(p)}
		}
	}
	core.Instrs(f, func(in ssa.Instruction) {
		switch x := in.(type) {
		case *ssa.Store:
			if alias[x.Val] {
				// storing the object into memory: publication unless the destination is itself fresh
				if fi := unpublishedAt(r, f, x.Addr, in, 3); !fi.OK {
					check(in, "a plain store into shared memory")
				}
			}
		case ssa.CallInstruction:
			cc := x.Common()
			if core.IsBuiltinCall(x) != "" {
				return // len/cap/append/copy do not publish
			}
			if op, _, ok := core.AtomicOp(x); ok {
				for i, a := range cc.Args {
					if i > 0 && alias[a] && op != "Load" {
						check(in, "an atomic "+op)
					}
				}
				return
			}
			for i, a := range cc.Args {
				if !alias[a] {
					continue
				}
				cal := core.Callee(x)
				if cal != nil && familyParam(r, cal, i) {
					continue // the unpublished-object family only writes into it
				}
				if cal != nil && (r.M.Acquire[cal] || r.M.Release[cal]) {
					continue
				}
				if _, isGo := in.(*ssa.Go); isGo {
					check(in, "a go statement")
					continue
				}
				if cal != nil {
					if _, inLib := r.E.Of[cal]; !inLib {
						// std callee (e.g. sync.NewCond(&m.resizeMu)) keeps the pointer inside the object
						continue
					}
				}
				if cal != nil && nonEscapingParam(r, cal, i, 0) {
					continue // the callee only initialises the object: it keeps no reference to it
				}
				check(in, "a call to "+fn(cal))
			}
		case *ssa.MakeClosure:
			for _, b := range x.Bindings {
				if alias[b] {
					// captured by a closure: published only if the closure escapes to another goroutine; handled by C14.A6
				}
			}
		}
	})
	return bad
}

// familyParam reports whether parameter i of callee is only used as the destination of plain
// initialising writes on a not-yet-published object (the unpublished-object family: table
// constructor helpers, plain append, plain counter add, the copy routine's destination table).
func familyParam(r *Run, cal *ssa.Function, i int) bool {
	for _, mm := range r.M.Maps {
		switch cal {
		case mm.Append, mm.AddPlain:
			return true
		case mm.Copy:
			// destination table parameter: the one of table type
			if i < len(cal.Params) && core.Addr(cal.Params[i]).Root != nil {
				if n, ok := elemOf(cal.Params[i].Type()).(*types.Named); ok && n.Obj().Name() == mm.TableT {
					return true
				}
				// the destination's bucket array handed in directly (its loads hoisted into the caller)
				if sl, ok := cal.Params[i].Type().Underlying().(*types.Slice); ok && isBucketType(r, sl.Elem()) {
					return true
				}
			}
		case mm.SumSize, mm.AddSize:
			return true
		}
	}
	return false
}

// nonEscapingParam: the callee does not let its i-th parameter (or an address derived from it) escape - it is not
// stored into memory as a value, not returned, not captured by a closure, not handed to a goroutine or to an atomic
// store, and passed on only to std callees (which keep it inside the object, e.g. sync.NewCond(&x.mu)) or to
// in-package callees that are non-escaping themselves.
func nonEscapingParam(r *Run, cal *ssa.Function, i int, depth int) bool {
	if cal == nil || cal.Blocks == nil || i >= len(cal.Params) || depth > 2 {
		return false
	}
	alias := map[ssa.Value]bool{cal.Params[i]: true}
	for changed := true; changed; {
		changed = false
		core.Instrs(cal, func(in ssa.Instruction) {
			v, ok := in.(ssa.Value)
			if !ok || alias[v] {
				return
			}
			var src ssa.Value
			switch x := in.(type) {
			case *ssa.Convert:
				src = x.X
			case *ssa.ChangeType:
				src = x.X
			case *ssa.MakeInterface:
				src = x.X
			case *ssa.FieldAddr:
				src = x.X
			case *ssa.IndexAddr:
				src = x.X
			case *ssa.Slice:
				src = x.X
			case *ssa.Phi:
				for _, e := range x.Edges {
					if alias[e] {
						src = e
					}
				}
			}
			if src != nil && alias[src] {
				alias[v] = true
				changed = true
			}
		})
	}
	ok := true
	core.Instrs(cal, func(in ssa.Instruction) {
		if !ok {
			return
		}
		switch x := in.(type) {
		case *ssa.Store:
			// (a pointer into the object stored into a field of the same object - g.cond.L = &g.mu - goes nowhere else)
			if alias[x.Val] && !alias[x.Addr] {
				ok = false
			}
		case *ssa.Return:
			for _, res := range x.Results {
				if alias[res] {
					ok = false
				}
			}
		case *ssa.MakeClosure:
			for _, b := range x.Bindings {
				if alias[b] {
					ok = false
				}
			}
		case *ssa.Send:
			if alias[x.X] {
				ok = false
			}
		case ssa.CallInstruction:
			cc := x.Common()
			if core.IsBuiltinCall(x) != "" {
				return
			}
			_, isGo := in.(*ssa.Go)
			_, isDefer := in.(*ssa.Defer)
			for ai, a := range cc.Args {
				if !alias[a] {
					continue
				}
				if isGo || isDefer {
					ok = false
					return
				}
				if op, _, isAt := core.AtomicOp(x); isAt {
					if ai > 0 && op != "Load" {
						ok = false
					}
					continue
				}
				c2 := core.Callee(x)
				if c2 == nil {
					ok = false // dynamic call
					return
				}
				if _, inLib := r.E.Of[c2]; !inLib {
					continue
				}
				if r.M.Acquire[c2] || r.M.Release[c2] {
					continue
				}
				if !nonEscapingParam(r, c2, ai, depth+1) {
					ok = false
				}
			}
			if cc.IsInvoke() && alias[cc.Value] {
				ok = false
			}
		}
	})
	return ok
}

// copyDest: the table, as a value of the caller, that a call of the bucket-copy routine copies into: the argument for
// its table parameter, or - when the caller hands in the destination's bucket array - the table that array was read from.
func copyDest(r *Run, mm *core.MapModel, c *ssa.Call) ssa.Value {
	var dest ssa.Value
	for i, p := range mm.Copy.Params {
		if i >= len(c.Call.Args) {
			break
		}
		if n, ok := elemOf(p.Type()).(*types.Named); ok && n.Obj().Name() == mm.TableT {
			dest = c.Call.Args[i]
		}
	}
	if dest != nil {
		return dest
	}
	for i, p := range mm.Copy.Params {
		if i >= len(c.Call.Args) {
			break
		}
		if sl, ok := p.Type().Underlying().(*types.Slice); ok && isBucketType(r, sl.Elem()) {
			roots := map[ssa.Value]string{}
			tableFieldLoads(mm, c.Call.Args[i], roots, map[ssa.Value]bool{}, 0)
			if len(roots) == 1 {
				for v := range roots {
					dest = v
				}
			}
		}
	}
	return dest
}

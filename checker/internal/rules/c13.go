package rules

import (
	"fmt"
	"go/token"
	"go/types"
	"strings"

	"cachelint/internal/core"

	"golang.org/x/tools/go/ssa"
)

func init() {
	Registry["C13"] = C13
	Metas["C13"] = Meta{
		Explanation: "Decides the structural clauses of C13 on every CFG path of every lock-using function and every constant specialisation of its mode parameters: (L1) each bucket lock / resize mutex acquire is released on every return path and never re-acquired while held, and a bucket lock is never taken on a local by-value copy of a bucket; (L2) nothing that can wait on another goroutine (second bucket lock, resize mutex, Cond.Wait, resize, channel op, visitor/evicted callback) is invoked while a bucket lock is held; (L3) on every path of the resize owner from the winning CAS to a return the flag is cleared and then broadcast, at least one of them under the waiters' mutex, and no non-owner path clears the flag; (L4) every Cond.Wait is preceded, in the same resizeMu critical section, by an atomic test of the flag; (L5) on every evaluated abstract path of every public cache method, while a read-modify-write closure runs (under the bucket lock) only the user's compute function is called - no evicted callback, no visitor, no other function value - and no further operation of the underlying map is issued. NOT decided: actual termination (spin-lock fairness, starvation of retry loops, bounded chains) and the behaviour of a blocking/re-entering valueFn (excluded by the property).",
		Rule:        "one obligation per (rule, function, specialisation, exit or call site); non-trivial = verdict depended on at least one explored product-graph path or call site; minimum instance counts per role guard against vacuous passes",
		Assumptions: []string{"sync.Mutex, sync.Cond and sync/atomic behave as documented", "lock helpers are recognised structurally (CAS v->v|1 dominating all returns; store of load&^1)", "user hasher functions are non-blocking leaves"},
	}
}

func C13(r *Run) *core.Report {
	rep := core.NewReport("C13")
	if !modelOK(r, rep, "C13.L0") {
		return rep
	}
	c13L1L2(r, rep)
	c13L3(r, rep)
	c13L4(r, rep)
	c13L5(r, rep)
	// L6: the retry loop of the compute core ends: a grow request installs a strictly longer table (restated from the
	// table-length rule C11.L3), so the attempt after a grow finds room
	n6 := 0
	for _, o := range C11(r).Obs {
		if o.Trivial || o.Rule != "C11.L3" || !strings.Contains(o.Construct, "table length") {
			continue
		}
		c := *o
		c.Construct = "[" + o.Rule + "] " + o.Construct
		c.Rule = "C13.L6"
		rep.Obs = append(rep.Obs, &c)
		n6++
	}
	// ... measured against the table that is current once the resize flag is owned (restated from C03/C04.P4): a length
	// doubled from a stale, shorter table installs no longer table and the inserting caller retries for ever
	for i, prop := range []string{"C03", "C04"} {
		for _, o := range mapProtocol(r, prop, i).Obs {
			if o.Trivial || o.Rule != prop+".P4" || !strings.Contains(o.Construct, "new table length") {
				continue
			}
			c := *o
			c.Construct = "[" + o.Rule + "] " + o.Construct
			c.Rule = "C13.L6"
			rep.Obs = append(rep.Obs, &c)
			n6++
		}
	}
	rep.MinCount("C13.L6", "premise obligations (a grow grows)", n6, 2)
	// L7: chain walks end: each one moves to the link of the bucket it stands on (and stops at nil), restated from C11.L2
	n7 := 0
	for _, o := range C11(r).Obs {
		if o.Trivial || o.Rule != "C11.L2" || !strings.Contains(o.Construct, "advances along its own link") {
			continue
		}
		c := *o
		c.Construct = "[" + o.Rule + "] " + o.Construct
		c.Rule = "C13.L7"
		rep.Obs = append(rep.Obs, &c)
		n7++
	}
	rep.MinCount("C13.L7", "premise obligations (chain walks advance)", n7, 6)
	return rep
}

// hasherRole reports whether a dynamically called value is the map's hash function:
// loaded from a func-typed field of the map struct, or a parameter that receives such a load at every call site.
func hasherRole(r *Run, f *ssa.Function, v ssa.Value) bool {
	switch x := v.(type) {
	case *ssa.UnOp:
		a := core.Addr(x.X)
		for _, mm := range r.M.Maps {
			if a.Owner == mm.Name && isFuncTyped(x.Type()) {
				return true
			}
		}
	case *ssa.Parameter:
		idx := -1
		for i, p := range f.Params {
			if p == x {
				idx = i
			}
		}
		sites := core.CallSitesOf(r.P.Funcs, f)
		if idx < 0 || len(sites) == 0 {
			return false
		}
		for _, s := range sites {
			if !hasherRole(r, s.Parent(), s.Common().Args[idx]) {
				return false
			}
		}
		return true
	}
	return false
}

func c13L1L2(r *Run, rep *core.Report) {
	users := lockUsers(r)
	nRelease, nSpecs := 0, 0
	bucketHolders := 0
	for _, f := range users {
		rep.Fn(fn(f))
		ords := exitOrdinals(f)
		holder := false
		for _, sp := range specsFor(r, f) {
			nSpecs++
			name := fn(f) + sp.String(f)
			rep.Spec(name)
			lf := lockFacts(r, f, sp)
			bad := map[ssa.Instruction][]core.Finding[LS]{}
			for _, fd := range lf.M.Findings {
				bad[fd.Instr] = append(bad[fd.Instr], fd)
			}
			// L1: exits
			for _, b := range f.Blocks {
				for _, in := range b.Instrs {
					switch x := in.(type) {
					case *ssa.Return:
						if !lf.Reached(in) {
							continue
						}
						c := fmt.Sprintf("%s exit#%d", name, ords[in])
						if fds := bad[in]; len(fds) > 0 {
							rep.Fail("C13.L1", c, r.P.InstrPos(in), fds[0].Msg+" (lock-pairing automaton; entry -> this exit)", lf.M.Trace(fds[0].At)...)
						} else {
							rep.Pass("C13.L1", c, r.P.InstrPos(in), "lockset empty at this return on every path")
						}
					case *ssa.Panic:
						if lf.Reached(in) {
							rep.Note(fmt.Sprintf("panic exit reachable in %s at %s (excluded from L1: property speaks of returns)", name, r.P.InstrPos(x)))
						}
					default:
						if ev := r.M.LockEventOf(in); ev != nil && lf.Reached(in) {
							if ev.Class == "bucket" {
								holder = true
							}
							if !ev.Acquire {
								nRelease++
							}
							kind := "release"
							if ev.Acquire {
								kind = "acquire"
							}
							c := fmt.Sprintf("%s %s(%s)", name, kind, ev.Key)
							// the lock word of a by-value copy of a bucket (for _, b := range table.buckets { lock(&b.mu) }) is
							// not the bucket's lock: it excludes nobody, and a copy taken while a writer holds the real lock
							// carries the set lock bit for ever - the acquire spins without end
							if ev.Acquire && ev.Class == "bucket" {
								if cell, isCell := core.StripConv(ev.Root).(*ssa.Alloc); isCell && isBucketType(r, elemOf(cell.Type())) {
									rep.Fail("C13.L1", c+" on a copy", r.P.InstrPos(in), "the bucket lock is taken on a local by-value copy of a bucket ("+cell.Name()+"): it excludes no writer, and if the copy was taken while the real lock was held the acquire never succeeds")
									continue
								}
							}
							if fds := bad[in]; len(fds) > 0 {
								tag := Fail
								_ = tag
								if fds[0].Tag == "undecided" {
									rep.Undecided("C13.L1", c, r.P.InstrPos(in), fds[0].Msg)
								} else {
									rep.Fail("C13.L1", c, r.P.InstrPos(in), fds[0].Msg, lf.M.Trace(fds[0].At)...)
								}
							} else {
								rep.Pass("C13.L1", c, r.P.InstrPos(in), "well-paired on every path reaching it")
							}
						} else if _, ok := in.(*ssa.Defer); ok {
							if fds := bad[in]; len(fds) > 0 {
								rep.Undecided("C13.L1", name+" defer", r.P.InstrPos(in), fds[0].Msg)
							}
						}
					}
				}
			}
			// L2: what happens while a bucket lock may be held
			for _, b := range f.Blocks {
				for _, in := range b.Instrs {
					_, may, canon := lf.HeldAt(in)
					if !may {
						continue
					}
					c13underLock(r, rep, f, name, in, canon)
				}
			}
		}
		if holder {
			bucketHolders++
		}
	}
	rep.MinCount("C13.L1", "functions holding a bucket lock", bucketHolders, 6)
	rep.MinCount("C13.L1", "release events (over specialisations)", nRelease, 20)
	rep.MinCount("C13.L1", "function specialisations with lock events", nSpecs, 12)
}

const Fail = core.Fail

// c13underLock checks one instruction that may execute with a bucket lock held.
func c13underLock(r *Run, rep *core.Report, f *ssa.Function, name string, in ssa.Instruction, canon string) {
	pos := r.P.InstrPos(in)
	switch x := in.(type) {
	case *ssa.Send, *ssa.Select:
		rep.Fail("C13.L2", name+" channel-op", pos, "channel operation while bucket lock "+canon+" is held")
		return
	case *ssa.UnOp:
		if x.Op == token.ARROW {
			rep.Fail("C13.L2", name+" channel-op", pos, "channel receive while bucket lock "+canon+" is held")
		}
		return
	}
	c, ok := in.(ssa.CallInstruction)
	if !ok {
		return
	}
	if _, isGo := in.(*ssa.Go); isGo {
		return
	}
	if ev := r.M.LockEventOf(in); ev != nil {
		return // pairing is L1's business (double acquire reported there)
	}
	cc := c.Common()
	if core.IsBuiltinCall(c) != "" {
		return
	}
	if _, _, ok := core.AtomicOp(c); ok {
		return
	}
	cal := core.Callee(c)
	if cal == nil && !cc.IsInvoke() {
		// dynamic call of a function value
		mm := r.M.MapOfFunc(f)
		allowed := false
		role := core.FuncValueRole(f, cc.Value)
		if mm != nil && f == mm.Core {
			if p, ok := cc.Value.(*ssa.Parameter); ok && isFuncTyped(p.Type()) {
				allowed = true // the compute function: runs under the lock by contract
				role = "valueFn"
			}
		}
		if hasherRole(r, f, cc.Value) {
			allowed = true
			role = "hasher"
		}
		cons := fmt.Sprintf("%s calls %s under lock", name, role)
		rep.Check(allowed, "C13.L2", cons, pos,
			"function value of role "+role+" may run under the bucket lock (valueFn by the property's exception, hasher as trusted leaf)",
			"function value ("+role+") is called while bucket lock "+canon+" is held; a visitor or callback invoked here may re-enter the container and deadlock")
		return
	}
	if cc.IsInvoke() {
		if name2, mm, ok := r.M.ItemsInvoke(c); ok {
			cal = mm.Methods[name2]
		} else {
			return
		}
	}
	if cal == nil {
		return
	}
	if _, in := r.E.Of[cal]; !in {
		// external callee
		id := core.FuncID(cal)
		switch id {
		case "(*sync.Cond).Wait", "time.Sleep", "(*sync.WaitGroup).Wait":
			rep.Fail("C13.L2", name+" calls "+id+" under lock", pos, id+" while bucket lock "+canon+" is held")
		}
		return
	}
	var why []string
	for _, eff := range []string{core.EffBucketLock, core.EffResizeMu, core.EffCondWait, core.EffChan, core.EffSleep, core.EffWaitGroup} {
		if w, ok := r.E.Has(cal, eff); ok {
			why = append(why, eff+" via "+w)
		}
	}
	// user-facing function values reachable from the callee (visitor / callback)
	for _, eff := range r.E.List(cal) {
		if strings.HasPrefix(eff, "calls-funcvalue:") && !strings.Contains(eff, "hasher") {
			// allowed only when the callee's dynamic call is the hasher; anything else is flagged
			w, _ := r.E.Has(cal, eff)
			why = append(why, eff+" via "+w)
		}
	}
	cons := fmt.Sprintf("%s calls %s under lock", name, fn(cal))
	if len(why) > 0 {
		rep.Fail("C13.L2", cons, pos, "callee may wait on another goroutine or re-enter while bucket lock "+canon+" is held: "+strings.Join(why, "; "))
	} else {
		rep.Pass("C13.L2", cons, pos, "callee has no blocking / re-entering effect")
	}
}

// ---- L3: resize ownership protocol ----

type rzState struct {
	Owner   int8 // 0 = CAS not yet decided, 1 = won, 2 = lost
	DMu     bool // release of the resize mutex deferred to the return
	Mu      bool
	Cleared bool
	Bcast   bool
	InMu    bool // clear or broadcast happened inside the resizeMu critical section
	EarlyB  bool // a broadcast happened before the clear, inside the resizeMu critical section that is still open
}

func c13L3(r *Run, rep *core.Report) {
	n := 0
	for _, mm := range r.M.Maps {
		f := mm.Resize
		rep.Fn(fn(f))
		ords := exitOrdinals(f)
		for _, sp := range specsFor(r, f) {
			n++
			name := fn(f) + sp.String(f)
			rep.Spec(name)
			casVal := flagCASIn(mm, f)
			m := &core.Machine[rzState]{P: r.P, Fn: f, Spec: sp, Inline: helperInline(r)}
			m.Step = func(ctx *core.Ctx[rzState], s rzState, in ssa.Instruction) []rzState {
				if _, isDefer := in.(*ssa.Defer); isDefer {
					if dev := r.M.LockEventOfCall(in.(ssa.CallInstruction)); dev != nil && dev.Class == "resize" && !dev.Acquire {
						s.DMu = true
					}
					return []rzState{s}
				}
				if _, isRun := in.(*ssa.RunDefers); isRun && s.DMu {
					s.Mu, s.DMu = false, false
					return []rzState{s}
				}
				if ev := r.M.LockEventOf(in); ev != nil && ev.Class == "resize" {
					s.Mu = ev.Acquire
					s.EarlyB = false // a broadcast counts for a later clear only inside one critical section
					return []rzState{s}
				}
				if c, ok := in.(ssa.CallInstruction); ok {
					if op, addr, ok := core.AtomicOp(c); ok {
						a := core.Addr(addr)
						if mm.IsFlag(a) {
							switch op {
							case "CAS":
								s.Owner = 0
							case "Store", "Swap", "Add":
								if k, ok := core.ConstInt(core.AtomicLastArg(c)); ok && k == 0 && op == "Store" {
									if s.Owner != 1 {
										ctx.Report(in, "clear-by-nonowner", "resize flag cleared on a path where the CAS was not won")
									}
									if s.Bcast {
										// clear after broadcast: a waiter woken by the broadcast may still see the flag set and sleep again
										s.Bcast = false
									}
									s.Cleared = true
									if s.Mu {
										s.InMu = true
									}
									if s.EarlyB && s.Mu {
										// ... unless broadcast and clear sit in one resizeMu critical section: a woken waiter cannot
										// re-test the flag before the section ends, by then the flag is clear - the order inside does not matter
										s.Bcast = true
									}
								} else {
									ctx.Report(in, "flag-write", "resize flag written by something other than the CAS and the owner's store of 0")
								}
							}
						}
					}
					switch core.CalleeID(c) {
					case "(*sync.Cond).Broadcast":
						if s.Cleared {
							s.Bcast = true
							if s.Mu {
								s.InMu = true
							}
						} else if s.Mu {
							s.EarlyB = true
						}
					case "(*sync.Cond).Signal":
						ctx.Report(in, "signal", "Cond.Signal wakes one waiter only; every writer parked in the wait function must be woken")
					}
				}
				if ret, ok := in.(*ssa.Return); ok && s.Owner == 1 {
					switch {
					case !s.Cleared:
						ctx.Report(ret, "owner-exit", "resize owner returns without clearing the resize flag: every later writer waits forever")
					case !s.Bcast:
						ctx.Report(ret, "owner-exit", "resize owner returns without Broadcast after clearing the flag: parked writers are never woken")
					case !s.InMu:
						ctx.Report(ret, "owner-exit", "flag clear and Broadcast both happen outside the resize mutex: a waiter can test the flag, miss the broadcast and then wait (lost wake-up)")
					}
				}
				if ret, ok := in.(*ssa.Return); ok && s.Mu {
					ctx.Report(ret, "owner-exit", "resize mutex held at return")
				}
				return []rzState{s}
			}
			m.Edge = func(ctx *core.Ctx[rzState], s rzState, from *ssa.BasicBlock, idx int) (rzState, bool) {
				iff, ok := from.Instrs[len(from.Instrs)-1].(*ssa.If)
				if !ok || casVal == nil {
					return s, true
				}
				cond := iff.Cond
				neg := false
				for {
					if u, ok := cond.(*ssa.UnOp); ok && u.Op == token.NOT {
						neg = !neg
						cond = u.X
						continue
					}
					break
				}
				if cond == casVal {
					won := (idx == 0) != neg
					if won {
						s.Owner = 1
						s.Cleared, s.Bcast, s.InMu = false, false, false
					} else {
						s.Owner = 2
					}
				}
				return s, true
			}
			if casVal == nil {
				rep.Undecided("C13.L3", name, r.P.Pos(f.Pos()), "no CAS on the resize flag found")
				continue
			}
			m.Run()
			bad := map[ssa.Instruction]core.Finding[rzState]{}
			var other []core.Finding[rzState]
			for _, fd := range m.Findings {
				if _, ok := fd.Instr.(*ssa.Return); ok {
					if _, dup := bad[fd.Instr]; !dup {
						bad[fd.Instr] = fd
					}
				} else {
					other = append(other, fd)
				}
			}
			reach := sp.Reachable(f)
			for _, b := range f.Blocks {
				if !reach[b] {
					continue
				}
				for _, in := range b.Instrs {
					if ret, ok := in.(*ssa.Return); ok {
						c := fmt.Sprintf("%s exit#%d", name, ords[in])
						if fd, ok := bad[in]; ok {
							rep.Fail("C13.L3", c, r.P.InstrPos(ret), fd.Msg, m.Trace(fd.At)...)
						} else {
							rep.Pass("C13.L3", c, r.P.InstrPos(ret), "owner paths reaching this exit clear the flag, then broadcast, with one of them under the resize mutex; non-owner paths leave the flag alone")
						}
					}
					if pn, ok := in.(*ssa.Panic); ok {
						rep.Fail("C13.L3", name+" panic", r.P.InstrPos(pn), "explicit panic reachable in resize under this hint (resize flag would stay set)")
					}
				}
			}
			seen := map[string]bool{}
			for _, fd := range other {
				k := fd.Tag + r.P.InstrPos(fd.Instr)
				if seen[k] {
					continue
				}
				seen[k] = true
				rep.Fail("C13.L3", name+" "+fd.Tag, r.P.InstrPos(fd.Instr), fd.Msg, m.Trace(fd.At)...)
			}
		}
		// the flag is written nowhere else
		inl := helperInline(r)
		for _, g := range r.P.Funcs {
			if g == f {
				continue
			}
			otherOwner := false
			for _, m2 := range r.M.Maps {
				if g == m2.Resize && m2.StateOwner == mm.StateOwner {
					otherOwner = true // bookkeeping shared by both map types: the other map's resize owner (judged as such itself)
				}
			}
			if otherOwner {
				continue
			}
			if inl(g, nil) {
				// a helper analysed in place: fine when it is only ever called from the resize function
				only := true
				sites := core.CallSitesOf(r.P.Funcs, g)
				for _, site := range sites {
					fromResize := false
					// called through a bound-method forwarder ('finish := m.endResize; defer finish()'): judged by where the
					// method value is created
					if p := site.Parent(); p != nil && (strings.Contains(p.Synthetic, "bound method wrapper") || strings.Contains(p.Synthetic, "thunk")) {
						created, inResize := 0, 0
						for _, h := range r.P.Funcs {
							core.Instrs(h, func(in2 ssa.Instruction) {
								if mc, isMC := in2.(*ssa.MakeClosure); isMC && mc.Fn == ssa.Value(p) {
									created++
									for _, m2 := range r.M.Maps {
										if h == m2.Resize && m2.StateOwner == mm.StateOwner {
											inResize++
										}
									}
								}
							})
						}
						if created > 0 && created == inResize {
							fromResize = true
						}
					}
					for _, m2 := range r.M.Maps {
						// bookkeeping shared by both map types: the other map's resize owner calls the same helper
						if site.Parent() == m2.Resize && m2.StateOwner == mm.StateOwner {
							fromResize = true
						}
					}
					if !fromResize {
						only = false
					}
				}
				// the helper taken as a method value ('finish := m.endResize; defer finish()'): judged by where the value is made
				nMV, nMVResize := 0, 0
				for _, h := range r.P.Funcs {
					core.Instrs(h, func(in2 ssa.Instruction) {
						mc, isMC := in2.(*ssa.MakeClosure)
						if !isMC {
							return
						}
						if wf, _ := mc.Fn.(*ssa.Function); wf == nil || boundMethod(wf) != g {
							return
						}
						nMV++
						for _, m2 := range r.M.Maps {
							if h == m2.Resize && m2.StateOwner == mm.StateOwner {
								nMVResize++
							}
						}
					})
				}
				if only && nMV == nMVResize && len(sites)+nMV > 0 {
					continue
				}
			}
			core.Instrs(g, func(in ssa.Instruction) {
				if c, ok := in.(ssa.CallInstruction); ok {
					if op, addr, ok := core.AtomicOp(c); ok && op != "Load" {
						if a := core.Addr(addr); mm.IsFlag(a) {
							rep.Fail("C13.L3", fn(g)+" writes resize flag", r.P.InstrPos(in), "resize flag written outside the resize owner")
						}
					}
				}
				if st, ok := in.(*ssa.Store); ok {
					if a := core.Addr(st.Addr); mm.IsFlag(a) {
						rep.Fail("C13.L3", fn(g)+" writes resize flag", r.P.InstrPos(in), "plain store to the resize flag")
					}
				}
			})
		}
	}
	rep.MinCount("C13.L3", "resize specialisations", n, 4)
}

// ---- L4: waiter protocol ----

type wtState struct {
	Mu     bool
	Tested bool
}

func c13L4(r *Run, rep *core.Report) {
	waits := 0
	for _, f := range r.P.Funcs {
		has := false
		core.Instrs(f, func(in ssa.Instruction) {
			if c, ok := in.(ssa.CallInstruction); ok && core.CalleeID(c) == "(*sync.Cond).Wait" {
				has = true
			}
		})
		if !has {
			continue
		}
		mm := r.M.MapOfFunc(f)
		rep.Fn(fn(f))
		m := &core.Machine[wtState]{P: r.P, Fn: f, Spec: core.Spec{}, Inline: helperInline(r)}
		okAt := map[ssa.Instruction]bool{}
		m.Step = func(ctx *core.Ctx[wtState], s wtState, in ssa.Instruction) []wtState {
			if ev := r.M.LockEventOf(in); ev != nil && ev.Class == "resize" {
				s.Mu = ev.Acquire
				s.Tested = false
				return []wtState{s}
			}
			c, ok := in.(ssa.CallInstruction)
			if !ok {
				return []wtState{s}
			}
			if op, addr, ok := core.AtomicOp(c); ok && op == "Load" && mm != nil {
				if a := core.Addr(addr); mm.IsFlag(a) {
					s.Tested = s.Mu
				}
			}
			if cal := core.Callee(c); cal != nil && mm != nil && cal == mm.InProg {
				s.Tested = s.Mu
			}
			if core.CalleeID(c) == "(*sync.Cond).Wait" {
				if _, seen := okAt[in]; !seen {
					okAt[in] = true
				}
				if !s.Mu {
					okAt[in] = false
					ctx.Report(in, "wait", "Cond.Wait reached without holding the resize mutex")
				} else if !s.Tested {
					okAt[in] = false
					ctx.Report(in, "wait", "Cond.Wait not preceded by an atomic test of the resize flag in the same critical section: the resize may already have finished (lost wake-up)")
				}
				s.Tested = false
			}
			return []wtState{s}
		}
		m.Run()
		for in, ok := range okAt {
			waits++
			if len(r.M.Maps) == 2 && r.M.Maps[0].Wait == f && r.M.Maps[1].Wait == f {
				waits++ // one wait function on the bookkeeping struct shared by both map types
			}
			c := fn(f) + " Cond.Wait"
			if ok {
				rep.Pass("C13.L4", c, r.P.InstrPos(in), "flag tested under the resize mutex on every path to the Wait")
			} else {
				fd := m.Findings[0]
				rep.Fail("C13.L4", c, r.P.InstrPos(in), fd.Msg, m.Trace(fd.At)...)
			}
		}
	}
	rep.MinCount("C13.L4", "Cond.Wait sites", waits, 2)
}

// ---- L5: closures the cache layer runs under the bucket lock ----

// lockedClosures returns the closures of package cache that are passed to a map operation
// which calls that argument while holding the bucket lock.
func lockedClosures(r *Run) map[*ssa.Function]ssa.CallInstruction {
	out := map[*ssa.Function]ssa.CallInstruction{}
	// which (map method, param index) run locked: the core calls its func param under the lock;
	// wrappers forward their own parameter or a closure around it.
	locked := map[*ssa.Function]map[int]bool{}
	for _, mm := range r.M.Maps {
		for _, sp := range specsFor(r, mm.Core) {
			lf := lockFacts(r, mm.Core, sp)
			core.Instrs(mm.Core, func(in ssa.Instruction) {
				if c, ok := in.(ssa.CallInstruction); ok {
					if p, ok := c.Common().Value.(*ssa.Parameter); ok {
						if _, may, _ := lf.HeldAt(in); may {
							for i, q := range mm.Core.Params {
								if q == p {
									if locked[mm.Core] == nil {
										locked[mm.Core] = map[int]bool{}
									}
									locked[mm.Core][i] = true
								}
							}
						}
					}
				}
			})
		}
		for _, meth := range mm.Methods {
			core.Instrs(meth, func(in ssa.Instruction) {
				c, ok := in.(ssa.CallInstruction)
				if !ok || core.Callee(c) != mm.Core {
					return
				}
				for ai, a := range c.Common().Args {
					if !locked[mm.Core][ai] {
						continue
					}
					mark := func(i int) {
						if locked[meth] == nil {
							locked[meth] = map[int]bool{}
						}
						locked[meth][i] = true
					}
					for i, q := range meth.Params {
						if ssa.Value(q) == a {
							mark(i)
						}
					}
					if mc, ok := a.(*ssa.MakeClosure); ok {
						// closure around the wrapper's own func parameter (LoadOrCompute)
						for _, b := range mc.Bindings {
							if al, ok := b.(*ssa.Alloc); ok {
								for _, ref := range *al.Referrers() {
									if st, ok := ref.(*ssa.Store); ok {
										for i, q := range meth.Params {
											if ssa.Value(q) == st.Val && isFuncTyped(q.Type()) {
												mark(i)
											}
										}
									}
								}
							}
						}
					}
				}
			})
		}
	}
	for _, f := range r.P.Funcs {
		if f.Pkg != r.P.Cache {
			continue
		}
		core.Instrs(f, func(in ssa.Instruction) {
			c, ok := in.(ssa.CallInstruction)
			if !ok {
				return
			}
			name, mm, ok := r.M.ItemsInvoke(c)
			if !ok {
				return
			}
			meth := mm.Methods[name]
			for ai, a := range c.Common().Args {
				if locked[meth][ai+1] {
					if mc, ok := a.(*ssa.MakeClosure); ok {
						out[mc.Fn.(*ssa.Function)] = c
					}
				}
			}
		})
	}
	return out
}

// userFnCapture reports whether a value called inside closure cl is a captured func-typed
// parameter of the enclosing API method (the user's compute function of this very call).
func userFnCapture(cl *ssa.Function, v ssa.Value) bool {
	ld, ok := v.(*ssa.UnOp)
	if !ok {
		return false
	}
	fv, ok := ld.X.(*ssa.FreeVar)
	if !ok {
		return false
	}
	idx := -1
	for i, x := range cl.FreeVars {
		if x == fv {
			idx = i
		}
	}
	parent := cl.Parent()
	if idx < 0 || parent == nil {
		return false
	}
	okAll := false
	core.Instrs(parent, func(in ssa.Instruction) {
		mc, ok := in.(*ssa.MakeClosure)
		if !ok || mc.Fn != ssa.Value(cl) || idx >= len(mc.Bindings) {
			return
		}
		al, ok := mc.Bindings[idx].(*ssa.Alloc)
		if !ok {
			return
		}
		n, good := 0, 0
		for _, ref := range *al.Referrers() {
			if st, ok := ref.(*ssa.Store); ok && st.Addr == ssa.Value(al) {
				n++
				if p, ok := st.Val.(*ssa.Parameter); ok && isFuncTyped(p.Type()) {
					if _, named := p.Type().(*types.Named); !named {
						good++
					}
				}
			}
		}
		okAll = n > 0 && n == good
	})
	return okAll
}

func c13L5(r *Run, rep *core.Report) {
	// role evaluation of every public cache method: while the closure of a read-modify-write operation runs (under
	// the bucket lock) no evicted callback, no visitor and no other function value except the user's compute function
	// is called, and no further operation of the underlying map is issued (it would lock a bucket again).
	n := 0
	names, extra := cacheMethodList(r)
	for twin := 0; twin < 2; twin++ {
		for _, name := range names {
			mp := methodPaths(r, twin, name)
			if extra[name] {
				if !cleanPaths(mp) {
					continue
				}
			} else if undecidedPaths(r, rep, "C13.L0", mp) {
				continue
			}
			rep.Fn(fn(mp.Fn))
			bad := map[string]string{}
			for pi := range mp.Paths {
				p := &mp.Paths[pi]
				for _, ev := range p.Events {
					if ev.InOp == 0 {
						continue
					}
					n++
					switch ev.Kind {
					case "callback":
						bad["cb"+ev.Pos] = "the evicted callback is invoked at " + ev.Pos + " from inside the closure of a read-modify-write operation, i.e. while the bucket lock is held: a callback that re-enters the cache on a key of the same bucket deadlocks"
					case "dyncall":
						bad["dyn"+ev.Pos] = "a function value that is not the user's compute function (" + ev.Name + ") is called at " + ev.Pos + " while the bucket lock is held"
					case "mapop":
						bad["op"+ev.Pos] = "the map operation " + ev.Name + " at " + ev.Pos + " is issued from inside the closure of another read-modify-write operation (under its bucket lock): self-deadlock when both keys share a bucket, or lock-order inversion with a resize"
					case "usercall":
						// the user's compute function runs under the lock by the property's own exception; a visitor must not
						if name == "Range" || name == "Items" {
							bad["visit"+ev.Pos] = "the Range visitor is invoked at " + ev.Pos + " while a bucket lock is held"
						}
					}
				}
			}
			pos := r.P.Pos(mp.Fn.Pos())
			if len(bad) == 0 {
				rep.Pass("C13.L5", fn(mp.Fn)+" locked closures", pos, "closures running under the bucket lock call only the user's compute function and issue no map operation")
			}
			for _, k := range sortedKeysS(bad) {
				rep.Fail("C13.L5", fn(mp.Fn)+" locked closures", pos, bad[k])
			}
		}
	}
	rep.MinCount("C13.L5", "events inside read-modify-write closures", n, 8)
}

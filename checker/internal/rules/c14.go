package rules

import (
	"fmt"
	"go/types"
	"strings"

	"cachelint/internal/core"

	"golang.org/x/tools/go/ssa"
)

func init() {
	Registry["C14"] = C14
	Metas["C14"] = Meta{
		Explanation: "Decides the access discipline C14 anchors, for every memory access reachable from the public API (the exported functions and methods of package cache, and every method of the two map types that the public cache.Map / cache.MapOf interfaces list; exported methods of the internal types that are not in those interfaces, such as Stats, are out of scope and listed as such): (A1) every write to a word that lock-free readers or other goroutines can read (bucket slots, meta/top-hash word, chain link, table pointer, resize flag, counter stripes) is a sync/atomic operation, or a plain store into an object allocated by the current activation that no instruction able to reach the store has yet published (checked through call sites for the plain-append / plain-counter helpers); (A2) every read of such a word is atomic, or plain with the bucket lock of that very chain in the must-lockset (the accessed bucket derives from the locked root; the lock taken is a chain's root bucket lock, never that of a bucket reached through a link), or on an unpublished object; (A3) immutable-after-publication fields (table header, immutable entries, map and cache header fields) are written only before publication; (A4) pointers stored into slots are nil or the address of an allocation of the current call (unique live value pointers); (A5) the settings live in sync/atomic typed fields (of the cache struct or of a struct nested in it by value) and are touched only through their atomic methods, an atomic.Value with one dynamic type per cache type; (A6) variables shared with the janitor goroutine are not written after the go statement; (A7) operands of 64-bit atomics are 8-byte aligned under the 386 layout; (A8) an object taken from a sync.Pool is handed back at most once (a Put in a deferred call plus a Put on some path of the function, its closures or the helpers the object is passed to, is reported); (A9) no builtin map held in a field of the shared cache / map structs (or of the module's struct types hung on them) is updated by a method, and no pointer-receiver method of a type from outside the module other than those of sync and sync/atomic is called on an object reached through such a field - unless the call is made between Lock and Unlock of a sync.Mutex / RWMutex in the same function. NOT decided: the race detector's verdict on executions, races inside user callbacks or on user values, correctness of the locks themselves (C13).",
		Rule:        "one obligation per (rule, function, access path, access kind) over all accesses in API-reachable function bodies; non-trivial = a shared-word access or settings use whose verdict depended on its lock context, atomicity or provenance",
		Assumptions: []string{"Go memory model: sync/atomic operations and mutex/spin-lock (CAS) pairs order the accesses they guard", "C13.L1 lock pairing holds (checked separately)", "functions unreachable from the public API (Stats) are out of scope"},
	}
}

func C14(r *Run) *core.Report {
	rep := core.NewReport("C14")
	if !modelOK(r, rep, "C14.A0") {
		return rep
	}
	reach := apiReachable(r)
	for _, f := range r.P.Funcs {
		if !reach[f] {
			if f.Parent() == nil && f.Name() != "init" {
				rep.OutScope = append(rep.OutScope, fn(f)+" (not reachable from the public API)")
			}
		}
	}
	c14Accesses(r, rep, reach)
	c14Pools(r, rep, reach)
	c14SharedObjects(r, rep, reach)
	c14Settings(r, rep, reach)
	c14Janitor(r, rep)
	c14Align(r, rep, reach)
	return rep
}

// helperSitesOK: for a helper that reads/writes through a pointer parameter, every call site must
// provide the required context. need = "lock" (bucket lock held on the chain the argument derives from)
// or "fresh".
func paramIndexOf(f *ssa.Function, v ssa.Value) int {
	for i, p := range f.Params {
		if ssa.Value(p) == v {
			return i
		}
	}
	return -1
}

// lockCovers decides whether, at instruction `at` of f under every specialisation, a bucket lock
// is held whose root is the chain the address derives from. depth bounds call-site recursion.
func lockCovers(r *Run, f *ssa.Function, addr ssa.Value, at ssa.Instruction, depth int) (bool, string) {
	if depth > 3 {
		return false, "call depth bound"
	}
	roots := bucketRoots(r, addr)
	for _, sp := range specsFor(r, f) {
		lf := lockFactsCached(r, f, sp)
		if !lf.Reached(at) {
			continue
		}
		for s := range lf.At[at] {
			if s.B == "" {
				// not held in this state: maybe a helper whose callers hold it
				okAll := true
				why := "no bucket lock held"
				for rt := range roots {
					prm, isP := rt.(*ssa.Parameter)
					if !isP {
						okAll = false
						why = "bucket lock not held on a path reaching this access" + sp.String(f)
						break
					}
					idx := paramIndexOf(f, prm)
					sites := core.CallSitesOf(r.P.Funcs, f)
					if idx < 0 || len(sites) == 0 {
						okAll = false
						why = "no call sites to establish the lock context"
						break
					}
					for _, site := range sites {
						if ok, w := lockCovers(r, site.Parent(), site.Common().Args[idx], site, depth+1); !ok {
							okAll = false
							why = "call site " + r.P.InstrPos(site) + " in " + fn(site.Parent()) + ": " + w
						}
					}
				}
				if !okAll || len(roots) == 0 {
					return false, why
				}
				continue
			}
			lockRoot := lf.RootOf[s.B]
			lockRoots := bucketRoots(r, lockRoot)
			for rt := range roots {
				if !lockRoots[rt] {
					// freshly allocated bucket not yet linked is also fine
					if fi := unpublishedAt(r, f, rt, at, 0); fi.OK {
						continue
					}
					return false, fmt.Sprintf("the accessed bucket derives from %s, not from the locked root %s", rt.Name(), s.B)
				}
			}
		}
	}
	return true, ""
}

func lockFactsCached(r *Run, f *ssa.Function, sp core.Spec) *LockFacts {
	k := fmt.Sprintf("%p/%s", f, sp.String(f))
	if lf, ok := r.lfMemo[k]; ok {
		return lf
	}
	lf := lockFacts(r, f, sp)
	r.lfMemo[k] = lf
	return lf
}

func c14Accesses(r *Run, rep *core.Report, reach map[*ssa.Function]bool) {
	nAtomic, nPlainLocked, nPlainFresh, nImm, nLockedAtomic := 0, 0, 0, 0, 0
	for _, f := range r.P.Funcs {
		if !reach[f] || r.M.Acquire[f] || r.M.Release[f] {
			continue
		}
		rep.Fn(fn(f))
		type key struct{ rule, cons string }
		done := map[key]bool{}
		emit := func(ok bool, rule, cons, pos, passD, failD string) {
			k := key{rule, cons}
			if ok && done[k] {
				return
			}
			done[k] = true
			rep.Check(ok, rule, cons, pos, passD, failD)
		}
		core.Instrs(f, func(in ssa.Instruction) {
			pos := r.P.InstrPos(in)
			switch x := in.(type) {
			case *ssa.UnOp:
				if x.Op.String() != "*" {
					return
				}
				if refs := x.Referrers(); refs != nil && len(*refs) == 0 {
					return // dead load (go/ssa materialises the operand of 'range array' although the language does not evaluate it)
				}
				a := core.Addr(x.X)
				if !r.M.IsSharedWord(a) {
					// a by-value copy of a whole shared struct (a counter stripe, a bucket) reads all its words plainly
					tn := core.NamedOf(x.Type())
					if _, isStruct := x.Type().Underlying().(*types.Struct); !isStruct || tn == "" || !(tn == r.M.StripeType() || isBucketOwner(r, tn)) {
						return
					}
					cons := fmt.Sprintf("%s plain copy of a whole %s", fn(f), tn)
					if fi := unpublishedAt(r, f, x.X, in, 0); fi.OK {
						emit(true, "C14.A2", cons+" (unpublished)", pos, "object not yet published", "")
						return
					}
					ok, why := lockCovers(r, f, x.X, in, 0)
					emit(ok, "C14.A2", cons, pos, "copied under the bucket lock of its own chain",
						"a whole "+tn+" is copied by value (plain reads of every word in it) while other goroutines update those words atomically: the copy races with them, and an atomic operation applied to the copy afterwards synchronises nothing: "+why)
					return
				}
				cons := fmt.Sprintf("%s plain read of %s", fn(f), a.Key())
				if ownerOnlyWord(r, a, f, reach) {
					emit(true, "C14.A2", cons+" (owner-only word)", pos, "word touched only by the resize owner, whose turns are ordered by the resize flag", "")
					return
				}
				if fi := unpublishedAt(r, f, x.X, in, 0); fi.OK {
					nPlainFresh++
					emit(true, "C14.A2", cons+" (unpublished)", pos, "object not yet published", "")
					return
				}
				ok, why := lockCovers(r, f, x.X, in, 0)
				if ok {
					nPlainLocked++
				}
				emit(ok, "C14.A2", cons, pos, "plain read under the bucket lock of its own chain (writers hold the same lock)",
					"plain (non-atomic) read of a word that other goroutines write concurrently, outside the protection of its chain's bucket lock: "+why)
			case *ssa.Store:
				a := core.Addr(x.Addr)
				shared := r.M.IsSharedWord(a)
				imm := isImmutableField(r, a)
				if !shared && !imm {
					return
				}
				fi := unpublishedAt(r, f, x.Addr, in, 0)
				if shared && !fi.OK && ownerOnlyWord(r, a, f, reach) {
					emit(true, "C14.A1", fmt.Sprintf("%s plain write of %s (owner-only word)", fn(f), a.Key()), pos, "word touched only by the resize owner, whose turns are ordered by the resize flag; no other function reachable from the public API accesses it", "")
					return
				}
				if shared {
					cons := fmt.Sprintf("%s plain write of %s", fn(f), a.Key())
					if fi.OK {
						nPlainFresh++
					}
					emit(fi.OK, "C14.A1", cons, pos, "plain store into an object of this activation that is not yet published",
						"plain (non-atomic) store to a word lock-free readers load concurrently: "+fi.Why)
				} else {
					cons := fmt.Sprintf("%s write of immutable field %s", fn(f), a.Key())
					if fi.OK {
						nImm++
					}
					emit(fi.OK, "C14.A3", cons, pos, "written before publication only",
						"field is immutable after publication (readers access it without synchronisation) but is written through a reference that is not an unpublished allocation: "+fi.Why)
				}
			case ssa.CallInstruction:
				if _, isGo := in.(*ssa.Go); isGo {
					return
				}
				op, addr, ok := core.AtomicOp(x)
				if !ok {
					return
				}
				a := core.Addr(addr)
				if r.M.IsSharedWord(a) {
					nAtomic++
					emit(true, "C14.A1", fmt.Sprintf("%s atomic %s of %s", fn(f), op, a.Key()), pos, "sync/atomic access", "")
					// (with typed-atomic bucket words the reads made under the bucket lock are atomic loads too: they count
					// towards 'the locked readers were seen')
					if op == "Load" && isBucketOwner(r, a.Owner) {
						if ok, _ := lockCovers(r, f, addr, in, 0); ok {
							nLockedAtomic++
						}
					}
				}
				// A4: pointer values stored into slots are nil or a fresh allocation of this call
				if (op == "Store") && len(x.Common().Args) == 2 && isBucketOwner(r, a.Owner) {
					if b, ok := x.Common().Args[1].Type().(*types.Basic); ok && b.Kind() == types.UnsafePointer {
						val := core.StripConv(x.Common().Args[1])
						cons := fmt.Sprintf("%s stores pointer into %s", fn(f), a.Key())
						okv := false
						why := ""
						if c, isC := val.(*ssa.Const); isC {
							okv = c.Value == nil
						} else if fi := unpublishedAt(r, f, val, in, 0); fi.OK {
							okv = true // an allocation of this call (possibly built by a helper) that nothing has published yet
						} else {
							why = "value " + val.Name() + " is not the address of an allocation made by this call (" + fi.Why + ")"
						}
						emit(okv, "C14.A4", cons, pos, "nil or the address of a per-call allocation (live value pointers stay unique)",
							"pointer published into a slot is not a fresh per-call allocation: "+why+"; the lock-free reader's snapshot relies on unique live pointers / immutable entries")
					}
				}
			}
		})
		// address escapes of shared words
		core.Instrs(f, func(in ssa.Instruction) {
			var v ssa.Value
			switch x := in.(type) {
			case *ssa.FieldAddr:
				v = x
			case *ssa.IndexAddr:
				v = x
			default:
				return
			}
			a := core.Addr(v)
			if !r.M.IsSharedWord(a) {
				return
			}
			for _, ref := range *v.Referrers() {
				switch y := ref.(type) {
				case *ssa.UnOp, *ssa.FieldAddr, *ssa.IndexAddr, *ssa.DebugRef:
				case *ssa.Store:
					if _, isH := r.M.HandleCtors[f]; isH && y.Addr != v {
						// a lock handle under construction: its uses are judged below (only the handle's lock operations)
						continue
					}
					if y.Addr != v {
						rep.Undecided("C14.A1", fmt.Sprintf("%s address of %s stored", fn(f), a.Key()), r.P.InstrPos(ref), "address of a shared word escapes into memory; accesses through it are not tracked")
					}
				case ssa.CallInstruction:
					if _, _, ok := core.AtomicOp(y); ok {
						continue
					}
					if r.M.LockEventOf(ref) != nil || r.M.LockEventOfCall(y) != nil {
						continue
					}
					if atomicOnlyCallee(y, v) {
						continue // a helper that does nothing with the address but atomic operations on it
					}
					rep.Undecided("C14.A1", fmt.Sprintf("%s address of %s passed to %s", fn(f), a.Key(), core.CalleeID(y)), r.P.InstrPos(ref), "address of a shared word escapes to a callee; accesses through it are not tracked")
				case *ssa.Phi:
				default:
					rep.Undecided("C14.A1", fmt.Sprintf("%s address of %s used by %T", fn(f), a.Key(), ref), r.P.InstrPos(ref), "unmodelled use of the address of a shared word")
				}
			}
		})
	}
	// lock handles (a struct value holding the pointer to a bucket's lock) are only ever locked and unlocked
	for hf := range r.M.HandleCtors {
		for _, site := range core.CallSitesOf(r.P.Funcs, hf) {
			hv, isV := site.(ssa.Value)
			if !isV || hv.Referrers() == nil {
				rep.Undecided("C14.A1", fn(site.Parent())+" lock handle", r.P.InstrPos(site), "lock handle built in a go/defer statement")
				continue
			}
			for _, ref := range *hv.Referrers() {
				switch y := ref.(type) {
				case *ssa.DebugRef:
				case ssa.CallInstruction:
					w, isW := r.M.Wrappers[core.Callee(y)]
					okUse := isW && w.Handle && w.Param < len(y.Common().Args) && y.Common().Args[w.Param] == hv
					rep.Check(okUse, "C14.A1", fmt.Sprintf("%s lock handle passed to %s", fn(site.Parent()), core.CalleeID(y)), r.P.InstrPos(ref), "the handle is only locked / unlocked", "a lock handle (pointer to a bucket's lock word) is passed to something other than its lock operations: accesses through it are not tracked")
				default:
					rep.Undecided("C14.A1", fmt.Sprintf("%s lock handle used by %T", fn(site.Parent()), ref), r.P.InstrPos(ref), "a lock handle (pointer to a bucket's lock word) is stored or copied: accesses through it are not tracked")
				}
			}
		}
	}
	// the lock that protects a chain's plain reads and its writers against each other is the lock of the chain's ROOT
	// bucket: every writer and the resize copy take that one. A lock taken on a bucket reached through a next link
	// (hand-over-hand over the chain) excludes nobody who matters
	nRootLocks := 0
	for _, f := range r.P.Funcs {
		if f.Pkg != r.P.Xsync || !reach[f] {
			continue
		}
		core.Instrs(f, func(in ssa.Instruction) {
			ev := r.M.LockEventOf(in)
			if ev == nil {
				if d, isD := in.(*ssa.Defer); isD {
					ev = r.M.LockEventOfCall(d)
				}
			}
			if ev == nil || ev.Class != "bucket" || !ev.Acquire {
				return
			}
			nRootLocks++
			viaLink := linkValue(r, ev.Root, 0)
			if phi, isPhi := core.StripConv(ev.Root).(*ssa.Phi); isPhi && !viaLink {
				for _, e := range phi.Edges {
					if linkValue(r, e, 0) {
						viaLink = true
					}
				}
			}
			rep.Check(!viaLink, "C14.A2", fn(f)+" locks a root bucket", r.P.InstrPos(in), "the bucket lock taken is a chain's root bucket lock", "a bucket lock is taken on a bucket reached through a chain link (an overflow bucket): writers and the resize copy lock only the root bucket of a chain, so this lock does not protect the plain reads made under it")
		})
	}
	rep.MinCount("C14.A2", "bucket lock acquisitions examined", nRootLocks, 4)
	rep.MinCount("C14.A1", "atomic accesses to shared words", nAtomic, 40)
	rep.MinCount("C14.A2", "reads of bucket words under a bucket lock (plain, or atomic where the words are typed atomics)", nPlainLocked+nLockedAtomic, 10)
	rep.MinCount("C14.A1", "plain accesses to unpublished objects", nPlainFresh, 6)
	rep.MinCount("C14.A3", "initialising writes of immutable fields", nImm, 6)
}

// isImmutableField: fields that are written before publication and read afterwards without
// synchronisation: all fields of the table struct and of the immutable entry, and the non-shared
// fields of the map header and of the cache object.
func isImmutableField(r *Run, a core.AddrPath) bool {
	if a.Owner == "" || a.Field == "" {
		return false
	}
	for i, mm := range r.M.Maps {
		if a.Owner == mm.TableT || (mm.EntryT != "" && a.Owner == mm.EntryT) {
			return true
		}
		if a.Owner == mm.Name && !r.M.IsSharedWord(a) {
			return true
		}
		if r.M.CacheT[i] != nil && a.Owner == r.M.CacheT[i].Obj().Name() {
			return true
		}
	}
	return false
}

// ---- A5: settings in atomic.Value ----

// c14Pools (A8): an object taken from a sync.Pool is handed back at most once. A Put in a deferred closure runs on
// every return; a second Put of the same object on some path (an early-exit helper that 'releases' it too) leaves the
// object in the pool twice, two later callers get the same memory, and their plain accesses race. Decided per Get:
// the Put sites of the obtained pointer in the function, in its closures and in the helpers it is passed to.
func c14Pools(r *Run, rep *core.Report, reach map[*ssa.Function]bool) {
	isPool := func(c ssa.CallInstruction, m string) bool {
		cal := core.Callee(c)
		if cal == nil || cal.Name() != m || cal.Signature.Recv() == nil {
			return false
		}
		pt, ok := cal.Signature.Recv().Type().(*types.Pointer)
		if !ok {
			return false
		}
		n, ok := pt.Elem().(*types.Named)
		return ok && n.Obj().Name() == "Pool" && n.Obj().Pkg() != nil && n.Obj().Pkg().Path() == "sync"
	}
	nGet := map[*ssa.Function]int{}
	for _, f := range r.P.Funcs {
		if !reach[f] || f.Blocks == nil || f.Parent() != nil {
			continue
		}
		core.Instrs(f, func(in ssa.Instruction) {
			get, ok := in.(*ssa.Call)
			if !ok || !isPool(get, "Get") {
				return
			}
			// the values that denote the pooled object: the Get result, its type assertions, the cells it is stored in
			obj := map[ssa.Value]bool{get: true}
			cells := map[ssa.Value]bool{}
			for changed := true; changed; {
				changed = false
				for v := range obj {
					if v.Referrers() == nil {
						continue
					}
					for _, ref := range *v.Referrers() {
						switch y := ref.(type) {
						case *ssa.TypeAssert:
							if !obj[y] {
								obj[y], changed = true, true
							}
						case *ssa.Extract:
							if !obj[y] {
								obj[y], changed = true, true
							}
						case *ssa.Store:
							if y.Val == v && !cells[y.Addr] {
								cells[y.Addr], changed = true, true
							}
						case *ssa.Phi:
							if !obj[y] {
								obj[y], changed = true, true
							}
						}
					}
				}
			}
			denotes := func(g *ssa.Function, v ssa.Value, binds map[*ssa.FreeVar]bool, params map[*ssa.Parameter]bool) bool {
				v = core.StripConv(v)
				if mi, isMI := v.(*ssa.MakeInterface); isMI {
					v = core.StripConv(mi.X)
				}
				if obj[v] {
					return true
				}
				if p, isP := v.(*ssa.Parameter); isP && params[p] {
					return true
				}
				if fv, isFV := v.(*ssa.FreeVar); isFV && binds[fv] {
					return true // captured by value
				}
				if ld, isLd := v.(*ssa.UnOp); isLd {
					if cells[ld.X] {
						return true
					}
					if fv, isFV := ld.X.(*ssa.FreeVar); isFV && binds[fv] {
						return true
					}
				}
				return false
			}
			type putSite struct {
				pos      string
				deferred bool
			}
			var puts []putSite
			var scan func(g *ssa.Function, binds map[*ssa.FreeVar]bool, params map[*ssa.Parameter]bool, deferred bool, depth int)
			scan = func(g *ssa.Function, binds map[*ssa.FreeVar]bool, params map[*ssa.Parameter]bool, deferred bool, depth int) {
				if g == nil || g.Blocks == nil || depth > 3 {
					return
				}
				core.Instrs(g, func(in2 ssa.Instruction) {
					switch c := in2.(type) {
					case ssa.CallInstruction:
						_, isDefer := in2.(*ssa.Defer)
						if isPool(c, "Put") && len(c.Common().Args) >= 2 && denotes(g, c.Common().Args[1], binds, params) {
							puts = append(puts, putSite{r.P.InstrPos(in2), deferred || isDefer})
							return
						}
						// a closure of g that captures the object (directly or through its cell)
						if mc, isMC := c.Common().Value.(*ssa.MakeClosure); isMC {
							cf := mc.Fn.(*ssa.Function)
							nb := map[*ssa.FreeVar]bool{}
							for bi, b := range mc.Bindings {
								if bi < len(cf.FreeVars) && (cells[b] || obj[b]) {
									nb[cf.FreeVars[bi]] = true
								}
								if fv, isFV := b.(*ssa.FreeVar); isFV && binds[fv] && bi < len(cf.FreeVars) {
									nb[cf.FreeVars[bi]] = true
								}
							}
							if len(nb) > 0 {
								scan(cf, nb, nil, deferred || isDefer, depth+1)
							}
							return
						}
						// a helper the object is passed to
						if cal := core.Callee(c); cal != nil && cal.Blocks != nil && cal != g {
							np := map[*ssa.Parameter]bool{}
							for ai, a := range c.Common().Args {
								if ai < len(cal.Params) && denotes(g, a, binds, params) {
									np[cal.Params[ai]] = true
								}
							}
							if len(np) > 0 {
								scan(cal, nil, np, deferred || isDefer, depth+1)
							}
						}
					}
				})
			}
			scan(f, nil, nil, false, 0)
			nDef, nPlain := 0, 0
			for _, p := range puts {
				if p.deferred {
					nDef++
				} else {
					nPlain++
				}
			}
			nGet[f]++
			cons := fmt.Sprintf("%s pooled object #%d", fn(f), nGet[f])
			bad := ""
			if nDef > 0 && nPlain > 0 {
				bad = fmt.Sprintf("the object is handed back by a deferred call (%s), which runs on every return, and also on a path of its own (%s)", puts[0].pos, puts[len(puts)-1].pos)
			} else if nDef > 1 {
				bad = "the object is handed back by more than one deferred call"
			}
			rep.Check(bad == "", "C14.A8", cons, r.P.InstrPos(in), fmt.Sprintf("handed back at most once (%d Put site(s))", len(puts)),
				"an object taken from a sync.Pool can be Put twice: "+bad+"; two later callers receive the same memory and their plain accesses race")
		})
	}
}

// c14SharedObjects (A9): an object that is not safe for concurrent use is not hung on the shared cache / map struct and
// used from its methods: a builtin map held in a field is not updated, and no method with a pointer receiver of a type
// from outside the module (a *rand.Rand, a *bytes.Buffer, a *list.List ...) is called on a value reached through a field
// of the cache or map struct - other than the types of sync and sync/atomic, whose purpose is exactly that.
func c14SharedObjects(r *Run, rep *core.Report, reach map[*ssa.Function]bool) {
	shared := map[string]bool{}
	for i := 0; i < 2; i++ {
		if r.M.CacheT[i] != nil {
			shared[r.M.CacheT[i].Obj().Name()] = true
		}
	}
	for _, mm := range r.M.Maps {
		shared[mm.Name] = true
		shared[mm.TableT] = true
		if mm.StateOwner != "" {
			shared[mm.StateOwner] = true
		}
	}
	// ... and the struct types of the module hung on them (a helper object in a field, by value or by pointer)
	for changed := true; changed; {
		changed = false
		for _, pk := range []*ssa.Package{r.P.Cache, r.P.Xsync} {
			sc := pk.Pkg.Scope()
			for _, nm := range sc.Names() {
				tn, ok := sc.Lookup(nm).(*types.TypeName)
				if !ok || !shared[tn.Name()] {
					continue
				}
				st, ok := tn.Type().Underlying().(*types.Struct)
				if !ok {
					continue
				}
				for i := 0; i < st.NumFields(); i++ {
					ft := st.Field(i).Type()
					if p, isP := ft.(*types.Pointer); isP {
						ft = p.Elem()
					}
					if n, isN := ft.(*types.Named); isN && n.Obj().Pkg() != nil && (n.Obj().Pkg() == r.P.Cache.Pkg || n.Obj().Pkg() == r.P.Xsync.Pkg) {
						if _, isSt := n.Underlying().(*types.Struct); isSt && !shared[n.Obj().Name()] && !isBucketOwner(r, n.Obj().Name()) {
							shared[n.Obj().Name()] = true
							changed = true
						}
					}
				}
			}
		}
	}
	var fromSharedField func(v ssa.Value, d int) (bool, string)
	fromSharedField = func(v ssa.Value, d int) (bool, string) {
		if v == nil || d > 6 {
			return false, ""
		}
		v = core.StripConv(v)
		switch x := v.(type) {
		case *ssa.FieldAddr:
			a := core.Addr(x)
			if shared[a.Owner] && a.Field != "" {
				return true, a.Key()
			}
			return fromSharedField(x.X, d+1)
		case *ssa.UnOp:
			return fromSharedField(x.X, d+1)
		case *ssa.Phi:
			for _, e := range x.Edges {
				if ok, k := fromSharedField(e, d+1); ok {
					return true, k
				}
			}
		}
		return false, ""
	}
	n := 0
	for _, f := range r.P.Funcs {
		if !reach[f] || f.Blocks == nil || (f.Pkg != r.P.Cache && f.Pkg != r.P.Xsync) {
			continue
		}
		n++
		seen := map[string]bool{}
		core.Instrs(f, func(in ssa.Instruction) {
			switch x := in.(type) {
			case *ssa.MapUpdate:
				if ok, k := fromSharedField(x.Map, 0); ok && !seen["map "+k] && !underOwnMutex(f, in) {
					seen["map "+k] = true
					rep.Fail("C14.A9", fn(f)+" updates the map in "+k, r.P.InstrPos(in), "a builtin map held in a field of the shared struct is updated by a method: concurrent calls race on it (builtin maps are not safe for concurrent use)")
				}
			case ssa.CallInstruction:
				cal := core.Callee(x)
				if cal == nil || cal.Blocks != nil || cal.Signature.Recv() == nil || len(x.Common().Args) == 0 {
					return
				}
				pt, isPtr := cal.Signature.Recv().Type().(*types.Pointer)
				if !isPtr {
					return
				}
				nt, isN := pt.Elem().(*types.Named)
				if !isN || nt.Obj().Pkg() == nil {
					return
				}
				switch nt.Obj().Pkg().Path() {
				case "sync", "sync/atomic":
					return
				}
				if ok, k := fromSharedField(x.Common().Args[0], 0); ok {
					if underOwnMutex(f, in) {
						return // serialised by a mutex of the module's own: every call made between its Lock and Unlock
					}
					key := nt.Obj().Pkg().Path() + "." + nt.Obj().Name() + " in " + k
					if !seen[key] {
						seen[key] = true
						rep.Fail("C14.A9", fn(f)+" calls a method of the "+nt.Obj().Pkg().Path()+"."+nt.Obj().Name()+" in "+k, r.P.InstrPos(in),
							"a method with a pointer receiver of "+nt.Obj().Pkg().Path()+"."+nt.Obj().Name()+" is called on an object reached through a field of the shared struct: unless that type is documented safe for concurrent use (the types of sync and sync/atomic are; a *rand.Rand, a *bytes.Buffer are not) concurrent calls race inside it")
					}
				}
			}
		})
	}
	rep.MinCount("C14.A9", "functions scanned for shared non-synchronised objects", n, 60)
}

// underOwnMutex: the instruction is dominated by a Lock of a sync.Mutex / sync.RWMutex (write lock) in the same function
// and no Unlock of a mutex lies between on the dominator path (a coarse but sufficient test for 'the helper object has
// a mutex of its own and is used under it'; deferred unlocks do not count as releases before the instruction).
func underOwnMutex(f *ssa.Function, at ssa.Instruction) bool {
	isMu := func(c ssa.CallInstruction, names ...string) bool {
		cal := core.Callee(c)
		if cal == nil || cal.Signature.Recv() == nil {
			return false
		}
		pt, ok := cal.Signature.Recv().Type().(*types.Pointer)
		if !ok {
			return false
		}
		n, ok := pt.Elem().(*types.Named)
		if !ok || n.Obj().Pkg() == nil || n.Obj().Pkg().Path() != "sync" || (n.Obj().Name() != "Mutex" && n.Obj().Name() != "RWMutex") {
			return false
		}
		for _, nm := range names {
			if cal.Name() == nm {
				return true
			}
		}
		return false
	}
	var lock ssa.Instruction
	core.Instrs(f, func(in ssa.Instruction) {
		c, ok := in.(*ssa.Call)
		if ok && isMu(c, "Lock") && core.Dominates(in, at) {
			lock = in
		}
	})
	if lock == nil {
		return false
	}
	released := false
	core.Instrs(f, func(in ssa.Instruction) {
		c, ok := in.(*ssa.Call)
		if ok && isMu(c, "Unlock") && core.Dominates(lock, in) && core.Dominates(in, at) {
			released = true
		}
	})
	return !released
}

// holdsAtomicField: the struct type has a sync/atomic typed field, directly or in a struct nested by value (a plain
// record nested in the cache struct - an id, a name, a creation time - may be copied freely).
func holdsAtomicField(n *types.Named, depth int) bool {
	st, _ := n.Underlying().(*types.Struct)
	if st == nil || depth > 3 {
		return false
	}
	for j := 0; j < st.NumFields(); j++ {
		ft := st.Field(j).Type()
		if at, ok := ft.(*types.Array); ok {
			ft = at.Elem()
		}
		if fn, ok := ft.(*types.Named); ok && fn.Obj().Pkg() != nil {
			if fn.Obj().Pkg().Path() == "sync/atomic" {
				return true
			}
			if _, isStruct := fn.Underlying().(*types.Struct); isStruct && holdsAtomicField(fn, depth+1) {
				return true
			}
		}
	}
	return false
}

func c14Settings(r *Run, rep *core.Report, reach map[*ssa.Function]bool) {
	for i := 0; i < 2; i++ {
		ct := r.M.CacheT[i]
		if ct == nil {
			continue
		}
		// the settings live in sync/atomic typed fields of the cache struct or of a struct nested in it by value
		owners := map[string]*types.Named{ct.Obj().Name(): ct}
		var avFields []string            // fields of type atomic.Value (dynamic type discipline applies)
		atomicField := map[string]bool{} // "Owner.field" of every sync/atomic typed field
		var walk func(n *types.Named, depth int)
		walk = func(n *types.Named, depth int) {
			st, _ := n.Underlying().(*types.Struct)
			if st == nil || depth > 3 {
				return
			}
			for j := 0; j < st.NumFields(); j++ {
				ft := st.Field(j).Type()
				if fn, ok := ft.(*types.Named); ok && fn.Obj().Pkg() != nil {
					switch {
					case fn.Obj().Pkg().Path() == "sync/atomic":
						atomicField[n.Obj().Name()+"."+st.Field(j).Name()] = true
						if fn.Obj().Name() == "Value" {
							avFields = append(avFields, st.Field(j).Name())
						}
					case fn.Obj().Pkg().Path() == core.CachePath:
						if _, isStruct := fn.Underlying().(*types.Struct); isStruct {
							o := fn
							if o.Origin() != nil {
								o = o.Origin()
							}
							owners[o.Obj().Name()] = o
							walk(o, depth+1)
						}
					}
				}
				if isFuncTyped(ft) || typeName(ft) == "time.Duration" || typeName(ft) == "Duration" {
					// a plain field is fine as long as nothing writes it after construction (that is A3's verdict on every
					// store to a field of the cache object); noted here so that the evidence shows it was seen
					rep.Note("C14.A5: " + n.Obj().Name() + "." + st.Field(j).Name() + " is a plain (non-atomic) function / duration field: immutable after construction or reported by A3")
				}
			}
		}
		walk(ct, 0)
		rep.MinCount("C14.A5", "sync/atomic settings fields of "+ct.Obj().Name(), len(atomicField), 2)
		stored := map[string]map[string]bool{}
		loaded := map[string]map[string]bool{}
		for _, f := range r.P.Funcs {
			if f.Pkg != r.P.Cache {
				continue
			}
			core.Instrs(f, func(in ssa.Instruction) {
				// whole-struct copies
				if u, ok := in.(*ssa.UnOp); ok && u.Op.String() == "*" {
					if n, ok := u.Type().(*types.Named); ok && n.Obj().Pkg() == ct.Obj().Pkg() && owners[n.Obj().Name()] != nil && holdsAtomicField(n, 0) {
						rep.Fail("C14.A5", fn(f)+" copies "+n.Obj().Name(), r.P.InstrPos(in), "the object holding the atomic settings fields is copied by value")
					}
				}
				fa, ok := in.(*ssa.FieldAddr)
				if !ok {
					return
				}
				a := core.Addr(fa)
				if owners[a.Owner] == nil || !atomicField[a.Owner+"."+a.Field] {
					return
				}
				// a settings struct shared by both cache types: an access rooted in the other twin's object is not ours
				if a.Root != nil {
					if rn, ok := elemOf(a.Root.Type()).(*types.Named); ok {
						if rn.Origin() != nil {
							rn = rn.Origin()
						}
						if other := r.M.CacheT[1-i]; other != nil && rn == other && other != ct {
							return
						}
					}
				}
				for _, ref := range *fa.Referrers() {
					c, ok := ref.(ssa.CallInstruction)
					id := ""
					if ok {
						id = core.CalleeID(c)
					}
					cons := fmt.Sprintf("%s uses %s.%s", fn(f), a.Owner, a.Field)
					switch id {
					case "(*sync/atomic.Value).Store":
						arg := c.Common().Args[1]
						tn := "?"
						if mi, ok := arg.(*ssa.MakeInterface); ok {
							tn = typeName(mi.X.Type())
						} else if ct, ok := arg.(*ssa.ChangeType); ok && isTypeParam(ct.X.Type()) {
							// generic settings struct: the stored value has the struct's type parameter as its type - one
							// dynamic type per instantiation, and each cache type embeds its own
							tn = typeName(ct.X.Type())
						} else {
							rep.Fail("C14.A5", cons+" Store of interface value", r.P.InstrPos(ref), "value stored into atomic.Value has no single static type (a second dynamic type panics)")
						}
						if stored[a.Field] == nil {
							stored[a.Field] = map[string]bool{}
						}
						stored[a.Field][tn] = true
						rep.Pass("C14.A5", cons+" via Store", r.P.InstrPos(ref), "atomic.Value.Store of "+tn)
					case "(*sync/atomic.Value).Load":
						if v, ok := ref.(ssa.Value); ok {
							for _, r2 := range *v.Referrers() {
								if ta, ok := r2.(*ssa.TypeAssert); ok {
									if loaded[a.Field] == nil {
										loaded[a.Field] = map[string]bool{}
									}
									loaded[a.Field][typeName(ta.AssertedType)] = true
								}
							}
						}
						rep.Pass("C14.A5", cons+" via Load", r.P.InstrPos(ref), "atomic.Value.Load")
					case "(*sync/atomic.Value).Swap", "(*sync/atomic.Value).CompareAndSwap":
						rep.Pass("C14.A5", cons+" via "+id, r.P.InstrPos(ref), "atomic.Value operation")
					default:
						if strings.HasPrefix(id, "(*sync/atomic.") && !contains(avFields, a.Field) {
							// typed atomics (atomic.Int64, atomic.Pointer[T], ...): every method is an atomic operation of one static type
							rep.Pass("C14.A5", cons+" via "+id[strings.LastIndex(id, ".")+1:], r.P.InstrPos(ref), "typed sync/atomic operation "+id)
							break
						}
						rep.Fail("C14.A5", cons+" otherwise", r.P.InstrPos(ref), fmt.Sprintf("settings field touched other than through its sync/atomic methods (%T)", ref))
					}
				}
			})
		}
		for _, fld := range avFields {
			var ts []string
			for t := range stored[fld] {
				ts = append(ts, t)
			}
			for t := range loaded[fld] {
				if !stored[fld][t] {
					ts = append(ts, t+"(asserted)")
				}
			}
			cons := ct.Obj().Name() + "." + fld + " single dynamic type"
			rep.Check(len(ts) == 1, "C14.A5", cons, "-", "every Store and the Load assertion use "+strings.Join(ts, ","),
				"atomic.Value sees more than one concrete type ("+strings.Join(ts, ", ")+"): Store of an inconsistent type panics / Load assertion fails")
		}
	}
}

// atomicOnlyCallee: the call hands the address to an in-module function whose every use of that parameter is as the
// address operand of an atomic load.
func atomicOnlyCallee(c ssa.CallInstruction, addr ssa.Value) bool {
	cal := core.Callee(c)
	if cal == nil || cal.Blocks == nil {
		return false
	}
	for i, a := range c.Common().Args {
		if a != addr {
			continue
		}
		if i >= len(cal.Params) || cal.Params[i].Referrers() == nil {
			return false
		}
		n := 0
		for _, ref := range *cal.Params[i].Referrers() {
			switch y := ref.(type) {
			case *ssa.DebugRef:
			case ssa.CallInstruction:
				// loads only: a helper that writes the word would hide a write from the protocol rules
				if op, a2, ok := core.AtomicOp(y); !ok || op != "Load" || a2 != ssa.Value(cal.Params[i]) {
					return false
				}
				n++
			default:
				return false
			}
		}
		if n == 0 {
			return false
		}
	}
	return true
}

func isTypeParam(t types.Type) bool {
	_, ok := t.(*types.TypeParam)
	return ok
}

// ---- A6: janitor shared variables ----

func c14Janitor(r *Run, rep *core.Report) {
	n := 0
	// every go statement of the package (the constructors', or those of the helpers they start the janitor through)
	for _, ctor := range r.P.Funcs {
		if ctor.Pkg != r.P.Cache || ctor.Blocks == nil {
			continue
		}
		core.Instrs(ctor, func(in ssa.Instruction) {
			g, ok := in.(*ssa.Go)
			if !ok {
				return
			}
			n++
			mc, ok := g.Common().Value.(*ssa.MakeClosure)
			if !ok {
				// goroutine started as a function call: arguments are passed by value, nothing is shared by reference
				// (unless the address of a local variable is handed over)
				byRef := false
				for _, a := range g.Common().Args {
					if cell, isCell := core.StripConv(a).(*ssa.Alloc); isCell && !cell.Heap {
						byRef = true
					}
				}
				if byRef {
					rep.Undecided("C14.A6", fn(ctor)+" goroutine arguments", r.P.InstrPos(in), "the address of a local variable is handed to the goroutine; accesses through it are not tracked")
					return
				}
				rep.Pass("C14.A6", fn(ctor)+" goroutine arguments", r.P.InstrPos(in), "the janitor is started with arguments passed by value; no variable is shared with the constructor")
				return
			}
			cl := mc.Fn.(*ssa.Function)
			for bi, b := range mc.Bindings {
				al, ok := b.(*ssa.Alloc)
				if !ok {
					continue
				}
				cons := fmt.Sprintf("%s captured %s", fn(ctor), cl.FreeVars[bi].Name())
				okv := true
				for _, ref := range *al.Referrers() {
					if st, ok := ref.(*ssa.Store); ok && st.Addr == ssa.Value(al) {
						if reaches(in, st, nil) {
							okv = false
							rep.Fail("C14.A6", cons, r.P.InstrPos(st), "variable shared with the janitor goroutine is written by the constructor after the go statement (unsynchronised with the goroutine's reads)")
						}
					}
					// field stores through the captured cell (e.g. cfg.X = ...)
					if fa, ok := ref.(*ssa.FieldAddr); ok {
						for _, r2 := range *fa.Referrers() {
							if st, ok := r2.(*ssa.Store); ok && st.Addr == ssa.Value(fa) && reaches(in, st, nil) {
								okv = false
								rep.Fail("C14.A6", cons, r.P.InstrPos(st), "field of a variable shared with the janitor goroutine is written after the go statement")
							}
						}
					}
				}
				// writes inside the goroutine
				core.Instrs(cl, func(in2 ssa.Instruction) {
					if st, ok := in2.(*ssa.Store); ok {
						if a := core.Addr(st.Addr); a.Root == ssa.Value(cl.FreeVars[bi]) {
							okv = false
							rep.Fail("C14.A6", cons, r.P.InstrPos(st), "janitor goroutine writes a variable it shares with the constructor")
						}
					}
				})
				if okv {
					rep.Pass("C14.A6", cons, r.P.InstrPos(in), "not written after the go statement by either side")
				}
			}
		})
	}
	rep.MinCount("C14.A6", "janitor go statements", n, 1)
}

// ---- A7: 64-bit atomic operand alignment under the 386 layout ----

func c14Align(r *Run, rep *core.Report, reach map[*ssa.Function]bool) {
	if r.P.GOARCH != "386" {
		rep.Note("C14.A7 (64-bit atomic alignment) is evaluated on the GOARCH=386 load only: padding array lengths depend on the target's sizes")
		return
	}
	sizes := types.SizesFor("gc", "386")
	n := 0
	seen := map[string]bool{}
	for _, f := range r.P.Funcs {
		if !reach[f] {
			continue
		}
		core.Instrs(f, func(in ssa.Instruction) {
			c, ok := in.(ssa.CallInstruction)
			if !ok {
				return
			}
			id := core.CalleeID(c)
			if !strings.HasPrefix(id, "sync/atomic.") || !(strings.HasSuffix(id, "Int64") || strings.HasSuffix(id, "Uint64")) {
				return // methods of atomic.Int64 / Uint64 need no check: those types are 8-byte aligned by the compiler
			}
			addr := c.Common().Args[0]
			off, ok, why := offset386(sizes, addr)
			a := core.Addr(addr)
			key := a.Key()
			if key == "" {
				return // pointer parameter (lock helpers): operands checked at the callers' FieldAddr
			}
			if seen[key] {
				return
			}
			seen[key] = true
			n++
			cons := "64-bit atomic operand " + key
			if !ok {
				rep.Undecided("C14.A7", cons, r.P.InstrPos(in), "cannot compute the 386 offset: "+why)
				return
			}
			rep.Check(off%8 == 0, "C14.A7", cons, r.P.InstrPos(in), fmt.Sprintf("offset %d within its allocation unit under GOARCH=386 is 8-byte aligned", off),
				fmt.Sprintf("offset %d within its allocation unit under GOARCH=386 is not 8-byte aligned: 64-bit atomic operations fault on 32-bit platforms", off))
		})
	}
	// lock helper operands: the addresses passed to the spin-lock helpers
	for _, f := range r.P.Funcs {
		if !reach[f] {
			continue
		}
		core.Instrs(f, func(in ssa.Instruction) {
			c, ok := in.(ssa.CallInstruction)
			if !ok {
				return
			}
			cal := core.Callee(c)
			if cal == nil || !(r.M.Acquire[cal] || r.M.Release[cal]) {
				return
			}
			addr := c.Common().Args[0]
			a := core.Addr(addr)
			if a.Key() == "" || seen["lock:"+a.Key()] {
				return
			}
			seen["lock:"+a.Key()] = true
			n++
			off, ok, why := offset386(sizes, addr)
			cons := "spin-lock word " + a.Key()
			if !ok {
				rep.Undecided("C14.A7", cons, r.P.InstrPos(in), "cannot compute the 386 offset: "+why)
				return
			}
			rep.Check(off%8 == 0, "C14.A7", cons, r.P.InstrPos(in), fmt.Sprintf("offset %d under GOARCH=386 is 8-byte aligned", off), fmt.Sprintf("offset %d under GOARCH=386 is not 8-byte aligned", off))
		})
	}
	rep.MinCount("C14.A7", "distinct 64-bit atomic operand paths", n, 2)
}

// offset386 accumulates the byte offset of an address within its allocation unit (struct allocated by
// new / slice element) following FieldAddr steps; IndexAddr steps require an element size that is a multiple of 8.
func offset386(sizes types.Sizes, v ssa.Value) (int64, bool, string) {
	var off int64
	for {
		v = core.StripConv(v)
		switch x := v.(type) {
		case *ssa.FieldAddr:
			st, ok := elemOf(x.X.Type()).Underlying().(*types.Struct)
			if !ok {
				return 0, false, "not a struct"
			}
			var fields []*types.Var
			for i := 0; i < st.NumFields(); i++ {
				fields = append(fields, st.Field(i))
			}
			offs := sizes.Offsetsof(fields)
			off += offs[x.Field]
			v = x.X
			continue
		case *ssa.IndexAddr:
			var et types.Type
			switch t := elemOf(x.X.Type()).Underlying().(type) {
			case *types.Slice:
				et = t.Elem()
				if sizes.Sizeof(et)%8 != 0 {
					return 0, false, fmt.Sprintf("slice element size %d is not a multiple of 8", sizes.Sizeof(et))
				}
				return off, true, "" // slice element: allocation-unit aligned
			case *types.Array:
				et = t.Elem()
				if sizes.Sizeof(et)%8 != 0 {
					return 0, false, "array element size not a multiple of 8"
				}
				v = x.X
				continue
			default:
				switch t2 := x.X.Type().Underlying().(type) {
				case *types.Slice:
					if sizes.Sizeof(t2.Elem())%8 != 0 {
						return 0, false, fmt.Sprintf("slice element size %d is not a multiple of 8", sizes.Sizeof(t2.Elem()))
					}
					return off, true, ""
				}
				return 0, false, "unmodelled index base"
			}
		}
		return off, true, ""
	}
}

// ownerOnlyWord: a statistics word of the map header (not the table pointer, not the resize flag) that, among the
// functions reachable from the public API, is accessed only inside the resize function (and the helpers it
// delegates to): resize owners run one at a time, ordered by the CAS / store pair on the resize flag, so plain
// accesses there race with nothing the public API can run.
func ownerOnlyWord(r *Run, a core.AddrPath, f *ssa.Function, reach map[*ssa.Function]bool) bool {
	for _, mm := range r.M.Maps {
		if a.Owner != mm.Name && a.Owner != mm.StateOwner {
			continue
		}
		if a.Field == mm.TableF || a.Field == mm.FlagF || a.Field == "" {
			return false
		}
		inOwner := func(g *ssa.Function) bool {
			for g.Parent() != nil {
				g = g.Parent()
			}
			for _, m2 := range r.M.Maps {
				if g == m2.Resize {
					return true
				}
				for _, h := range m2.ResizeHelpers {
					if g == h {
						return true
					}
				}
			}
			return false
		}
		if !inOwner(f) {
			return false
		}
		only := true
		for _, g := range r.P.Funcs {
			if !reach[g] || inOwner(g) {
				continue
			}
			core.Instrs(g, func(in ssa.Instruction) {
				var addr ssa.Value
				switch x := in.(type) {
				case *ssa.UnOp:
					if x.Op.String() == "*" {
						addr = x.X
					}
				case *ssa.Store:
					addr = x.Addr
				case ssa.CallInstruction:
					if _, ad, ok := core.AtomicOp(x); ok {
						addr = ad
					}
				}
				if addr != nil {
					if b := core.Addr(addr); b.Owner == a.Owner && b.Field == a.Field {
						only = false
					}
				}
			})
		}
		return only
	}
	return false
}

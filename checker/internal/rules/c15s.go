package rules

import (
	"fmt"
	"go/types"
	"sort"

	"cachelint/internal/core"
	"cachelint/internal/sym"

	"golang.org/x/tools/go/ssa"
)

// DumpCtor is a development aid: the evaluated paths of a cache constructor and of the goroutines it starts.
func DumpCtor(r *Run, twin int) {
	ctor := r.M.CacheCtor[twin]
	if ctor == nil {
		fmt.Println("no ctor")
		return
	}
	it := newInterp(r, false)
	it.Opaque = c15Opaque(r, true)
	paths := it.Run(ctor)
	for i, p := range paths {
		fmt.Printf("--- ctor path %d\n  pc: %s\n", i, sym.DescribePC(p.PC))
		for _, pr := range p.Problems {
			fmt.Println("  PROBLEM:", pr)
		}
		for _, ev := range p.Events {
			fmt.Printf("  ev %s %s key=%v args=%v fn=%v bind=%v\n", ev.Kind, ev.Name, ev.Key, ev.Args, ev.Fn, ev.Bind)
			if ev.Kind == "go" && ev.Fn != nil {
				it2 := newInterp(r, false)
				it2.Opaque = c15Opaque(r, false)
				it2.Goroutine = true
				it2.Entered = map[*ssa.Function]bool{}
				gp := it2.RunWith(ev.Fn, ev.Args, ev.Bind, ev.Mem)
				dump := func(tag string, ps []sym.Path) {
					for j, q := range ps {
						fmt.Printf("    %s %d pc: %s\n", tag, j, sym.DescribePC(q.PC))
						for _, pr := range q.Problems {
							fmt.Println("      PROBLEM:", pr)
						}
						for _, e2 := range q.Events {
							fmt.Printf("      ev %s %s key=%v args=%v\n", e2.Kind, e2.Name, e2.Key, e2.Args)
						}
					}
				}
				dump("done", gp)
				dump("cut", it2.Cut)
			}
		}
	}
}

// c15Opaque: functions kept opaque while constructors and janitor goroutines are evaluated: the default
// configuration (so that the interval stays symbolic on the path without a caller's Config) and, inside the
// goroutine, the public DeleteExpired of both cache types.
func c15Opaque(r *Run, ctorSide bool) map[*ssa.Function]string {
	out := map[*ssa.Function]string{}
	// the configuration type: what the constructors take (their variadic parameter's element type)
	cfgTypes := map[string]bool{}
	for i := 0; i < 2; i++ {
		if ctor := r.M.CacheCtor[i]; ctor != nil && len(ctor.Params) > 0 {
			if sl, ok := ctor.Params[len(ctor.Params)-1].Type().Underlying().(*types.Slice); ok {
				if n, ok := types.Unalias(sl.Elem()).(*types.Named); ok {
					cfgTypes[n.Obj().Name()] = true
				}
			}
		}
	}
	for _, f := range r.P.Funcs {
		if f.Pkg != r.P.Cache || f.Parent() != nil || f.Signature.Recv() != nil {
			continue
		}
		if f.Signature.Params().Len() == 0 && f.Signature.Results().Len() == 1 {
			if n, ok := types.Unalias(f.Signature.Results().At(0).Type()).(*types.Named); ok && cfgTypes[n.Obj().Name()] {
				out[f] = "defaultConfig"
			}
		}
	}
	if !ctorSide {
		for i := 0; i < 2; i++ {
			if f := r.M.CacheM[i]["DeleteExpired"]; f != nil {
				out[f] = "DeleteExpired"
			}
		}
	}
	return out
}

// ---- janitor rules on evaluated paths ----

type c15Launch struct {
	goInstrs map[ssa.Instruction]bool // go statements reached from the constructor
	entered  map[*ssa.Function]bool   // functions run inside the janitor goroutine
	goFns    map[*ssa.Function]bool
	nGo      int
	stopKeys map[string]bool // the channel terms the janitor waits on for its stop signal
	// the finalizer, evaluated on the paths that register it: it closes the channel this path's janitor waits on
	finChecked bool
	finOK      bool
	finWhy     string
	finEntered map[*ssa.Function]bool
}

// c15StopKeys: the channels a goroutine's paths receive from, other than its ticker.
func c15StopKeys(all []sym.Path) map[string]bool {
	out := map[string]bool{}
	for _, q := range all {
		for _, e := range q.Events {
			if e.Kind == "recv" && e.Key != nil && !e.Key.Contains(func(x *sym.Term) bool { return x.Op == "ticker" }) {
				out[e.Key.String()] = true
			}
		}
	}
	return out
}

// c15Finalizer evaluates the finalizer registered on path p (runtime.SetFinalizer(wrapper, f)) on the wrapper object
// of that path and returns the channels it closes.
func c15Finalizer(r *Run, p sym.Path, out *c15Launch) (closed map[string]bool, found bool) {
	closed = map[string]bool{}
	for _, ev := range p.Events {
		if ev.Kind != "extcall" || ev.Name != "runtime.SetFinalizer" || len(ev.Args) != 2 {
			continue
		}
		fin := ev.Args[1]
		ff, _ := fin.Fn.(*ssa.Function)
		if fin.Op != "closure" || ff == nil || ff.Blocks == nil {
			continue
		}
		found = true
		it3 := newInterp(r, false)
		it3.Opaque = c15Opaque(r, false)
		it3.Goroutine = true
		it3.Entered = out.finEntered
		it3.MaxPaths = 200
		for _, q := range it3.RunWith(ff, []*sym.Term{ev.Args[0]}, fin.Bind, ev.Mem) {
			for _, e := range q.Events {
				if e.Kind == "close" && len(e.Args) == 1 && e.Args[0] != nil {
					closed[e.Args[0].String()] = true
				}
			}
		}
	}
	return closed, found
}

func pcIndex(pc []sym.Atom) map[string]bool {
	m := map[string]bool{}
	for _, a := range pc {
		m[a.T.String()] = a.V
	}
	return m
}

func termUndef(t *sym.Term) bool {
	return t == nil || t.Contains(func(x *sym.Term) bool { return x.Op == "undef" })
}

// c15Sym decides the janitor's launch condition and body on the evaluated paths of the constructor: which paths
// start a goroutine, under which condition on the interval the goroutine's ticker is built from, and what the
// goroutine does with its ticker and its stop channel. It is independent of where the code lives (function literal,
// helper function, method of a janitor struct, another file).
func c15Sym(r *Run, rep *core.Report, twin int, ctor *ssa.Function, inner *types.Named) *c15Launch {
	out := &c15Launch{goInstrs: map[ssa.Instruction]bool{}, entered: map[*ssa.Function]bool{}, goFns: map[*ssa.Function]bool{}, stopKeys: map[string]bool{}, finEntered: map[*ssa.Function]bool{}, finOK: true}
	it := newInterp(r, false)
	it.Opaque = c15Opaque(r, true)
	it.MaxPaths = 2000
	paths := it.Run(ctor)
	pos := r.P.Pos(ctor.Pos())
	if it.Overflow || len(paths) == 0 {
		rep.Undecided("C15.J1", fn(ctor)+" janitor guard", pos, "constructor could not be evaluated (no paths / path bound exceeded)")
		return out
	}
	type goInfo struct {
		ev     sym.Event
		tick   *sym.Term
		bodyOK bool
	}
	intervalFields := map[string]bool{}
	var noGo []sym.Path
	guardOK, guardWhy, guardPos := true, "", pos
	nGoPaths := 0
	bodyDone := map[ssa.Instruction]bool{}
	for _, p := range paths {
		if p.Panic {
			continue
		}
		var goes []sym.Event
		for _, ev := range p.Events {
			if ev.Kind == "go" {
				goes = append(goes, ev)
			}
		}
		if len(goes) == 0 {
			noGo = append(noGo, p)
			continue
		}
		nGoPaths++
		if len(goes) > 1 {
			rep.Fail("C15.J5", fn(ctor)+" one janitor", goes[1].Pos, "a constructor path starts more than one goroutine")
		}
		ev := goes[0]
		out.goInstrs[ev.Instr] = true
		if ev.Fn == nil || ev.Fn.Blocks == nil {
			rep.Undecided("C15.J1", fn(ctor)+" go", ev.Pos, "go statement starts neither a function literal nor a function of this package")
			continue
		}
		out.goFns[ev.Fn] = true
		// the goroutine body under this path's arguments and memory
		it2 := newInterp(r, false)
		it2.Opaque = c15Opaque(r, false)
		it2.Goroutine = true
		it2.Entered = out.entered
		it2.MaxPaths = 400
		done := it2.RunWith(ev.Fn, ev.Args, ev.Bind, ev.Mem)
		all := append(append([]sym.Path{}, done...), it2.Cut...)
		var tick *sym.Term
		for _, q := range all {
			for _, e2 := range q.Events {
				if e2.Kind == "ticker" && tick == nil && len(e2.Args) > 0 {
					tick = e2.Args[0]
				}
			}
		}
		// the finalizer registered on this path closes what this path's janitor waits on
		if closed, found := c15Finalizer(r, p, out); found {
			out.finChecked = true
			for k := range c15StopKeys(all) {
				if !closed[k] {
					out.finOK = false
					out.finWhy = fmt.Sprintf("the finalizer does not close the channel the janitor goroutine waits on for its stop signal (%s; it closes %v): the goroutine is never released", k, keysOf(closed))
				}
			}
		}
		first := !bodyDone[ev.Instr]
		bodyDone[ev.Instr] = true
		if first {
			out.nGo++
			c15Body(r, rep, twin, ev, done, it2.Cut, it2.Overflow, out)
		}
		if tick == nil {
			continue // reported by c15Body
		}
		if tick.Op == "field" {
			intervalFields[tick.K] = true
		}
		idx := pcIndex(p.PC[:min(ev.PCTo, len(p.PC))])
		g := sym.Mk("cmp", ">", tick, sym.Int(0))
		if v, ok := idx[g.String()]; !(ok && v) {
			if b, isB := g.BoolVal(); !(isB && b) || true {
				guardOK, guardPos = false, ev.Pos
				guardWhy = "the janitor goroutine is started on a path that has not established that the interval its ticker is built from (" + tick.String() + ") is strictly positive: with an interval <= 0 it would run (or panic in the ticker). path: " + sym.DescribePC(p.PC)
			}
		}
	}
	// paths that start nothing: the interval is known not to be positive
	bypassOK, bypassWhy := true, ""
	for _, p := range noGo {
		nonPos, positive := false, false
		for _, a := range p.PC {
			if a.T.Op != "cmp" || a.T.K != ">" || len(a.T.Args) != 2 {
				continue
			}
			x, c := a.T.Args[0], a.T.Args[1]
			if x.Op != "field" || !(intervalFields[x.K] || len(intervalFields) == 0) {
				continue
			}
			if k, ok := c.IntVal(); ok {
				if !a.V && k <= 0 {
					nonPos = true
				}
				if a.V && k >= 0 {
					positive = true
				}
			}
		}
		if positive && !nonPos {
			bypassOK = false
			bypassWhy = "with a strictly positive interval the constructor can return without starting the janitor: expired entries would not be removed on their own although cleanup was configured. path: " + sym.DescribePC(p.PC)
		}
		if !positive && !nonPos && nGoPaths > 0 {
			guardOK = false
			guardWhy = "a constructor path starts no janitor without having tested the configured interval: whether cleanup runs does not follow from the interval. path: " + sym.DescribePC(p.PC)
		}
	}
	if nGoPaths == 0 {
		rep.Fail("C15.J1", fn(ctor)+" janitor guard", pos, "no path of the constructor starts a janitor goroutine: expired entries are never removed on their own")
		return out
	}
	rep.Check(guardOK, "C15.J1", fn(ctor)+" janitor guard", guardPos, "goroutine started exactly on the paths on which the interval its ticker uses is strictly positive", guardWhy)
	rep.Check(bypassOK, "C15.J1", fn(ctor)+" janitor started whenever configured", pos, "every path with a positive interval starts the janitor", bypassWhy)
	return out
}

// c15Body judges the evaluated paths of one janitor goroutine (completed ones and those cut at the loop bound).
func c15Body(r *Run, rep *core.Report, twin int, gev sym.Event, done, cut []sym.Path, overflow bool, out *c15Launch) {
	gf := gev.Fn
	name := fn(gf)
	pos := gev.Pos
	if overflow || len(done)+len(cut) == 0 {
		rep.Undecided("C15.J1", name+" ticker", pos, "janitor goroutine could not be evaluated")
		return
	}
	isTick := func(t *sym.Term) bool {
		return t != nil && t.Contains(func(x *sym.Term) bool { return x.Op == "ticker" })
	}
	var tick *sym.Term
	nTickDE, nStopEnd := 0, 0
	okTick, whyTick := true, ""
	okStop, whyStop := true, ""
	okOther, whyOther := true, ""
	hasTickRecv, hasStopRecv := false, false
	var deRecv *sym.Term
	judge := func(p sym.Path, completed bool) {
		var evs []sym.Event
		for _, e := range p.Events {
			switch e.Kind {
			case "ticker":
				if tick == nil && len(e.Args) > 0 {
					tick = e.Args[0]
				}
			case "opqcall":
				if e.Name == "DeleteExpired" {
					evs = append(evs, e)
				}
			case "recv", "send", "icall", "callback", "usercall", "mapop", "close", "go", "selectdefault", "settingstore", "itemsstore":
				// (calls of diagnostic hooks the library keeps and of functions outside the module - dyncall, diag, extcall -
				// are not the janitor's business: they remove nothing from the map and start nothing)
				evs = append(evs, e)
			}
		}
		for i, e := range evs {
			last := i == len(evs)-1
			switch {
			case e.Kind == "recv" && isTick(e.Key):
				hasTickRecv = true
				if last {
					if completed {
						okTick, whyTick = false, "the goroutine ends after a tick without cleaning up"
					}
					continue
				}
				nx := evs[i+1]
				isDE := nx.Kind == "opqcall" && nx.Name == "DeleteExpired" || nx.Kind == "icall" && nx.Name == "DeleteExpired"
				if !isDE {
					okTick, whyTick = false, "the ticker case does not call DeleteExpired: expired entries are never removed without a user call (next action: "+nx.Kind+" "+nx.Name+" at "+nx.Pos+")"
				} else {
					nTickDE++
					if len(nx.Args) > 0 {
						deRecv = nx.Args[0]
					}
				}
			case e.Kind == "opqcall" && e.Name == "DeleteExpired", e.Kind == "icall" && e.Name == "DeleteExpired":
				if i == 0 || !(evs[i-1].Kind == "recv" && isTick(evs[i-1].Key)) {
					okTick, whyTick = false, "DeleteExpired is called by the janitor without a tick having been received: cleanup does not follow the configured interval"
				}
				if last && completed {
					okTick, whyTick = false, "the janitor goroutine ends after its first cleanup pass"
				}
			case e.Kind == "recv":
				// any other receive is the stop signal
				hasStopRecv = true
				if e.Key != nil {
					out.stopKeys[e.Key.String()] = true
				}
				if !last {
					okStop, whyStop = false, "the stop case does not leave the goroutine (after receiving the stop signal it goes on with "+evs[i+1].Kind+" at "+evs[i+1].Pos+"): the janitor outlives its cache"
				} else if !completed {
					okStop, whyStop = false, "the stop case does not leave the goroutine (it loops back to waiting): the janitor outlives its cache"
				} else {
					nStopEnd++
				}
			case e.Kind == "selectdefault":
				okOther, whyOther = false, "the janitor polls (select with default) instead of waiting for its ticker at "+e.Pos
			default:
				okOther, whyOther = false, "the janitor goroutine does something besides waiting for its ticker / stop signal and calling DeleteExpired: "+e.Kind+" "+e.Name+" at "+e.Pos
			}
		}
		if completed && len(evs) > 0 {
			if l := evs[len(evs)-1]; !(l.Kind == "recv" && !isTick(l.Key)) && okTick {
				okStop, whyStop = false, "the janitor goroutine can end without having received the stop signal"
			}
		}
	}
	for _, p := range done {
		if p.Panic {
			okOther, whyOther = false, "the janitor goroutine can panic at "+p.PanicPos
			continue
		}
		judge(p, true)
	}
	for _, p := range cut {
		judge(p, false)
	}
	if tick == nil {
		rep.Fail("C15.J1", name+" ticker", r.P.Pos(gf.Pos()), "the janitor goroutine builds no ticker: expired entries are not removed on its own")
		return
	}
	rep.Check(!termUndef(tick), "C15.J1", name+" ticker", pos, "ticker built from "+tick.String(), "the value the janitor's ticker is built from is not resolvable to the constructor's configuration")
	rep.Check(hasTickRecv, "C15.J1", name+" ticker case", pos, "the goroutine receives from its ticker", "the janitor goroutine never receives from its ticker")
	if hasTickRecv {
		rep.Check(okTick && nTickDE > 0, "C15.J1", name+" ticker case cleans up", pos, "each tick calls DeleteExpired on the cache and goes back to waiting", whyTick)
	}
	rep.Check(hasStopRecv, "C15.J4", name+" stop case", pos, "the goroutine waits for a stop signal", "the janitor goroutine has no receive on a stop channel: closing it in the finalizer cannot stop the goroutine")
	if hasStopRecv {
		rep.Check(okStop && nStopEnd > 0, "C15.J4", name+" stop case returns", pos, "receiving from stop ends the goroutine", whyStop)
		fresh := true
		for k := range out.stopKeys {
			if len(k) < 8 || k[:8] != "newchan:" {
				fresh = false
			}
		}
		rep.Check(fresh, "C15.J4", fn(gev.Instr.Parent())+" creates stop", pos, "the stop channel is created by this constructor call", "the channel the janitor waits on for its stop signal is not one created by this constructor call (a nil channel never delivers: the janitor would never stop; a shared one stops other caches' janitors)")
	}
	rep.Check(okOther, "C15.J5", name+" does nothing else", pos, "the goroutine only waits, cleans up and stops", whyOther)
	// the object cleaned up is the inner cache object of this constructor call (not the wrapper)
	if deRecv != nil {
		rep.Check(deRecv.Op == "cell" || deRecv.Op == "closure", "C15.J1", name+" cleans this cache", pos, "DeleteExpired is called on the object built by this constructor call", "DeleteExpired is called on "+deRecv.String()+", which is not the cache object built by this constructor call")
	}
}

func keysOf(m map[string]bool) []string {
	var out []string
	for k := range m {
		out = append(out, k)
	}
	sort.Strings(out)
	return out
}

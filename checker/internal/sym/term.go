// Package sym is the role / decision-table engine: an abstract interpreter over the SSA of the
// loop-free cache-layer methods. Values are symbolic role terms (parameter, value observed by a map
// operation, clock reading, user-function result, ...); branch conditions it cannot fold become
// atoms and split the path (trace partitioning). Underlying map operations are interpreted by their
// contract. No solver is involved: terms are only normalised syntactically.
package sym

import (
	"fmt"
	"sort"
	"strconv"
	"strings"
)

// Term is an immutable symbolic value.
type Term struct {
	Op    string   // constructor
	K     string   // payload (name, constant, type)
	Args  []*Term  // operands
	Names []string // field names for Op == "struct"
	key   string
	Fn    interface{} // *ssa.Function for closures
	Bind  []*Term     // closure bindings (addresses)
	Fr    interface{} // defining frame for closures (unused)
}

func (t *Term) String() string {
	if t == nil {
		return "<nil>"
	}
	if t.key != "" {
		return t.key
	}
	var sb strings.Builder
	sb.WriteString(t.Op)
	if t.K != "" {
		sb.WriteString(":" + t.K)
	}
	if len(t.Args) > 0 {
		sb.WriteString("(")
		for i, a := range t.Args {
			if i > 0 {
				sb.WriteString(",")
			}
			if t.Op == "struct" && i < len(t.Names) {
				sb.WriteString(t.Names[i] + "=")
			}
			sb.WriteString(a.String())
		}
		sb.WriteString(")")
	}
	t.key = sb.String()
	return t.key
}

func Leaf(op, k string) *Term { return &Term{Op: op, K: k} }
func Const(k string) *Term    { return &Term{Op: "const", K: k} }
func Bool(b bool) *Term       { return Const(strconv.FormatBool(b)) }
func Int(i int64) *Term       { return Const(strconv.FormatInt(i, 10)) }

var Nil = Leaf("zero", "")

func (t *Term) IsConst() bool { return t != nil && t.Op == "const" }
func (t *Term) IsZero() bool {
	if t == nil {
		return false
	}
	if t.Op == "zero" {
		return true
	}
	if t.Op == "const" {
		return t.K == "0" || t.K == "false" || t.K == `""`
	}
	if t.Op == "struct" {
		for _, a := range t.Args {
			if !a.IsZero() {
				return false
			}
		}
		return true
	}
	return false
}
func (t *Term) BoolVal() (bool, bool) {
	if t != nil && t.Op == "const" && (t.K == "true" || t.K == "false") {
		return t.K == "true", true
	}
	return false, false
}
func (t *Term) IntVal() (int64, bool) {
	if t != nil && t.Op == "const" {
		i, err := strconv.ParseInt(t.K, 10, 64)
		return i, err == nil
	}
	if t != nil && t.Op == "zero" {
		return 0, true
	}
	return 0, false
}

// Mk builds a term with syntactic normalisation.
func Mk(op, k string, args ...*Term) *Term {
	switch op {
	case "not":
		a := args[0]
		if b, ok := a.BoolVal(); ok {
			return Bool(!b)
		}
		if a.Op == "not" {
			return a.Args[0]
		}
	case "plus":
		var flat []*Term
		var c int64
		for _, a := range args {
			if a.Op == "plus" {
				for _, x := range a.Args {
					flat = append(flat, x)
				}
			} else {
				flat = append(flat, a)
			}
		}
		var rest []*Term
		for _, a := range flat {
			if i, ok := a.IntVal(); ok {
				c += i
			} else {
				rest = append(rest, a)
			}
		}
		sort.Slice(rest, func(i, j int) bool { return rest[i].String() < rest[j].String() })
		if len(rest) == 0 {
			return Int(c)
		}
		if c != 0 {
			rest = append(rest, Int(c))
		}
		if len(rest) == 1 {
			return rest[0]
		}
		return &Term{Op: "plus", Args: rest}
	case "unixnano":
		// unixnano(add(t, d)) == unixnano(t) + d
		if args[0].Op == "add" {
			return Mk("plus", "", Mk("unixnano", "", args[0].Args[0]), args[0].Args[1])
		}
		// unixnano(unix(0, x)) == x
		if args[0].Op == "unix" && len(args[0].Args) == 2 && args[0].Args[0].IsZero() {
			return args[0].Args[1]
		}
	case "minus":
		// an instant minus the clock reading is the time remaining to it:  x - now.UnixNano()  ==  until(unix(0, x))
		if len(args) == 2 && args[1].Op == "unixnano" && len(args[1].Args) == 1 && args[1].Args[0].Op == "now" {
			if args[0].Op == "unixnano" {
				return Mk("until", "", args[0].Args[0])
			}
			return Mk("until", "", Mk("unix", "", Leaf("zero", ""), args[0]))
		}
	case "sub":
		// t.Sub(now) == until(t)
		if len(args) == 2 && args[1].Op == "now" {
			return Mk("until", "", args[0])
		}
	case "cmp":
		a, b := args[0], args[1]
		switch k {
		case "<":
			return Mk("cmp", ">", b, a)
		case "<=":
			return Mk("cmp", ">=", b, a)
		case "!=":
			return Mk("not", "", Mk("cmp", "==", a, b))
		}
		// comparisons of a term with an integer constant have one canonical form, x > k (possibly negated):
		//   x >= k  ==  x > k-1        k >= x  ==  !(x > k)        k > x  ==  !(x > k-1)
		// (all values compared in the cache layer are integers: durations, instants, lengths)
		_, aConst := a.IntVal()
		_, bConst := b.IntVal()
		if !aConst && bConst && k == ">=" {
			kb, _ := b.IntVal()
			return Mk("cmp", ">", a, Int(kb-1))
		}
		if aConst && !bConst && k == ">=" {
			return Mk("not", "", Mk("cmp", ">", b, a))
		}
		if aConst && !bConst && k == ">" {
			ka, _ := a.IntVal()
			return Mk("not", "", Mk("cmp", ">", b, Int(ka-1)))
		}
		// x + k == c  is  x == c - k
		if k == "==" {
			for _, pr := range [][2]*Term{{a, b}, {b, a}} {
				if c, isC := pr[1].IntVal(); isC && pr[0].Op == "plus" && len(pr[0].Args) == 2 {
					if kk, isK := pr[0].Args[1].IntVal(); isK {
						return Mk("cmp", "==", pr[0].Args[0], Int(c-kk))
					}
				}
			}
		}
		// integer off-by-one forms:  a > b-1  ==  a >= b  ==  !(b > a);   a+1 > b  ==  a >= b  ==  !(b > a)
		if k == ">" {
			if b.Op == "plus" && len(b.Args) == 2 {
				if c, ok := b.Args[1].IntVal(); ok && c == -1 {
					return Mk("not", "", Mk("cmp", ">", b.Args[0], a))
				}
			}
			if a.Op == "plus" && len(a.Args) == 2 {
				if c, ok := a.Args[1].IntVal(); ok && c == 1 {
					return Mk("not", "", Mk("cmp", ">", b, a.Args[0]))
				}
			}
		}
		// between two non-constant integer terms only '>' is kept:  a >= b  ==  !(b > a)
		if !aConst && !bConst && k == ">=" {
			return Mk("not", "", Mk("cmp", ">", b, a))
		}
		// a length is never negative: len == 0  ==  !(len > 0)
		if k == "==" {
			for _, pr := range [][2]*Term{{a, b}, {b, a}} {
				if kk, isC := pr[0].IntVal(); isC && kk == 0 && pr[1].Op == "len" {
					return Mk("not", "", Mk("cmp", ">", pr[1], Int(0)))
				}
			}
		}
		if x, ok1 := a.IntVal(); ok1 {
			if y, ok2 := b.IntVal(); ok2 {
				switch k {
				case ">":
					return Bool(x > y)
				case ">=":
					return Bool(x >= y)
				case "==":
					return Bool(x == y)
				}
			}
		}
		if k == "==" {
			if a.String() == b.String() {
				return Bool(true)
			}
			if ba, ok := a.BoolVal(); ok {
				if bb, ok := b.BoolVal(); ok {
					return Bool(ba == bb)
				}
				if ba {
					return b
				}
				return Mk("not", "", b)
			}
			if bb, ok := b.BoolVal(); ok {
				if bb {
					return a
				}
				return Mk("not", "", a)
			}
			if a.String() > b.String() {
				a, b = b, a
			}
			// a freshly built closure / function value is never nil
			if (a.Op == "closure" && b.IsZero()) || (b.Op == "closure" && a.IsZero()) {
				return Bool(false)
			}
		}
		return &Term{Op: "cmp", K: k, Args: []*Term{a, b}}
	case "field":
		x := args[0]
		if x.Op == "struct" {
			for i, n := range x.Names {
				if n == k {
					return x.Args[i]
				}
			}
		}
		if x.Op == "zero" {
			return Leaf("zero", "")
		}
	case "struct":
		panic("use MkStruct")
	case "elem":
		s := args[0]
		if s.Op == "appended" {
			// deferred delivery: one record appended on the path; the loop body sees that record
			if s.Args[0].IsZero() || s.Args[0].Op == "zero" {
				return s.Args[1]
			}
			return &Term{Op: "oneof", Args: []*Term{Mk("elem", "", s.Args[0]), s.Args[1]}}
		}
	case "len":
		s := args[0]
		if s.IsZero() {
			return Int(0)
		}
		if s.Op == "appended" {
			return Mk("plus", "", Mk("len", "", s.Args[0]), Int(1))
		}
		if s.Op == "sliceof" {
			return Int(1) // slice over the one-element backing array of a variadic argument
		}
	}
	return &Term{Op: op, K: k, Args: args}
}

// MkStruct builds a struct value; a struct whose fields are all the corresponding fields of one
// opaque value X collapses back to X.
func MkStruct(typ string, names []string, vals []*Term) *Term {
	names, vals = canonFields(names, vals)
	if len(vals) > 0 {
		same := true
		var base *Term
		for i, v := range vals {
			if v.Op == "field" && v.K == names[i] {
				if base == nil {
					base = v.Args[0]
				} else if base.String() != v.Args[0].String() {
					same = false
				}
			} else {
				same = false
			}
		}
		if same && base != nil {
			return base
		}
	}
	return &Term{Op: "struct", K: typ, Args: vals, Names: names}
}

// Contains reports whether sub occurs in t.
func (t *Term) Contains(pred func(*Term) bool) bool {
	if t == nil {
		return false
	}
	if pred(t) {
		return true
	}
	for _, a := range t.Args {
		if a.Contains(pred) {
			return true
		}
	}
	return false
}

// Walk visits all subterms.
func (t *Term) Walk(fn func(*Term)) {
	if t == nil {
		return
	}
	fn(t)
	for _, a := range t.Args {
		a.Walk(fn)
	}
}

func fmtTerms(ts []*Term) string {
	var s []string
	for _, t := range ts {
		s = append(s, t.String())
	}
	return "[" + strings.Join(s, ", ") + "]"
}

var _ = fmt.Sprint

// canonFields orders struct fields independently of their declaration order: key, value, expiration roles first,
// then by name (a struct regrouped or with a transparent embedded part prints the same).
func canonFields(names []string, vals []*Term) ([]string, []*Term) {
	rank := func(n string) int {
		switch n {
		case "k":
			return 0
		case "v":
			return 1
		case "e":
			return 2
		}
		return 3
	}
	sorted := true
	for i := 1; i < len(names); i++ {
		if rank(names[i-1]) > rank(names[i]) || (rank(names[i-1]) == 3 && rank(names[i]) == 3 && names[i-1] > names[i]) {
			sorted = false
		}
	}
	if sorted || len(names) != len(vals) {
		return names, vals
	}
	idx := make([]int, len(names))
	for i := range idx {
		idx[i] = i
	}
	sort.SliceStable(idx, func(a, b int) bool {
		ra, rb := rank(names[idx[a]]), rank(names[idx[b]])
		if ra != rb {
			return ra < rb
		}
		if ra == 3 {
			return names[idx[a]] < names[idx[b]]
		}
		return false
	})
	n2 := make([]string, len(names))
	v2 := make([]*Term, len(vals))
	for i, j := range idx {
		n2[i], v2[i] = names[j], vals[j]
	}
	return n2, v2
}

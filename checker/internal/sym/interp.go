package sym

import (
	"fmt"
	"go/constant"
	"go/token"
	"go/types"
	"strings"

	"cachelint/internal/core"

	"golang.org/x/tools/go/ssa"
)

// Atom is one branch decision on a path.
type Atom struct {
	T *Term
	V bool
}

// Event is something observable that happened on a path.
type Event struct {
	Kind    string // mapop | usercall | callback | itemsstore | settingstore | rangeret | dyncall | extcall
	N       int    // operation index (mapop) or ordinal
	InOp    int    // enclosing map operation whose closure is running (0 = none)
	InRange int    // enclosing Range operation (0 = none)
	Name    string // map method / callee / setting field
	Key     *Term
	Args    []*Term
	Effect  string // mapop: none | store | delete | clear
	Loaded  int    // mapop: 1 loaded, 0 not loaded, -1 n/a
	Stored  *Term
	Ret     []*Term
	PCFrom  int // atoms [PCFrom, PCTo) were added while the op's closure ran
	PCTo    int
	Pos     string
	// go events: the function the new goroutine runs, the terms of its arguments / captured cells, the statement
	Fn    *ssa.Function
	Bind  []*Term
	Instr ssa.Instruction
	Mem   map[int]*Term // memory at the go statement
	// mapop: number of clock readings made before the operation started (readings numbered above it were made while
	// the operation's closure ran, i.e. under the key's lock, or afterwards)
	ClockBefore int
}

// State is the per-path interpreter state.
type State struct {
	PC       []Atom
	pcIdx    map[string]bool
	Mem      map[int]*Term
	Events   []Event
	nOp      int
	nClock   int
	nCall    int
	nCell    int
	curOp    int
	curRng   int
	Problems []string
}

func newState() *State {
	return &State{pcIdx: map[string]bool{}, Mem: map[int]*Term{}}
}

func (s *State) clone() *State {
	c := *s
	c.PC = append([]Atom(nil), s.PC...)
	c.Events = append([]Event(nil), s.Events...)
	c.Problems = append([]string(nil), s.Problems...)
	c.pcIdx = make(map[string]bool, len(s.pcIdx))
	for k, v := range s.pcIdx {
		c.pcIdx[k] = v
	}
	c.Mem = make(map[int]*Term, len(s.Mem))
	for k, v := range s.Mem {
		c.Mem[k] = v
	}
	return &c
}

func (s *State) add(t *Term, v bool) {
	if t.Op == "not" {
		t, v = t.Args[0], !v
	}
	s.PC = append(s.PC, Atom{t, v})
	s.pcIdx[t.String()] = v
}

func (s *State) known(t *Term) (bool, bool) {
	neg := false
	if t.Op == "not" {
		t, neg = t.Args[0], true
	}
	v, ok := s.pcIdx[t.String()]
	return v != neg, ok
}

// Path is one completed path of a method.
type Path struct {
	PC       []Atom
	Events   []Event
	Ret      []*Term
	Problems []string
	Panic    bool // the path ends in an explicit panic
	PanicPos string
	Mem      map[int]*Term // memory at the end of the path
}

// Interp evaluates cache-layer functions.
type Interp struct {
	P      *core.Prog
	M      *core.Model
	Opaque map[*ssa.Function]string // in-package functions kept as opaque role terms
	// FieldRole maps unexported struct field names to canonical role names (item value / expiration, settings),
	// so that tables do not depend on identifier spelling. Names not listed are kept.
	FieldRole map[string]string
	MaxPaths  int
	panics    []Path
	paths     int
	Overflow  bool
	// Goroutine mode (the body of a background goroutine is evaluated): channel receives and selects are events (a
	// select forks the path, one per case), tickers are terms, calls of opaque functions are events, and a path cut off
	// at the loop bound is kept as a partial path (Cut) instead of being dropped.
	Goroutine bool
	Cut       []Path
	Entered   map[*ssa.Function]bool
}

type frame struct {
	fn     *ssa.Function
	env    map[ssa.Value]*Term
	visits map[*ssa.BasicBlock]int
	bind   []*Term
	depth  int
	defers []ssa.CallInstruction // deferred calls of this activation, in order of execution of the defer statements
}

func (f *frame) clone() *frame {
	c := &frame{fn: f.fn, bind: f.bind, depth: f.depth, defers: append([]ssa.CallInstruction(nil), f.defers...)}
	c.env = make(map[ssa.Value]*Term, len(f.env))
	for k, v := range f.env {
		c.env[k] = v
	}
	c.visits = make(map[*ssa.BasicBlock]int, len(f.visits))
	for k, v := range f.visits {
		c.visits[k] = v
	}
	return c
}

type cont func(st *State, rets []*Term)

// Run evaluates fn with symbolic parameters and returns all paths.
func (it *Interp) Run(fn *ssa.Function) []Path {
	var out []Path
	st := newState()
	var args []*Term
	for i := range fn.Params {
		// parameters are named by position (a0 = receiver), not by identifier
		args = append(args, Leaf("param", fmt.Sprintf("a%d", i)))
	}
	it.paths = 0
	it.call(fn, args, nil, st, 0, func(s *State, rets []*Term) {
		it.paths++
		if it.MaxPaths > 0 && it.paths > it.MaxPaths {
			it.Overflow = true
			return
		}
		out = append(out, Path{PC: s.PC, Events: s.Events, Ret: rets, Problems: s.Problems, Mem: s.Mem})
	})
	// explicit panics. A panic taken exactly because a function-typed argument is nil is argument validation: calls
	// with a nil function are outside every property's quantifier (they cannot do what the method promises), so such a
	// path is dropped together with the 'argument is not nil' atom it leaves on the other paths. Any other explicit
	// panic is kept as a path of its own (outcome: panic).
	nilAtom := func(a Atom) (string, bool) {
		if a.V && a.T.Op == "cmp" && a.T.K == "==" && len(a.T.Args) == 2 {
			for i := 0; i < 2; i++ {
				if a.T.Args[i].Op == "param" && a.T.Args[1-i].IsZero() && it.funcParam(fn, a.T.Args[i].K) {
					return a.T.String(), true
				}
			}
		}
		return "", false
	}
	dropKeys := map[string]bool{}
	for _, pp := range it.panics {
		validation := false
		for _, a := range pp.PC {
			if k, ok := nilAtom(a); ok {
				validation = true
				dropKeys[k] = true
			}
		}
		if !validation {
			out = append(out, pp)
		}
	}
	if len(dropKeys) > 0 {
		var kept []Path
		for _, p := range out {
			outside := false
			var pc []Atom
			for _, a := range p.PC {
				if dropKeys[a.T.String()] {
					if a.V {
						outside = true // a call with the nil function that happens not to need it: outside the quantifier as well
					}
					continue
				}
				pc = append(pc, a)
			}
			if outside {
				continue
			}
			p.PC = pc
			kept = append(kept, p)
		}
		out = kept
	}
	it.panics = nil
	return out
}

// funcParam: the positional parameter name (a0, a1, ...) denotes a function-typed parameter of fn.
func (it *Interp) funcParam(fn *ssa.Function, name string) bool {
	var idx int
	if _, err := fmt.Sscanf(name, "a%d", &idx); err != nil || idx < 0 || idx >= len(fn.Params) {
		return false
	}
	_, ok := fn.Params[idx].Type().Underlying().(*types.Signature)
	return ok
}

func (it *Interp) call(fn *ssa.Function, args []*Term, bind []*Term, st *State, depth int, k cont) {
	if it.Overflow {
		return
	}
	if depth > 12 || fn.Blocks == nil {
		st.Problems = append(st.Problems, "call depth exceeded or no body: "+core.FuncName(fn))
		k(st, nil)
		return
	}
	if it.Entered != nil {
		it.Entered[fn] = true
	}
	fr := &frame{fn: fn, env: map[ssa.Value]*Term{}, visits: map[*ssa.BasicBlock]int{}, bind: bind, depth: depth}
	for i, p := range fn.Params {
		if i < len(args) {
			fr.env[p] = args[i]
		}
	}
	for i, fv := range fn.FreeVars {
		if i < len(bind) {
			fr.env[fv] = bind[i]
		}
	}
	it.block(fr, fn.Blocks[0], nil, st, k)
}

func isLoopHeader(b *ssa.BasicBlock) bool {
	for _, p := range b.Preds {
		if b.Dominates(p) {
			return true
		}
	}
	return false
}

func (it *Interp) block(fr *frame, b, prev *ssa.BasicBlock, st *State, k cont) {
	limit := 1
	if isLoopHeader(b) {
		limit = 2
	}
	over := fr.visits[b] >= limit
	if over && fr.visits[b] >= 12 {
		it.cut(st)
		return
	}
	fr.visits[b]++
	i := 0
	// phis read their operands in parallel
	var phis []*ssa.Phi
	for ; i < len(b.Instrs); i++ {
		phi, ok := b.Instrs[i].(*ssa.Phi)
		if !ok {
			break
		}
		phis = append(phis, phi)
	}
	vals := make([]*Term, len(phis))
	for j, phi := range phis {
		for e, p := range b.Preds {
			if p == prev {
				vals[j] = it.val(fr, phi.Edges[e], st)
			}
		}
		if vals[j] == nil {
			vals[j] = Leaf("undef", phi.Name())
		}
	}
	for j, phi := range phis {
		fr.env[phi] = vals[j]
	}
	if over {
		// loop summarised: at most one iteration per path - except when this block's branch is decided by constants
		// (a loop driven by a state variable: 'for step := load; step != done; { switch step {...} }'): such iterations
		// are concrete steps, not an unrolling of a data-dependent loop
		concrete := false
		if iff, ok := b.Instrs[len(b.Instrs)-1].(*ssa.If); ok {
			onlyPure := true
			for _, in := range b.Instrs[i : len(b.Instrs)-1] {
				switch in.(type) {
				case *ssa.BinOp, *ssa.UnOp, *ssa.Convert, *ssa.ChangeType, *ssa.DebugRef:
				default:
					onlyPure = false
				}
			}
			if onlyPure {
				// evaluate the pure prefix, then the condition
				for _, in := range b.Instrs[i : len(b.Instrs)-1] {
					if v, isV := in.(ssa.Value); isV {
						fr.env[v] = it.valRaw(fr, v, st)
					}
				}
				if c := it.val(fr, iff.Cond, st); c != nil {
					if _, isB := c.BoolVal(); isB {
						concrete = true
					}
				}
			}
		}
		if !concrete {
			it.cut(st)
			return
		}
	}
	it.instrs(fr, b, i, st, k)
}

func (it *Interp) cut(st *State) {
	if it.Goroutine && len(it.Cut) < 4000 {
		it.Cut = append(it.Cut, Path{PC: append([]Atom(nil), st.PC...), Events: append([]Event(nil), st.Events...), Problems: st.Problems})
	}
}

// RunWith evaluates fn with the given argument / captured-cell terms (a goroutine started by a path of another
// function: the terms are that path's).
func (it *Interp) RunWith(fn *ssa.Function, args, bind []*Term, mem map[int]*Term) []Path {
	var out []Path
	st := newState()
	for k, v := range mem {
		st.Mem[k] = v
	}
	st.nCell = len(mem) + 1000
	it.paths = 0
	it.call(fn, args, bind, st, 0, func(s *State, rets []*Term) {
		it.paths++
		if it.MaxPaths > 0 && it.paths > it.MaxPaths {
			it.Overflow = true
			return
		}
		out = append(out, Path{PC: s.PC, Events: s.Events, Ret: rets, Problems: s.Problems, Mem: s.Mem})
	})
	out = append(out, it.panics...)
	it.panics = nil
	return out
}

// val is the term of an SSA value at the current point of the path: a boolean term whose truth the path condition
// already fixes (it was branched on earlier, here or in a callee that returned it) is that truth value.
func (it *Interp) val(fr *frame, v ssa.Value, st *State) *Term {
	t := it.valRaw(fr, v, st)
	if t != nil && (t.Op == "cmp" || t.Op == "not") {
		if b, ok := st.known(t); ok {
			return Bool(b)
		}
	}
	return t
}

func (it *Interp) valRaw(fr *frame, v ssa.Value, st *State) *Term {
	if t, ok := fr.env[v]; ok {
		return t
	}
	switch x := v.(type) {
	case *ssa.Const:
		return it.constTerm(x)
	case *ssa.Function:
		return &Term{Op: "closure", K: core.FuncName(x), Fn: x}
	case *ssa.Global:
		return Leaf("global", x.Name())
	case *ssa.Builtin:
		return Leaf("builtin", x.Name())
	}
	return Leaf("undef", v.Name())
}

func (it *Interp) constTerm(c *ssa.Const) *Term {
	if c.Value == nil {
		return it.zeroOf(c.Type())
	}
	switch c.Value.Kind() {
	case constant.Bool:
		return Bool(constant.BoolVal(c.Value))
	case constant.Int:
		if i, ok := constant.Int64Val(c.Value); ok {
			return Int(i)
		}
	case constant.String:
		return Const(fmt.Sprintf("%q", constant.StringVal(c.Value)))
	}
	return Const(c.Value.ExactString())
}

func typeShort(t types.Type) string {
	return types.TypeString(t, func(*types.Package) string { return "" })
}

func (it *Interp) zeroOf(t types.Type) *Term {
	switch u := t.Underlying().(type) {
	case *types.Struct:
		// time.Time and friends stay opaque zero
		if n, ok := t.(*types.Named); ok && n.Obj().Pkg() != nil && n.Obj().Pkg().Path() != core.CachePath {
			return Leaf("zero", "")
		}
		var names []string
		var vals []*Term
		for i := 0; i < u.NumFields(); i++ {
			if it.role(u.Field(i).Name()) == "embed" {
				// transparent embedded struct: its fields count as fields of the outer struct
				if z := it.zeroOf(u.Field(i).Type()); z.Op == "struct" {
					names = append(names, z.Names...)
					vals = append(vals, z.Args...)
					continue
				}
			}
			names = append(names, it.role(u.Field(i).Name()))
			vals = append(vals, it.zeroOf(u.Field(i).Type()))
		}
		name := typeShort(t)
		if n, ok := t.(*types.Named); ok {
			name = n.Obj().Name()
		}
		names, vals = canonFields(names, vals)
		return &Term{Op: "struct", K: name, Args: vals, Names: names}
	case *types.Basic:
		switch {
		case u.Info()&types.IsBoolean != 0:
			return Bool(false)
		case u.Info()&types.IsInteger != 0:
			return Int(0)
		case u.Info()&types.IsString != 0:
			return Const(`""`)
		}
	}
	return Leaf("zero", "")
}

func elemType(t types.Type) types.Type {
	if p, ok := t.Underlying().(*types.Pointer); ok {
		return p.Elem()
	}
	return t
}

// ---- memory ----

// havocLoopCarried: before the one symbolic iteration of a traversal's visitor, every captured variable that the
// visitor - or a closure stored in a captured variable (a re-check function built once per pass) - assigns is given an
// unknown value, unless it is an accumulator (slice, map) the evaluator follows by its appends. A flag or a 'current
// item' shared by all iterations is then not assumed to start an iteration with its declared initial value.
func (it *Interp) havocLoopCarried(cl *Term, st *State) {
	seen := map[*ssa.Function]bool{}
	var visit func(c *Term, depth int)
	visit = func(c *Term, depth int) {
		f, ok := c.Fn.(*ssa.Function)
		if !ok || f == nil || seen[f] || depth > 2 {
			return
		}
		seen[f] = true
		for i, fv := range f.FreeVars {
			if i >= len(c.Bind) || c.Bind[i] == nil || c.Bind[i].Op != "cell" {
				continue
			}
			addr := c.Bind[i]
			cur := it.load(addr, st)
			if cur != nil && cur.Op == "closure" {
				visit(cur, depth+1) // a function value kept in a captured variable: its own captures count too
				continue
			}
			et := elemType(fv.Type())
			switch ut := et.Underlying().(type) {
			case *types.Slice, *types.Map, *types.Chan, *types.Signature, *types.Interface, *types.Array:
				continue
			case *types.Basic:
				// counters and fill indices (a chunk's length, a tally) are accumulators too: the evaluator's single
				// iteration starts them at their declared value, like the slices; flags and remembered items are not
				if ut.Info()&types.IsNumeric != 0 {
					continue
				}
			}
			written := false
			for _, ref := range *fv.Referrers() {
				switch y := ref.(type) {
				case *ssa.Store:
					if y.Addr == ssa.Value(fv) {
						written = true
					}
				case *ssa.FieldAddr:
					for _, r2 := range *y.Referrers() {
						if st2, isSt := r2.(*ssa.Store); isSt && st2.Addr == ssa.Value(y) {
							written = true
						}
					}
				}
			}
			if written {
				it.store(addr, Leaf("carried", fv.Name()), st)
			}
		}
	}
	visit(cl, 0)
}

func (it *Interp) load(addr *Term, st *State) *Term {
	switch addr.Op {
	case "cell":
		var id int
		fmt.Sscanf(addr.K, "%d", &id)
		if v, ok := st.Mem[id]; ok {
			return v
		}
		return Leaf("undef", "cell"+addr.K)
	case "fieldaddr":
		return Mk("field", addr.K, it.load(addr.Args[0], st))
	case "embedaddr":
		return it.load(addr.Args[0], st) // the outer value stands for its transparent embedded part
	case "indexaddr":
		return Mk("elem", "", addr.Args[0])
	}
	if addr.Op == "aload" {
		return addr // *setting.Load() on an atomic.Pointer[T]: the setting itself
	}
	return Mk("deref", "", addr)
}

func (it *Interp) store(addr, v *Term, st *State) {
	switch addr.Op {
	case "cell":
		var id int
		fmt.Sscanf(addr.K, "%d", &id)
		st.Mem[id] = v
	case "fieldaddr":
		base := it.load(addr.Args[0], st)
		it.store(addr.Args[0], setField(base, addr.K, v, addr.Names), st)
	case "embedaddr":
		// assignment of the whole embedded part: field by field into the outer value
		if v.Op == "struct" {
			for i, n := range v.Names {
				base := it.load(addr.Args[0], st)
				it.store(addr.Args[0], setField(base, n, v.Args[i], addr.Names), st)
			}
			return
		}
		st.Events = append(st.Events, Event{Kind: "memstore", Key: addr, Args: []*Term{v}})
	default:
		st.Events = append(st.Events, Event{Kind: "memstore", Key: addr, Args: []*Term{v}})
	}
}

// setField returns base with field f replaced; an opaque base is expanded into its fields.
func setField(base *Term, f string, v *Term, fieldNames []string) *Term {
	if base.Op == "struct" {
		vals := append([]*Term(nil), base.Args...)
		for i, n := range base.Names {
			if n == f {
				vals[i] = v
			}
		}
		return MkStruct(base.K, base.Names, vals)
	}
	if len(fieldNames) == 0 {
		return &Term{Op: "setfield", K: f, Args: []*Term{base, v}}
	}
	vals := make([]*Term, len(fieldNames))
	for i, n := range fieldNames {
		if n == f {
			vals[i] = v
		} else {
			vals[i] = Mk("field", n, base)
		}
	}
	return MkStruct("", fieldNames, vals)
}

// fieldRole is the active renaming (set by Run; the interpreter is single-goroutine per instance).
func (it *Interp) role(n string) string {
	if r, ok := it.FieldRole[n]; ok {
		return r
	}
	return n
}

// flatFieldNames: field names with transparent embedded structs replaced by their own fields.
func (it *Interp) flatFieldNames(t types.Type) []string {
	st, ok := elemType(t).Underlying().(*types.Struct)
	if !ok {
		return nil
	}
	var out []string
	for i := 0; i < st.NumFields(); i++ {
		if it.role(st.Field(i).Name()) == "embed" {
			if inner := it.flatFieldNames(st.Field(i).Type()); inner != nil {
				out = append(out, inner...)
				continue
			}
		}
		out = append(out, it.role(st.Field(i).Name()))
	}
	return out
}

func (it *Interp) structFieldNames(t types.Type) []string {
	st, ok := elemType(t).Underlying().(*types.Struct)
	if !ok {
		return nil
	}
	var out []string
	for i := 0; i < st.NumFields(); i++ {
		out = append(out, it.role(st.Field(i).Name()))
	}
	return out
}

// ---- instructions ----

func (it *Interp) instrs(fr *frame, b *ssa.BasicBlock, i int, st *State, k cont) {
	for ; i < len(b.Instrs); i++ {
		if it.Overflow {
			return
		}
		in := b.Instrs[i]
		switch x := in.(type) {
		case *ssa.If:
			it.branch(fr, b, it.val(fr, x.Cond, st), st, k)
			return
		case *ssa.Jump:
			it.block(fr, b.Succs[0], b, st, k)
			return
		case *ssa.Return:
			var rets []*Term
			for _, r := range x.Results {
				rets = append(rets, it.val(fr, r, st))
			}
			k(st, rets)
			return
		case *ssa.Panic:
			// path ends in a panic: not a return path; recorded for Run
			if fr.depth == 0 || true {
				it.panics = append(it.panics, Path{PC: append([]Atom(nil), st.PC...), Events: append([]Event(nil), st.Events...), Problems: st.Problems, Panic: true, PanicPos: it.P.InstrPos(x)})
			}
			return
		case *ssa.Call:
			next := i + 1
			it.doCall(fr, x, st, func(st2 *State, rets []*Term) {
				fr2 := fr.clone()
				switch len(rets) {
				case 0:
					fr2.env[x] = Leaf("void", "")
				case 1:
					fr2.env[x] = rets[0]
				default:
					fr2.env[x] = &Term{Op: "tuple", Args: rets}
				}
				it.instrs(fr2, b, next, st2, k)
			})
			return
		case *ssa.Go:
			ev := Event{Kind: "go", Pos: it.P.InstrPos(in), Instr: in, PCTo: len(st.PC)}
			for _, a := range x.Call.Args {
				ev.Args = append(ev.Args, it.val(fr, a, st))
			}
			if _, isMC := x.Call.Value.(*ssa.MakeClosure); !isMC && core.Callee(x) != nil {
				ev.Fn = core.Callee(x)
			} else if !x.Call.IsInvoke() && x.Call.Value != nil {
				if fv := it.val(fr, x.Call.Value, st); fv != nil && fv.Op == "closure" {
					ev.Fn, _ = fv.Fn.(*ssa.Function)
					ev.Bind = fv.Bind
				}
			}
			ev.Mem = make(map[int]*Term, len(st.Mem))
			for mk, mv := range st.Mem {
				ev.Mem[mk] = mv
			}
			st.Events = append(st.Events, ev)
		case *ssa.Select:
			if !it.Goroutine {
				st.Problems = append(st.Problems, "select outside a goroutine body at "+it.P.InstrPos(in))
				fr.env[x] = Leaf("undef", x.Name())
				continue
			}
			// one path per case (and one for default when the select does not block)
			next := i + 1
			n := len(x.States)
			for ci := -1; ci < n; ci++ {
				if ci == -1 && x.Blocking {
					continue
				}
				st2 := st.clone()
				fr2 := fr.clone()
				tup := []*Term{Int(int64(ci)), Bool(true)}
				if ci >= 0 {
					ch := it.val(fr2, x.States[ci].Chan, st2)
					kind := "recv"
					if x.States[ci].Dir == types.SendOnly {
						kind = "send"
					}
					st2.nCall++
					st2.Events = append(st2.Events, Event{Kind: kind, N: ci, Key: ch, Pos: it.P.InstrPos(in)})
				} else {
					st2.Events = append(st2.Events, Event{Kind: "selectdefault", Pos: it.P.InstrPos(in)})
				}
				for ri, sc := range x.States {
					if sc.Dir == types.RecvOnly {
						st2.nCall++
						tup = append(tup, Leaf("recvd", fmt.Sprintf("%d#%d", ri, st2.nCall)))
					}
				}
				fr2.env[x] = &Term{Op: "tuple", Args: tup}
				it.instrs(fr2, b, next, st2, k)
			}
			return
		case *ssa.Defer:
			// arguments are evaluated now, the call runs at the function's RunDefers
			for _, a := range x.Call.Args {
				fr.env[a] = it.val(fr, a, st)
			}
			if v := x.Call.Value; v != nil {
				fr.env[v] = it.val(fr, v, st)
			}
			fr.defers = append(fr.defers, x)
		case *ssa.RunDefers:
			next := i + 1
			pending := append([]ssa.CallInstruction(nil), fr.defers...)
			fr.defers = nil
			var run func(fr2 *frame, st2 *State, rest []ssa.CallInstruction)
			run = func(fr2 *frame, st2 *State, rest []ssa.CallInstruction) {
				if len(rest) == 0 {
					it.instrs(fr2, b, next, st2, k)
					return
				}
				d := rest[len(rest)-1]
				it.doCall(fr2, d, st2, func(st3 *State, _ []*Term) {
					run(fr2.clone(), st3, rest[:len(rest)-1])
				})
			}
			run(fr, st, pending)
			return
		case *ssa.DebugRef:
		case *ssa.Store:
			it.store(it.val(fr, x.Addr, st), it.val(fr, x.Val, st), st)
		case *ssa.MapUpdate:
			// the map a method builds and returns (Items) is followed; an update of some other map - a tally kept in a
			// helper object - is bookkeeping that no result depends on (who may touch it concurrently is C14.A9's matter)
			kind := "itemsstore"
			if mt := it.val(fr, x.Map, st); mt == nil || mt.Op != "newmap" {
				kind = "helpermapstore"
			}
			st.Events = append(st.Events, Event{Kind: kind, InOp: st.curOp, InRange: st.curRng, Key: it.val(fr, x.Key, st), Args: []*Term{it.val(fr, x.Value, st)}, Pos: it.P.InstrPos(in)})
		case ssa.Value:
			fr.env[x] = it.eval(fr, x, st)
		default:
			st.Problems = append(st.Problems, fmt.Sprintf("unmodelled instruction %T at %s", in, it.P.InstrPos(in)))
		}
	}
}

func (it *Interp) branch(fr *frame, b *ssa.BasicBlock, cond *Term, st *State, k cont) {
	if v, ok := cond.BoolVal(); ok {
		if v {
			it.block(fr, b.Succs[0], b, st, k)
		} else {
			it.block(fr, b.Succs[1], b, st, k)
		}
		return
	}
	if v, ok := st.known(cond); ok {
		if v {
			it.block(fr, b.Succs[0], b, st, k)
		} else {
			it.block(fr, b.Succs[1], b, st, k)
		}
		return
	}
	for idx, v := range []bool{true, false} {
		st2 := st.clone()
		st2.add(cond, v)
		it.block(fr.clone(), b.Succs[idx], b, st2, k)
	}
}

func (it *Interp) eval(fr *frame, v ssa.Value, st *State) *Term {
	switch x := v.(type) {
	case *ssa.Alloc:
		st.nCell++
		id := st.nCell
		et := elemType(x.Type())
		init := it.zeroOf(et)
		if at, ok := et.Underlying().(*types.Array); ok {
			init = it.zeroOf(at.Elem())
		}
		st.Mem[id] = init
		return &Term{Op: "cell", K: fmt.Sprint(id)}
	case *ssa.FieldAddr:
		base := it.val(fr, x.X, st)
		names := it.structFieldNames(x.X.Type())
		n := fmt.Sprintf("#%d", x.Field)
		if x.Field < len(names) {
			n = names[x.Field]
		}
		var outer []string
		if base.Op == "embedaddr" {
			// field of a transparent embedded struct: a field of the outer value
			outer, base = base.Names, base.Args[0]
		}
		if n == "embed" {
			return &Term{Op: "embedaddr", Args: []*Term{base}, Names: it.flatFieldNames(x.X.Type())}
		}
		if outer != nil {
			names = outer
		} else {
			names = it.flatFieldNames(x.X.Type())
		}
		return &Term{Op: "fieldaddr", K: n, Args: []*Term{base}, Names: names}
	case *ssa.Field:
		names := it.structFieldNames(x.X.Type())
		n := fmt.Sprintf("#%d", x.Field)
		if x.Field < len(names) {
			n = names[x.Field]
		}
		if n == "embed" {
			return it.val(fr, x.X, st)
		}
		return Mk("field", n, it.val(fr, x.X, st))
	case *ssa.IndexAddr:
		base := it.val(fr, x.X, st)
		if base.Op == "cell" {
			return base // one-element backing array of a variadic argument
		}
		if base.Op == "sliceof" {
			return base.Args[0]
		}
		return &Term{Op: "indexaddr", Args: []*Term{base, it.val(fr, x.Index, st)}}
	case *ssa.UnOp:
		a := it.val(fr, x.X, st)
		switch x.Op {
		case token.ARROW:
			st.nCall++
			st.Events = append(st.Events, Event{Kind: "recv", N: -1, Key: a, Pos: it.P.InstrPos(x)})
			r := Leaf("recvd", fmt.Sprintf("u#%d", st.nCall))
			if x.CommaOk {
				return &Term{Op: "tuple", Args: []*Term{r, Leaf("recvok", fmt.Sprint(st.nCall))}}
			}
			return r
		case token.MUL:
			return it.load(a, st)
		case token.NOT:
			return Mk("not", "", a)
		case token.SUB:
			if i, ok := a.IntVal(); ok {
				return Int(-i)
			}
			return Mk("neg", "", a)
		}
		return Mk("unop", x.Op.String(), a)
	case *ssa.BinOp:
		a, b := it.val(fr, x.X, st), it.val(fr, x.Y, st)
		switch x.Op {
		case token.ADD:
			return Mk("plus", "", a, b)
		case token.SUB:
			if i, ok := b.IntVal(); ok {
				return Mk("plus", "", a, Int(-i))
			}
			return Mk("minus", "", a, b)
		case token.EQL, token.NEQ, token.LSS, token.LEQ, token.GTR, token.GEQ:
			return Mk("cmp", x.Op.String(), a, b)
		}
		return Mk("binop", x.Op.String(), a, b)
	case *ssa.Convert:
		return it.val(fr, x.X, st)
	case *ssa.ChangeType:
		return it.val(fr, x.X, st)
	case *ssa.ChangeInterface:
		return it.val(fr, x.X, st)
	case *ssa.MakeInterface:
		return it.val(fr, x.X, st)
	case *ssa.TypeAssert:
		a := it.val(fr, x.X, st)
		if x.CommaOk {
			// values of the underlying map are always cache items (checked by the store-type rule): the assertion holds
			if n, ok := x.AssertedType.(*types.Named); ok && n.Obj().Pkg() != nil && n.Obj().Pkg().Path() == core.CachePath && (a.Op == "mapold" || a.Op == "struct") {
				return &Term{Op: "tuple", Args: []*Term{a, Bool(true)}}
			}
			return &Term{Op: "tuple", Args: []*Term{a, Mk("typeok", typeShort(x.AssertedType), a)}}
		}
		return a
	case *ssa.Extract:
		t := it.val(fr, x.Tuple, st)
		if t.Op == "tuple" && x.Index < len(t.Args) {
			return t.Args[x.Index]
		}
		return Mk("extract", fmt.Sprint(x.Index), t)
	case *ssa.MakeClosure:
		var bind []*Term
		for _, b := range x.Bindings {
			bind = append(bind, it.val(fr, b, st))
		}
		f := x.Fn.(*ssa.Function)
		return &Term{Op: "closure", K: core.FuncName(f), Fn: f, Bind: bind}
	case *ssa.Slice:
		base := it.val(fr, x.X, st)
		// s[:0] - an empty slice whatever it is cut from (make([]T, 0, n), buf[:0])
		if x.High != nil {
			if h := it.val(fr, x.High, st); h.IsConst() {
				if hv, ok := h.IntVal(); ok && hv == 0 {
					return Leaf("zero", "")
				}
			}
		}
		if base.Op == "cell" && x.Low == nil && x.High == nil {
			return &Term{Op: "sliceof", Args: []*Term{base}}
		}
		return base
	case *ssa.MakeMap:
		st.nCall++
		return Leaf("newmap", fmt.Sprint(st.nCall))
	case *ssa.MakeSlice:
		return Leaf("zero", "")
	case *ssa.MakeChan:
		st.nCall++
		return Leaf("newchan", fmt.Sprint(st.nCall))
	case *ssa.Lookup:
		return Mk("lookup", "", it.val(fr, x.X, st), it.val(fr, x.Index, st))
	case *ssa.Phi:
		return fr.env[x]
	}
	st.Problems = append(st.Problems, fmt.Sprintf("unmodelled value %T at %s", v, it.P.InstrPos(v.(ssa.Instruction))))
	return Leaf("undef", v.Name())
}

// ---- calls ----

func (it *Interp) doCall(fr *frame, c ssa.CallInstruction, st *State, k cont) {
	cc := c.Common()
	pos := it.P.InstrPos(c)
	var args []*Term
	for _, a := range cc.Args {
		args = append(args, it.val(fr, a, st))
	}
	// builtins
	if b, ok := cc.Value.(*ssa.Builtin); ok {
		switch b.Name() {
		case "len", "cap":
			k(st, []*Term{Mk("len", "", args[0])})
		case "append":
			s := args[0]
			if len(args) > 1 {
				e := args[1]
				if e.Op == "sliceof" {
					s = &Term{Op: "appended", Args: []*Term{s, it.load(e.Args[0], st)}}
				} else {
					s = &Term{Op: "appendedslice", Args: []*Term{s, e}}
				}
			}
			k(st, []*Term{s})
		case "min", "max":
			// two-operand integer form: a constant when both are, otherwise the path forks on the comparison
			if len(args) != 2 {
				st.Problems = append(st.Problems, "unmodelled builtin "+b.Name()+" with "+fmt.Sprint(len(args))+" operands at "+pos)
				k(st, []*Term{Leaf("undef", b.Name())})
				return
			}
			x, y := args[0], args[1]
			if b.Name() == "min" {
				x, y = y, x // min(a, b) = the smaller: 'x > y ? x : y' with the operands swapped below
			}
			// result is x if x > y (max) ... for min after the swap: result is y' = original a when b > a
			gt := Mk("cmp", ">", x, y)
			pick := func(v bool) *Term {
				if b.Name() == "max" {
					if v {
						return x
					}
					return y
				}
				// min: operands were swapped (x = b, y = a): b > a -> a, else b
				if v {
					return y
				}
				return x
			}
			if v, ok := gt.BoolVal(); ok {
				k(st, []*Term{pick(v)})
				return
			}
			if v, ok := st.known(gt); ok {
				k(st, []*Term{pick(v)})
				return
			}
			for _, v := range []bool{true, false} {
				st2 := st.clone()
				st2.add(gt, v)
				k(st2, []*Term{pick(v)})
			}
		case "close":
			st.Events = append(st.Events, Event{Kind: "close", Args: args, Pos: pos})
			k(st, nil)
		default:
			st.Problems = append(st.Problems, "unmodelled builtin "+b.Name()+" at "+pos)
			k(st, []*Term{Leaf("undef", b.Name())})
		}
		return
	}
	// operations of the underlying map
	if meth, _, ok := it.M.ItemsInvoke(c); ok {
		it.mapOp(fr, c, meth, args, st, k)
		return
	}
	if cc.IsInvoke() {
		st.nCall++
		recv := it.val(fr, cc.Value, st)
		if it.Goroutine {
			st.Events = append(st.Events, Event{Kind: "icall", Name: cc.Method.Name(), Args: append([]*Term{recv}, args...), Pos: pos})
		}
		k(st, []*Term{&Term{Op: "icall", K: fmt.Sprintf("%s#%d", cc.Method.Name(), st.nCall), Args: append([]*Term{recv}, args...)}})
		return
	}
	if !cc.IsInvoke() && cc.Value != nil {
		// immediately invoked / deferred function literal: call it with its captured cells
		if fv, isClosure := fr.env[cc.Value]; isClosure && fv.Op == "closure" && fv.Bind != nil {
			it.call(fv.Fn.(*ssa.Function), args, fv.Bind, st, fr.depth+1, k)
			return
		}
	}
	if cal := core.Callee(c); cal != nil {
		if name, ok := it.Opaque[cal]; ok {
			st.nCall++
			if it.Goroutine {
				st.Events = append(st.Events, Event{Kind: "opqcall", Name: name, Args: args, Pos: pos, Fn: cal})
			}
			var rest []*Term
			if len(args) > 0 {
				rest = args[1:]
			}
			k(st, []*Term{&Term{Op: "opq", K: fmt.Sprintf("%s#%d", name, st.nCall), Args: rest}})
			return
		}
		if cal.Pkg == it.P.Cache && cal.Blocks != nil {
			it.call(cal, args, nil, st, fr.depth+1, k)
			return
		}
		it.external(cal, args, st, pos, k)
		return
	}
	// dynamic call of a function value
	fv := it.val(fr, cc.Value, st)
	// a package-level function variable that is assigned exactly once (its initialiser) and never again is that function
	if ld, ok := cc.Value.(*ssa.UnOp); ok {
		if g, isG := ld.X.(*ssa.Global); isG {
			if fn := it.singleFuncOfGlobal(g); fn != nil {
				if fn.Blocks == nil || fn.Pkg != it.P.Cache {
					// 'var now = time.Now': a function of another package, by its contract
					it.external(fn, args, st, pos, k)
					return
				}
				it.call(fn, args, nil, st, fr.depth+1, k)
				return
			}
		}
	}
	switch {
	case fv.Op == "closure":
		it.call(fv.Fn.(*ssa.Function), args, fv.Bind, st, fr.depth+1, k)
	case fv.Op == "param":
		st.nCall++
		n := st.nCall
		st.Events = append(st.Events, Event{Kind: "usercall", N: n, InOp: st.curOp, InRange: st.curRng, Name: fv.K, Args: args, Pos: pos, ClockBefore: st.nClock})
		var rets []*Term
		nres := cc.Signature().Results().Len()
		for i := 0; i < nres; i++ {
			rets = append(rets, Leaf("uret", fmt.Sprintf("%s#%d.%d", fv.K, n, i)))
		}
		k(st, rets)
	case fv.Op == "aload":
		st.nCall++
		st.Events = append(st.Events, Event{Kind: "callback", N: st.nCall, InOp: st.curOp, InRange: st.curRng, Name: fv.K, Args: args, Pos: pos, ClockBefore: st.nClock})
		k(st, nil)
	default:
		st.nCall++
		st.Events = append(st.Events, Event{Kind: "dyncall", N: st.nCall, InOp: st.curOp, InRange: st.curRng, Name: fv.String(), Args: args, Pos: pos})
		// a function value the library itself keeps (a hook in a field of the cache object, a logger held in a package
		// variable): the call is recorded - rules about what may run under a lock see it - and its results are opaque
		hook := fv.Contains(func(x *Term) bool { return x.Op == "undef" }) == false && (fv.Op == "field" || fv.Op == "aux" || fv.Op == "deref" || fv.Op == "global" || fv.Op == "ext")
		if !hook {
			st.Problems = append(st.Problems, "call of a function value of unknown role "+fv.String()+" at "+pos)
			k(st, []*Term{Leaf("undef", "dyn")})
			return
		}
		var rets []*Term
		for i := 0; i < cc.Signature().Results().Len(); i++ {
			rets = append(rets, &Term{Op: "ext", K: fmt.Sprintf("hook#%d.%d", st.nCall, i), Args: args})
		}
		k(st, rets)
	}
}

func (it *Interp) external(cal *ssa.Function, args []*Term, st *State, pos string, k cont) {
	id := core.FuncID(cal)
	switch id {
	case "time.Now":
		st.nClock++
		k(st, []*Term{Leaf("now", fmt.Sprint(st.nClock))})
	case "(time.Time).Add":
		k(st, []*Term{Mk("add", "", args[0], args[1])})
	case "(time.Time).UnixNano":
		k(st, []*Term{Mk("unixnano", "", args[0])})
	case "time.Unix":
		k(st, []*Term{Mk("unix", "", args[0], args[1])})
	case "time.Until":
		k(st, []*Term{Mk("until", "", args[0])})
	case "time.Since":
		k(st, []*Term{Mk("since", "", args[0])})
	case "(time.Time).Sub":
		k(st, []*Term{Mk("sub", "", args[0], args[1])})
	case "(time.Time).After":
		k(st, []*Term{Mk("cmp", ">", Mk("unixnano", "", args[0]), Mk("unixnano", "", args[1]))})
	case "time.NewTicker", "time.NewTimer", "time.Tick", "time.After":
		st.nCall++
		st.Events = append(st.Events, Event{Kind: "ticker", Name: id, Args: args, Pos: pos})
		k(st, []*Term{Mk("ticker", fmt.Sprintf("%s#%d", id, st.nCall), args[0])})
	case "(*time.Ticker).Stop", "(*time.Timer).Stop", "(*time.Ticker).Reset", "(*time.Timer).Reset":
		if id[len(id)-4:] == "Stop" {
			k(st, []*Term{Leaf("void", "")})
		} else {
			st.Events = append(st.Events, Event{Kind: "tickerreset", Name: id, Args: args, Pos: pos})
			k(st, []*Term{Leaf("void", "")})
		}
	case "(time.Time).Before":
		k(st, []*Term{Mk("cmp", ">", Mk("unixnano", "", args[1]), Mk("unixnano", "", args[0]))})
	case "(*sync.Mutex).Lock", "(*sync.Mutex).Unlock", "(*sync.RWMutex).Lock", "(*sync.RWMutex).Unlock", "(*sync.RWMutex).RLock", "(*sync.RWMutex).RUnlock":
		// a mutex of the cache layer's own (a helper object's guard): an event, no effect on the values; whether user
		// code runs while it is held, and whether it is released on every path, is the lock rules' matter (C13)
		kind := "mulock"
		if strings.HasSuffix(id, "nlock") {
			kind = "muunlock"
		}
		ev := Event{Kind: kind, Name: id, Pos: pos}
		if len(args) > 0 {
			ev.Key = args[0]
		}
		st.Events = append(st.Events, ev)
		k(st, []*Term{Leaf("void", "")})
	default:
		if it.atomicSetting(id, cal, args, st, pos, k) {
			return
		}
		it.externalUnknown(id, cal, args, st, pos, k)
	}
}

// atomicSetting interprets Load / Store on a settings field held in atomic.Value or in a typed atomic.
func (it *Interp) atomicSetting(id string, cal *ssa.Function, args []*Term, st *State, pos string, k cont) bool {
	if len(args) == 0 {
		return false
	}
	meth := ""
	switch {
	case strings.HasPrefix(id, "(*sync/atomic."):
		meth = id[strings.LastIndex(id, ").")+2:]
	case strings.HasPrefix(id, "sync/atomic."):
		// function form on a plain word: LoadInt64, StoreUint32, AddInt64, SwapPointer, CompareAndSwapInt64, ...
		fn := strings.TrimPrefix(id, "sync/atomic.")
		for _, op := range []string{"CompareAndSwap", "Load", "Store", "Add", "Swap", "And", "Or"} {
			if strings.HasPrefix(fn, op) {
				meth = op
				break
			}
		}
	}
	if meth == "" {
		return false
	}
	isSetting := false
	if f := args[0]; f.Op == "fieldaddr" {
		switch it.role(f.K) {
		case "defaultExpiration", "evictedCallback":
			isSetting = true
		}
	}
	if !isSetting && (meth != "Load" || args[0].Op != "fieldaddr") {
		// an auxiliary atomic word (statistics counter, flag): the operation is recorded, its result is opaque; it
		// takes no part in the decision tables unless its value reaches a branch or an output
		st.nCall++
		name := args[0].String()
		if args[0].Op == "fieldaddr" {
			name = args[0].K
		}
		st.Events = append(st.Events, Event{Kind: "auxatomic", N: st.nCall, Name: name + "." + meth, Args: args[1:], Pos: pos})
		var rets []*Term
		for i := 0; i < cal.Signature.Results().Len(); i++ {
			rets = append(rets, Leaf("aux", fmt.Sprintf("%s.%s#%d.%d", name, meth, st.nCall, i)))
		}
		k(st, rets)
		return true
	}
	switch meth {
	case "Load":
		st.nCall++
		f := args[0]
		name := f.String()
		if f.Op == "fieldaddr" {
			name = it.role(f.K)
		}
		k(st, []*Term{Leaf("aload", fmt.Sprintf("%s#%d", name, st.nCall))})
		return true
	case "Store":
		f := args[0]
		name := f.String()
		if f.Op == "fieldaddr" {
			name = it.role(f.K)
		}
		vals := append([]*Term(nil), args[1:]...)
		for i, v := range vals {
			if v.Op == "cell" {
				vals[i] = it.load(v, st) // atomic.Pointer[T].Store(&x): the setting is x
			}
		}
		st.Events = append(st.Events, Event{Kind: "settingstore", Name: name, Args: vals, Pos: pos})
		k(st, nil)
		return true
	}
	return false
}

// pureStd: standard-library callees that neither touch the cache nor decide anything: diagnostics and formatting.
// Their results stay opaque terms over their arguments (so a value passed through them is still traced).
func pureStd(id string) bool {
	for _, p := range []string{"fmt.", "strings.", "strconv.", "errors.", "math.", "unicode/utf8.", "log.Print", "log.Output", "(*log.Logger).Print", "(*log.Logger).Output", "log.Default", "log.New", "os.Getenv", "(*strings.Builder).", "(*bytes.Buffer).", "(time.Duration).", "(time.Time).", "(time.Month).", "(time.Weekday)."} {
		if strings.HasPrefix(id, p) {
			return true
		}
	}
	return false
}

func (it *Interp) externalUnknown(id string, cal *ssa.Function, args []*Term, st *State, pos string, k cont) {
	if pureStd(id) {
		st.nCall++
		st.Events = append(st.Events, Event{Kind: "diag", N: st.nCall, Name: id, Args: args, Pos: pos})
		var rets []*Term
		for i := 0; i < cal.Signature.Results().Len(); i++ {
			rets = append(rets, &Term{Op: "ext", K: fmt.Sprintf("%s#%d.%d", id, st.nCall, i), Args: args})
		}
		k(st, rets)
		return
	}
	{
		st.nCall++
		ev := Event{Kind: "extcall", N: st.nCall, Name: id, Args: args, Pos: pos}
		if id == "runtime.SetFinalizer" {
			ev.Mem = make(map[int]*Term, len(st.Mem))
			for mk, mv := range st.Mem {
				ev.Mem[mk] = mv
			}
		}
		st.Events = append(st.Events, ev)
		st.Problems = append(st.Problems, "call of unmodelled function "+id+" at "+pos)
		var rets []*Term
		n := cal.Signature.Results().Len()
		for i := 0; i < n; i++ {
			rets = append(rets, &Term{Op: "ext", K: fmt.Sprintf("%s#%d.%d", id, st.nCall, i), Args: args})
		}
		k(st, rets)
	}
}

// mapOp interprets an operation of the underlying map by its contract (checked against the
// compute core by C11.L1 on the same run).
func (it *Interp) mapOp(fr *frame, c ssa.CallInstruction, meth string, args []*Term, st *State, k cont) {
	pos := it.P.InstrPos(c)
	st.nOp++
	n := st.nOp
	old := Leaf("mapold", fmt.Sprint(n))
	loadedAtom := Leaf("loaded", fmt.Sprint(n))
	ev := Event{Kind: "mapop", N: n, InOp: st.curOp, InRange: st.curRng, Name: meth, Effect: "none", Loaded: -1, Pos: pos, ClockBefore: st.nClock}
	if len(args) > 0 {
		ev.Key = args[0]
	}
	// zero value of the map's value type: taken from the method's result / parameter types
	var zeroV *Term = Leaf("zero", "")
	if sig, ok := c.Common().Method.Type().(*types.Signature); ok {
		switch meth {
		case "Load", "LoadAndDelete", "LoadOrStore", "LoadAndStore", "Compute", "LoadOrCompute":
			if sig.Results().Len() > 0 {
				zeroV = it.zeroOf(sig.Results().At(0).Type())
			}
		}
	}
	forkLoaded := func(fn func(st2 *State, loaded bool)) {
		for _, l := range []bool{true, false} {
			st2 := st.clone()
			st2.add(loadedAtom, l)
			fn(st2, l)
		}
	}
	oldOr := func(l bool) *Term {
		if l {
			return old
		}
		return zeroV
	}
	lint := func(l bool) int {
		if l {
			return 1
		}
		return 0
	}
	switch meth {
	case "Load":
		forkLoaded(func(st2 *State, l bool) {
			e := ev
			e.Loaded = lint(l)
			st2.Events = append(st2.Events, e)
			k(st2, []*Term{oldOr(l), Bool(l)})
		})
	case "Store":
		ev.Effect, ev.Stored = "store", args[1]
		st.Events = append(st.Events, ev)
		k(st, nil)
	case "LoadAndDelete", "Delete":
		forkLoaded(func(st2 *State, l bool) {
			e := ev
			e.Loaded = lint(l)
			if l {
				e.Effect = "delete"
			}
			st2.Events = append(st2.Events, e)
			if meth == "Delete" {
				k(st2, nil)
			} else {
				k(st2, []*Term{oldOr(l), Bool(l)})
			}
		})
	case "LoadOrStore":
		forkLoaded(func(st2 *State, l bool) {
			e := ev
			e.Loaded = lint(l)
			if !l {
				e.Effect, e.Stored = "store", args[1]
				st2.Events = append(st2.Events, e)
				k(st2, []*Term{args[1], Bool(false)})
				return
			}
			st2.Events = append(st2.Events, e)
			k(st2, []*Term{old, Bool(true)})
		})
	case "LoadAndStore":
		forkLoaded(func(st2 *State, l bool) {
			e := ev
			e.Loaded = lint(l)
			e.Effect, e.Stored = "store", args[1]
			st2.Events = append(st2.Events, e)
			k(st2, []*Term{oldOr(l), Bool(l)})
		})
	case "Size":
		st.Events = append(st.Events, ev)
		k(st, []*Term{Leaf("size", fmt.Sprint(n))})
	case "Clear":
		ev.Effect = "clear"
		st.Events = append(st.Events, ev)
		k(st, nil)
	case "Range":
		cl := args[0]
		if cl.Op != "closure" {
			st.Problems = append(st.Problems, "Range visitor is not a function literal at "+pos)
			k(st, nil)
			return
		}
		st.Events = append(st.Events, ev)
		prev := st.curRng
		st.curRng = n
		// the visitor runs once per entry: a variable of the enclosing function that the visitor (or a closure it was
		// handed) assigns holds, at the start of an arbitrary iteration, whatever an earlier iteration left there
		it.havocLoopCarried(cl, st)
		it.call(cl.Fn.(*ssa.Function), []*Term{Leaf("rangekey", fmt.Sprint(n)), Leaf("mapold", fmt.Sprint(n))}, cl.Bind, st, fr.depth+1, func(st2 *State, rets []*Term) {
			st2.Events = append(st2.Events, Event{Kind: "rangeret", N: n, Ret: rets, Pos: pos})
			st2.curRng = prev
			k(st2, nil)
		})
	case "Compute", "LoadOrCompute":
		cl := args[1]
		if cl.Op != "closure" {
			st.Problems = append(st.Problems, "compute function is not a function literal at "+pos)
			k(st, []*Term{Leaf("undef", "compute"), Leaf("undef", "ok")})
			return
		}
		forkLoaded(func(st2 *State, l bool) {
			if meth == "LoadOrCompute" && l {
				e := ev
				e.Loaded = 1
				st2.Events = append(st2.Events, e)
				k(st2, []*Term{old, Bool(true)})
				return
			}
			prev := st2.curOp
			st2.curOp = n
			from := len(st2.PC)
			var cargs []*Term
			if meth == "Compute" {
				cargs = []*Term{oldOr(l), Bool(l)}
			}
			it.call(cl.Fn.(*ssa.Function), cargs, cl.Bind, st2, fr.depth+1, func(st3 *State, rets []*Term) {
				finish := func(st4 *State, del bool) {
					st4.curOp = prev
					e := ev
					e.Loaded = lint(l)
					e.PCFrom, e.PCTo = from, len(st4.PC)
					nv := rets[0]
					switch {
					case l && del:
						e.Effect = "delete"
						st4.Events = append(st4.Events, e)
						k(st4, []*Term{old, Bool(false)})
					case !l && del:
						st4.Events = append(st4.Events, e)
						k(st4, []*Term{zeroV, Bool(false)})
					default:
						e.Effect, e.Stored = "store", nv
						st4.Events = append(st4.Events, e)
						ok := Bool(true)
						if meth == "LoadOrCompute" {
							ok = Bool(false)
						}
						k(st4, []*Term{nv, ok})
					}
				}
				if meth == "LoadOrCompute" {
					finish(st3, false)
					return
				}
				if len(rets) != 2 {
					st3.Problems = append(st3.Problems, "compute closure does not return two values at "+pos)
					return
				}
				del := rets[1]
				if b, ok := del.BoolVal(); ok {
					finish(st3, b)
					return
				}
				if b, ok := st3.known(del); ok {
					finish(st3, b)
					return
				}
				for _, b := range []bool{true, false} {
					st4 := st3.clone()
					st4.add(del, b)
					finish(st4, b)
				}
			})
		})
	default:
		st.Problems = append(st.Problems, "unmodelled map operation "+meth+" at "+pos)
		k(st, nil)
	}
}

// Describe renders a path condition compactly.
func DescribePC(pc []Atom) string {
	var s []string
	for _, a := range pc {
		if a.V {
			s = append(s, a.T.String())
		} else {
			s = append(s, "!"+a.T.String())
		}
	}
	return strings.Join(s, " & ")
}

// singleFuncOfGlobal: the only store to the global in its package is 'g = <function>' (in the package initialiser).
func (it *Interp) singleFuncOfGlobal(g *ssa.Global) *ssa.Function {
	var fn *ssa.Function
	n := 0
	var roots []*ssa.Function
	for _, f := range it.P.Funcs {
		if f.Pkg == g.Pkg && f.Parent() == nil {
			roots = append(roots, f)
		}
	}
	if init := g.Pkg.Func("init"); init != nil {
		roots = append(roots, init)
	}
	seenF := map[*ssa.Function]bool{}
	for _, f := range roots {
		if seenF[f] {
			continue
		}
		seenF[f] = true
		var scan func(f *ssa.Function)
		scan = func(f *ssa.Function) {
			for _, b := range f.Blocks {
				for _, in := range b.Instrs {
					if st, ok := in.(*ssa.Store); ok && st.Addr == ssa.Value(g) {
						n++
						switch v := st.Val.(type) {
						case *ssa.Function:
							fn = v
						case *ssa.MakeClosure:
							if len(v.Bindings) == 0 {
								fn, _ = v.Fn.(*ssa.Function)
							}
						}
					}
				}
			}
			for _, a := range f.AnonFuncs {
				scan(a)
			}
		}
		scan(f)
	}
	// methods are not package members: scan them through the program's method sets is not needed for a variable that
	// only the initialiser may assign - any other store anywhere in the package's functions counts
	if n == 1 {
		return fn
	}
	return nil
}

#!/usr/bin/env python3
"""Generates controls/catalogue.json: textual variants of /repo's current tree used as
positive (must be reported) and negative (must stay silent) controls of the checker.
Anchors are exact text of the current tree; a missing anchor makes the control 'skipped', never an alarm."""
import json, os
C = []
X = 'internal/xsync/'
def ctl(id, kind, props, edits, expect='', note=''):
    C.append(dict(id=id, kind=kind, properties=props, expect_rule=expect, note=note,
                  edits=[dict(file=f, old=o, new=n, nth=k) for (f, o, n, k) in edits]))
def pos(id, props, f, old, new, expect, note, nth=0): ctl(id, 'positive', props, [(f, old, new, nth)], expect, note)
def neg(id, props, f, old, new, note, nth=0): ctl(id, 'negative', props, [(f, old, new, nth)], '', note)

# ---------------- C13 ----------------
pos('C13-p01', ['C13'], X+'map.go', "\t\t\t\tif del {\n\t\t\t\t\tunlockBucket(&rootb.topHashMutex)\n\t\t\t\t\treturn zeroedV, false\n\t\t\t\t}\n\t\t\t\t// Create and append a bucket.", "\t\t\t\tif del {\n\t\t\t\t\treturn zeroedV, false\n\t\t\t\t}\n\t\t\t\t// Create and append a bucket.", 'C13.L1', 'unlock dropped on Map.doCompute new-bucket delete path')
pos('C13-p02', ['C13'], X+'mapof.go', "\t\t\t\t\t\tif loadIfExists {\n\t\t\t\t\t\t\trootb.mu.Unlock()\n", "\t\t\t\t\t\tif loadIfExists {\n", 'C13.L1', 'unlock dropped on MapOf.doCompute load-if-exists hit under lock')
pos('C13-p03', ['C13'], X+'map.go', "\t\t\tatomic.StoreInt64(&m.resizing, 0)\n\t\t\tm.resizeCond.Broadcast()\n", "\t\t\tatomic.StoreInt64(&m.resizing, 0)\n", 'C13.L3', 'Broadcast dropped on abandoned-shrink exit')
pos('C13-p04', ['C13'], 'xsync_mapof.go', "\t\t\tif loaded && !value.expired() {\n\t\t\t\tok = true\n\t\t\t\told = value\n\t\t\t}", "\t\t\tif loaded && !value.expired() {\n\t\t\t\tok = true\n\t\t\t\told = value\n\t\t\t\tif ec := c.EvictedCallback(); ec != nil {\n\t\t\t\t\tec(k, old.v)\n\t\t\t\t}\n\t\t\t}", 'C13.L5', 'evicted callback invoked inside a Compute closure (under the bucket lock)')
pos('C13-p05', ['C13'], X+'map.go', "\t\t\tif b.next == nil {\n\t\t\t\tunlockBucket(&rootb.topHashMutex)\n\t\t\t\tbreak\n\t\t\t}", "\t\t\tif b.next == nil {\n\t\t\t\tbreak\n\t\t\t}", 'C13.L', 'Range: unlock dropped, visitor runs under the lock')
pos('C13-p06', ['C13'], X+'mapof.go', "\tm.resizeMu.Lock()\n\tfor m.resizeInProgress() {\n\t\tm.resizeCond.Wait()\n\t}\n\tm.resizeMu.Unlock()", "\tif !m.resizeInProgress() {\n\t\treturn\n\t}\n\tm.resizeMu.Lock()\n\tm.resizeCond.Wait()\n\tm.resizeMu.Unlock()", 'C13.L4', 'waiter tests the flag outside the mutex, then waits: lost wake-up')
pos('C13-p07', ['C13'], X+'map.go', "\tatomic.StorePointer(&m.table, unsafe.Pointer(newTable))\n\tm.resizeMu.Lock()\n\tatomic.StoreInt64(&m.resizing, 0)\n\tm.resizeCond.Broadcast()\n\tm.resizeMu.Unlock()", "\tatomic.StorePointer(&m.table, unsafe.Pointer(newTable))\n\tatomic.StoreInt64(&m.resizing, 0)\n\tm.resizeCond.Broadcast()", 'C13.L3', 'flag clear and broadcast both outside resizeMu')
pos('C13-p08', ['C13'], X+'mapof.go', "\t\t\t\t\trootb.mu.Unlock()\n\t\t\t\t\tm.resize(table, mapGrowHint)", "\t\t\t\t\tm.resize(table, mapGrowHint)\n\t\t\t\t\trootb.mu.Unlock()", 'C13.L2', 'resize called while the bucket lock is held')
pos('C13-p09', ['C13'], X+'map.go', "\t\t\tunlockBucket(&rootb.topHashMutex)\n\t\t\tm.waitForResize()", "\t\t\tm.waitForResize()\n\t\t\tunlockBucket(&rootb.topHashMutex)", 'C13.L2', 'waitForResize under the bucket lock')
pos('C13-p10', ['C13'], 'xsync_map.go', "\t\t\t\tif !i.expired() {\n\t\t\t\t\t// store new value\n\t\t\t\t\ti.e = c.expiration(d)\n\t\t\t\t\treturn i, false\n\t\t\t\t}", "\t\t\t\tif !i.expired() {\n\t\t\t\t\t// store new value\n\t\t\t\t\ti.e = c.expiration(d)\n\t\t\t\t\treturn i, false\n\t\t\t\t}\n\t\t\t\tc.items.Delete(k)", 'C13.L5', 'locking map op from inside a Compute closure (self-deadlock)')
pos('C13-p11', ['C13'], X+'mapof.go', "\t\t} else {\n\t\t\t// No need to shrink. Wake up all waiters and give up.\n\t\t\tm.resizeMu.Lock()\n\t\t\tatomic.StoreInt64(&m.resizing, 0)\n\t\t\tm.resizeCond.Broadcast()\n\t\t\tm.resizeMu.Unlock()\n\t\t\treturn", "\t\t} else {\n\t\t\treturn", 'C13.L3', 'abandoned shrink leaves the flag set')
neg('C13-n01', ['C13'], X+'map.go', "func unlockBucket(mu *uint64) {", "func unlockBucketX(mu *uint64) {\n\tunlockBucket(mu)\n}\n\nfunc unlockBucket(mu *uint64) {", 'extra unused helper around unlock')
neg('C13-n02', ['C13'], X+'mapof.go', "\tm.resizeMu.Lock()\n\tfor m.resizeInProgress() {\n\t\tm.resizeCond.Wait()\n\t}\n\tm.resizeMu.Unlock()", "\tm.resizeMu.Lock()\n\tif m.resizeInProgress() {\n\t\tm.resizeCond.Wait()\n\t}\n\tm.resizeMu.Unlock()", 'for -> if around Wait (callers re-validate)')
neg('C13-n03', ['C13'], X+'map.go', "\t\t\tm.resizeMu.Lock()\n\t\t\tatomic.StoreInt64(&m.resizing, 0)\n\t\t\tm.resizeCond.Broadcast()\n\t\t\tm.resizeMu.Unlock()\n\t\t\treturn", "\t\t\tatomic.StoreInt64(&m.resizing, 0)\n\t\t\tm.resizeMu.Lock()\n\t\t\tm.resizeCond.Broadcast()\n\t\t\tm.resizeMu.Unlock()\n\t\t\treturn", 'flag clear alone moved before resizeMu.Lock')
neg('C13-n04', ['C13'], X+'map.go', "\t\tb := rootb\n\t\tfor {\n\t\t\ttopHashes := atomic.LoadUint64(&b.topHashMutex)", "\t\tb := rootb\n\t\truntime.Gosched()\n\t\tfor {\n\t\t\ttopHashes := atomic.LoadUint64(&b.topHashMutex)", 'Gosched under the lock (slow, not stuck)')
ctl('C13-n05', 'negative', ['C13','C03','C04','C11','C08'], [
    (X+'mapof.go', "\tswitch hint {\n\tcase mapGrowHint:", "\tif hint == mapGrowHint {", 0),
    (X+'mapof.go', "\tcase mapShrinkHint:\n\t\tshrinkThreshold", "\t} else if hint == mapShrinkHint {\n\t\tshrinkThreshold", 0),
    (X+'mapof.go', "\tcase mapClearHint:\n\t\tnewTable = newMapOfTable", "\t} else if hint == mapClearHint {\n\t\tnewTable = newMapOfTable", 0),
    (X+'mapof.go', "\tdefault:\n\t\tpanic(fmt.Sprintf(\"unexpected resize hint", "\t} else {\n\t\tpanic(fmt.Sprintf(\"unexpected resize hint", 0),
], '', 'resize: switch on hint rewritten as an if/else-if chain')


# ---------------- C14 ----------------
pos('C14-p01', ['C14'], X+'map.go', "atomic.StorePointer(&b.values[i], nvp)", "b.values[i] = nvp", 'C14.A1', 'atomic slot store made plain (Map update path)')
pos('C14-p02', ['C14'], X+'map.go', "func (m *Map) Size() int {\n\ttable := (*mapTable)(atomic.LoadPointer(&m.table))", "func (m *Map) Size() int {\n\ttable := (*mapTable)(m.table)", 'C14.A2', 'Size: plain read of m.table')
pos('C14-p03', ['C14','C04'], X+'mapof.go', "\t\t\t\t\t\tnewe := new(entryOf[K, V])\n\t\t\t\t\t\tnewe.key = key\n\t\t\t\t\t\tnewe.value = newv\n\t\t\t\t\t\tatomic.StorePointer(&b.entries[idx], unsafe.Pointer(newe))\n", "\t\t\t\t\t\te.value = newv\n", 'C14.A3', 'MapOf update mutates the published immutable entry in place')
pos('C14-p04', ['C14'], X+'mapof.go', "\t\t\teptr := atomic.LoadPointer(&b.entries[idx])\n\t\t\tif eptr != nil {", "\t\t\teptr := b.entries[idx]\n\t\t\tif eptr != nil {", 'C14.A2', 'MapOf.Load reads the entry slot plainly')
pos('C14-p05', ['C14'], X+'map.go', "\t\t\t\t\t\tleftEmpty := false\n\t\t\t\t\t\tif hintNonEmpty == 0 {\n\t\t\t\t\t\t\tleftEmpty = isEmptyBucket(b)\n\t\t\t\t\t\t}\n\t\t\t\t\t\tunlockBucket(&rootb.topHashMutex)", "\t\t\t\t\t\tleftEmpty := false\n\t\t\t\t\t\tunlockBucket(&rootb.topHashMutex)\n\t\t\t\t\t\tif hintNonEmpty == 0 {\n\t\t\t\t\t\t\tleftEmpty = isEmptyBucket(b)\n\t\t\t\t\t\t}", 'C14.A2', 'isEmptyBucket (plain reads) called after the unlock')
pos('C14-p06', ['C14'], X+'mapof.go', "atomic.StoreUint64(&b.meta, newmetaw)", "b.meta = newmetaw", 'C14.A1', 'meta word store made plain (delete path)')
pos('C14-p07', ['C14'], X+'map.go', "\tatomic.StorePointer(&m.table, unsafe.Pointer(newTable))\n\tm.resizeMu.Lock()", "\tm.table = unsafe.Pointer(newTable)\n\tm.resizeMu.Lock()", 'C14.A1', 'table publication made plain')
pos('C14-p08', ['C14'], X+'map.go', "\t\t\t\t\tatomic.StorePointer(&b.values[i], nvp)", "\t\t\t\t\tatomic.StorePointer(&b.values[i], vp)", 'C14.A4', 'slot store of a reloaded (non-unique) value pointer')
pos('C14-p09', ['C14'], X+'mapof.go', "\t\t\t\tatomic.StorePointer(&b.next, unsafe.Pointer(newb))\n\t\t\t\trootb.mu.Unlock()\n\t\t\t\ttable.addSize(bidx, 1)", "\t\t\t\tatomic.StorePointer(&b.next, unsafe.Pointer(newb))\n\t\t\t\tnewb.meta = setByte(newb.meta, h2, 0)\n\t\t\t\trootb.mu.Unlock()\n\t\t\t\ttable.addSize(bidx, 1)", 'C14.A1', 'plain write to a bucket after it has been linked into the chain')
pos('C14-p10', ['C14'], 'xsync_map.go', "func (c *xsyncMap) SetDefaultExpiration(defaultExpiration time.Duration) {\n\tc.defaultExpiration.Store(defaultExpiration)", "func (c *xsyncMap) SetDefaultExpiration(defaultExpiration time.Duration) {\n\tc.defaultExpiration.Store(int64(defaultExpiration))", 'C14.A5', 'second dynamic type stored into the atomic.Value')
pos('C14-p11', ['C14'], X+'map.go', "func (table *mapTable) addSize(bucketIdx uint64, delta int) {\n\tcidx := uint64(len(table.size)-1) & bucketIdx\n\tatomic.AddInt64(&table.size[cidx].c, int64(delta))", "func (table *mapTable) addSize(bucketIdx uint64, delta int) {\n\tcidx := uint64(len(table.size)-1) & bucketIdx\n\ttable.size[cidx].c += int64(delta)", 'C14.A1', 'counter stripe updated plainly on a published table')
pos('C14-p12', ['C14'], 'xsync_mapof.go', "\tcache := &xsyncMapOfWrapper[K, V]{c}\n", "\tcfg.CleanupInterval = 0\n\tcache := &xsyncMapOfWrapper[K, V]{c}\n", 'C14.A6', 'constructor writes cfg after starting the janitor that reads it')
pos('C14-p13', ['C14'], X+'map.go', "type Map struct {\n\ttotalGrowths int64\n\ttotalShrinks int64\n\tresizing     int64          // resize in progress flag; updated atomically\n\tresizeMu     sync.Mutex     // only used along with resizeCond", "type Map struct {\n\tgrowOnly2    bool\n\ttotalGrowths int64\n\ttotalShrinks int64\n\tresizing     int64          // resize in progress flag; updated atomically\n\tresizeMu     sync.Mutex     // only used along with resizeCond", 'C14.A7', '64-bit atomics misaligned on 386 by a leading bool field')
neg('C14-n01', ['C14'], X+'map.go', "\t\t\tvp := atomic.LoadPointer(&b.values[i])\n\t\t\tkp := atomic.LoadPointer(&b.keys[i])", "\t\t\tvslot := &b.values[i]\n\t\t\tvp := atomic.LoadPointer(vslot)\n\t\t\tkp := atomic.LoadPointer(&b.keys[i])", 'atomic access through a local pointer alias')
neg('C14-n02', ['C14'], X+'mapof.go', "\t\t\tmetaw := b.meta\n\t\t\tmarkedw := markZeroBytes(metaw^h2w) & metaMask\n\t\t\tfor markedw != 0 {\n\t\t\t\tidx := firstMarkedByteIndex(markedw)\n\t\t\t\teptr := b.entries[idx]", "\t\t\tmetaw := atomic.LoadUint64(&b.meta)\n\t\t\tmarkedw := markZeroBytes(metaw^h2w) & metaMask\n\t\t\tfor markedw != 0 {\n\t\t\t\tidx := firstMarkedByteIndex(markedw)\n\t\t\t\teptr := b.entries[idx]", 'plain read under lock replaced by an atomic read (stronger, still fine)')

os.makedirs(os.path.dirname(os.path.abspath(__file__)), exist_ok=True)
out = os.path.join(os.path.dirname(os.path.abspath(__file__)), 'catalogue.json')
json.dump(C, open(out, 'w'), indent=1)
print(len(C), 'controls ->', out)

#!/usr/bin/env python3
"""Generates controls/catalogue.json: textual variants of /repo's current tree used as
positive (must be reported) and negative (must stay silent) controls of the checker.
Anchors are exact text of the current tree; a missing anchor makes the control 'skipped', never an alarm."""
import json, os
C = []
X = 'internal/xsync/'
def ctl(id, kind, props, edits, expect='', note=''):
    C.append(dict(id=id, kind=kind, properties=props, expect_rule=expect, note=note,
                  edits=[dict(file=f, old=o, new=n, nth=k) for (f, o, n, k) in edits]))
def pos(id, props, f, old, new, expect, note, nth=0): ctl(id, 'positive', props, [(f, old, new, nth)], expect, note)
def neg(id, props, f, old, new, note, nth=0): ctl(id, 'negative', props, [(f, old, new, nth)], '', note)

# ---------------- C13 ----------------
pos('C13-p01', ['C13'], X+'map.go', "\t\t\t\tif del {\n\t\t\t\t\tunlockBucket(&rootb.topHashMutex)\n\t\t\t\t\treturn newValue, false", "\t\t\t\tif del {\n\t\t\t\t\treturn newValue, false", 'C13.L1', 'unlock dropped on Map.doCompute new-bucket delete path')
pos('C13-p02', ['C13'], X+'mapof.go', "\t\t\t\t\t\tif loadIfExists {\n\t\t\t\t\t\t\trootb.mu.Unlock()\n", "\t\t\t\t\t\tif loadIfExists {\n", 'C13.L1', 'unlock dropped on MapOf.doCompute load-if-exists hit under lock')
pos('C13-p03', ['C13'], X+'map.go', "\t\t\tatomic.StoreInt64(&m.resizing, 0)\n\t\t\tm.resizeCond.Broadcast()\n", "\t\t\tatomic.StoreInt64(&m.resizing, 0)\n", 'C13.L3', 'Broadcast dropped on abandoned-shrink exit')
pos('C13-p04', ['C13'], 'xsync_mapof.go', "\t\t\tif loaded && !value.expired() {\n\t\t\t\tok = true\n\t\t\t\told = value\n\t\t\t}", "\t\t\tif loaded && !value.expired() {\n\t\t\t\tok = true\n\t\t\t\told = value\n\t\t\t\tif ec := c.EvictedCallback(); ec != nil {\n\t\t\t\t\tec(k, old.v)\n\t\t\t\t}\n\t\t\t}", 'C13.L5', 'evicted callback invoked inside a Compute closure (under the bucket lock)')
pos('C13-p05', ['C13'], X+'map.go', "\t\t\tif b.next == nil {\n\t\t\t\tunlockBucket(&rootb.topHashMutex)\n\t\t\t\tbreak\n\t\t\t}", "\t\t\tif b.next == nil {\n\t\t\t\tbreak\n\t\t\t}", 'C13.L', 'Range: unlock dropped, visitor runs under the lock')
pos('C13-p06', ['C13'], X+'mapof.go', "\tm.resizeMu.Lock()\n\tfor m.resizeInProgress() {\n\t\tm.resizeCond.Wait()\n\t}\n\tm.resizeMu.Unlock()", "\tif !m.resizeInProgress() {\n\t\treturn\n\t}\n\tm.resizeMu.Lock()\n\tm.resizeCond.Wait()\n\tm.resizeMu.Unlock()", 'C13.L4', 'waiter tests the flag outside the mutex, then waits: lost wake-up')
pos('C13-p07', ['C13'], X+'map.go', "\tatomic.StorePointer(&m.table, unsafe.Pointer(newTable))\n\tm.resizeMu.Lock()\n\tatomic.StoreInt64(&m.resizing, 0)\n\tm.resizeCond.Broadcast()\n\tm.resizeMu.Unlock()", "\tatomic.StorePointer(&m.table, unsafe.Pointer(newTable))\n\tatomic.StoreInt64(&m.resizing, 0)\n\tm.resizeCond.Broadcast()", 'C13.L3', 'flag clear and broadcast both outside resizeMu')
pos('C13-p08', ['C13'], X+'mapof.go', "\t\t\t\t\trootb.mu.Unlock()\n\t\t\t\t\tm.resize(table, mapGrowHint)", "\t\t\t\t\tm.resize(table, mapGrowHint)\n\t\t\t\t\trootb.mu.Unlock()", 'C13.L2', 'resize called while the bucket lock is held')
pos('C13-p09', ['C13'], X+'map.go', "\t\t\tunlockBucket(&rootb.topHashMutex)\n\t\t\tm.waitForResize()", "\t\t\tm.waitForResize()\n\t\t\tunlockBucket(&rootb.topHashMutex)", 'C13.L2', 'waitForResize under the bucket lock')
pos('C13-p10', ['C13'], 'xsync_map.go', "\t\t\t\tif !i.expired() {\n\t\t\t\t\t// store new value\n\t\t\t\t\ti.e = c.expiration(d)\n\t\t\t\t\treturn i, false\n\t\t\t\t}", "\t\t\t\tif !i.expired() {\n\t\t\t\t\t// store new value\n\t\t\t\t\ti.e = c.expiration(d)\n\t\t\t\t\treturn i, false\n\t\t\t\t}\n\t\t\t\tc.items.Delete(k)", 'C13.L5', 'locking map op from inside a Compute closure (self-deadlock)')
pos('C13-p11', ['C13'], X+'mapof.go', "\t\t} else {\n\t\t\t// No need to shrink. Wake up all waiters and give up.\n\t\t\tm.resizeMu.Lock()\n\t\t\tatomic.StoreInt64(&m.resizing, 0)\n\t\t\tm.resizeCond.Broadcast()\n\t\t\tm.resizeMu.Unlock()\n\t\t\treturn", "\t\t} else {\n\t\t\treturn", 'C13.L3', 'abandoned shrink leaves the flag set')
neg('C13-n01', ['C13'], X+'map.go', "func unlockBucket(mu *uint64) {", "func unlockBucketX(mu *uint64) {\n\tunlockBucket(mu)\n}\n\nfunc unlockBucket(mu *uint64) {", 'extra unused helper around unlock')
neg('C13-n02', ['C13'], X+'mapof.go', "\tm.resizeMu.Lock()\n\tfor m.resizeInProgress() {\n\t\tm.resizeCond.Wait()\n\t}\n\tm.resizeMu.Unlock()", "\tm.resizeMu.Lock()\n\tif m.resizeInProgress() {\n\t\tm.resizeCond.Wait()\n\t}\n\tm.resizeMu.Unlock()", 'for -> if around Wait (callers re-validate)')
neg('C13-n03', ['C13'], X+'map.go', "\t\t\tm.resizeMu.Lock()\n\t\t\tatomic.StoreInt64(&m.resizing, 0)\n\t\t\tm.resizeCond.Broadcast()\n\t\t\tm.resizeMu.Unlock()\n\t\t\treturn", "\t\t\tatomic.StoreInt64(&m.resizing, 0)\n\t\t\tm.resizeMu.Lock()\n\t\t\tm.resizeCond.Broadcast()\n\t\t\tm.resizeMu.Unlock()\n\t\t\treturn", 'flag clear alone moved before resizeMu.Lock')
neg('C13-n04', ['C13'], X+'map.go', "\t\tb := rootb\n\t\tfor {\n\t\t\ttopHashes := atomic.LoadUint64(&b.topHashMutex)", "\t\tb := rootb\n\t\truntime.Gosched()\n\t\tfor {\n\t\t\ttopHashes := atomic.LoadUint64(&b.topHashMutex)", 'Gosched under the lock (slow, not stuck)')
neg('C13-n05', ['C13'], X+'mapof.go', "\tswitch hint {\n\tcase mapGrowHint:\n\t\t// Grow the table with factor of 2.\n\t\tatomic.AddInt64(&m.totalGrowths, 1)\n\t\tnewTable = newMapOfTable[K, V](tableLen << 1)\n\tcase mapShrinkHint:", "\tif hint == mapGrowHint {\n\t\t// Grow the table with factor of 2.\n\t\tatomic.AddInt64(&m.totalGrowths, 1)\n\t\tnewTable = newMapOfTable[K, V](tableLen << 1)\n\t} else {\n\tswitch hint {\n\tcase mapShrinkHint:", 'broken-on-purpose syntax guard (should be skipped(no-compile))')

os.makedirs(os.path.dirname(os.path.abspath(__file__)), exist_ok=True)
out = os.path.join(os.path.dirname(os.path.abspath(__file__)), 'catalogue.json')
json.dump(C, open(out, 'w'), indent=1)
print(len(C), 'controls ->', out)

#!/bin/bash
# dev/verify_pair5.sh <Wn> <1|2> [-race]: round 5 pair: clean and buggy both build, vet clean and pass the pinned suite;
# the demo fails with buggyK and passes with cleanK and on the unmodified tree.
export GOFLAGS=-mod=mod GOPROXY=off GOSUMDB=off GOTOOLCHAIN=local; unset GOWORK
id=$1; k=$2; race=$3
src=${ROUND_OUT:-/tmp/w5-out}/$id
res="$id/$k:"
for v in clean buggy; do
  d=$(mktemp -d /tmp/vs.XXXXXX); rsync -a --exclude .git /repo/ $d/; cd $d
  if ! patch -p1 -s -f < $src/$v$k.diff >/dev/null 2>&1; then res="$res $v=PATCHFAIL"; cd /; rm -rf $d; continue; fi
  go build ./... >/dev/null 2>&1 && b=ok || b=FAIL
  go vet . ./internal/... >/dev/null 2>&1 && vt=ok || vt=FAIL
  s1=$(go test -vet=off -count=1 -timeout 10m ./... 2>&1 | grep -v "no test files" | tail -1 | awk '{print $1}')
  cp $src/demo${k}_test.go zz_demo_test.go
  timeout 600 go test $race -vet=off -count=1 -timeout 8m -run 'Demo|demo|TestMut|Test.*Pair|TestBuggy|TestC[0-9]' . >/tmp/vs-$id-$k-$v.log 2>&1; e=$?
  res="$res $v(build=$b vet=$vt suite=$s1 demo_exit=$e)"
  cd /; rm -rf $d
done
d=$(mktemp -d /tmp/vs.XXXXXX); rsync -a --exclude .git /repo/ $d/; cd $d; cp $src/demo${k}_test.go zz_demo_test.go
timeout 600 go test $race -vet=off -count=1 -timeout 8m -run 'Demo|demo|TestMut|Test.*Pair|TestBuggy|TestC[0-9]' . >/tmp/vs-$id-$k-base.log 2>&1; res="$res base(demo_exit=$?)"
cd /; rm -rf $d
echo "$res"

#!/bin/sh
# dev/onrepo.sh <seeded-id>... : apply seeded/<id>/patch.diff to /repo itself, run the filed property's quick check, undo at once;
# appends the result to seeded/ONREPO.txt.
cd /verif
for id in "$@"; do
  p=${id%%-*}
  [ -n "$(git -C /repo status --porcelain)" ] && { echo "/repo not clean" >&2; exit 2; }
  git -C /repo apply /verif/seeded/$id/patch.diff || { echo "$id: apply failed"; continue; }
  ./check $p quick > /tmp/onrepo-$id.log 2>&1; e=$?
  git -C /repo checkout -- . ; git -C /repo clean -fdq
  line="$id: ./check $p quick on /repo with the change applied -> exit=$e, VIOLATION lines=$(grep -c '^VIOLATION' /tmp/onrepo-$id.log)"
  echo "$line"; echo "$line" >> seeded/ONREPO.txt
done

#!/bin/bash
# dev/verify_seed.sh <Cxx> <A|B> : re-verify one sub-agent mutant in a scratch copy of /repo:
# builds, vet clean, existing suite passes with the change, demo fails with the change and passes without.
export GOFLAGS=-mod=mod GOPROXY=off GOSUMDB=off GOTOOLCHAIN=local; unset GOWORK
id=$1; m=$2
src=/tmp/wt-out/$id
d=$(mktemp -d /tmp/vs.XXXXXX)
rsync -a --exclude .git /repo/ $d/
cd $d
res="$id/mut$m:"
if ! patch -p1 -s -f < $src/mut$m.diff >/dev/null 2>&1; then echo "$res PATCH-FAILED"; rm -rf $d; exit; fi
go build ./... >/dev/null 2>&1 && res="$res build=ok" || res="$res build=FAIL"
go vet . ./internal/... >/dev/null 2>&1 && res="$res vet=ok" || res="$res vet=FAIL"
s1=$(go test -vet=off -count=1 -timeout 10m . 2>&1 | tail -1 | cut -c1-40)
res="$res suite=[$s1]"
cp $src/mut${m}_demo_test.go zz_demo_test.go
timeout 300 go test -vet=off -count=1 -timeout 4m -run 'Demo|demo|Mut|mut|C[0-9][0-9]' . >/tmp/vs-$id-$m-with.log 2>&1; w=$?
res="$res demo_with_change_exit=$w"
# without the change
patch -R -p1 -s -f < $src/mut$m.diff >/dev/null 2>&1
timeout 300 go test -vet=off -count=1 -timeout 4m -run 'Demo|demo|Mut|mut|C[0-9][0-9]' . >/tmp/vs-$id-$m-without.log 2>&1; wo=$?
res="$res demo_without_exit=$wo"
echo "$res"
cd /; rm -rf $d

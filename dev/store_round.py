#!/usr/bin/env python3
"""dev/store_round.py <round> <ROUND_OUT> <Wn:k:ID>...
Stores confirmed sub-agent changes of a round ($ROUND_OUT/Wn/chgK.diff, demoK_test.go, metaK.json) as /verif/seeded/<ID>/
(patch.diff, demo_test.go.txt, meta.json) with the detection row of `cachelint matrix` on a scratch copy of /repo.
The confirmation itself is dev/verify_seed8.sh; this script only files what was confirmed."""
import json, os, re, shutil, subprocess, sys, tempfile

rnd, out = int(sys.argv[1]), sys.argv[2]
env = dict(os.environ, GOFLAGS="-mod=mod", GOPROXY="off", GOSUMDB="off", GOTOOLCHAIN="local")
env.pop("GOWORK", None)
origin = os.environ.get("ROUND_ORIGIN", "independent sub-agent given only the text of two properties and its own scratch worktree of /repo")
for spec in sys.argv[3:]:
    w, k, sid = spec.split(":")
    src = os.path.join(out, w)
    meta = json.load(open(os.path.join(src, f"meta{k}.json")))
    diff = os.path.join(src, f"chg{k}.diff")
    d = tempfile.mkdtemp(prefix="mm.", dir="/tmp")
    try:
        subprocess.run(["rsync", "-a", "--exclude", ".git", "/repo/", d + "/"], check=True)
        subprocess.run(["patch", "-p1", "-s", "-f", "-i", diff], cwd=d, check=True, stdout=subprocess.DEVNULL)
        r = subprocess.run(["/verif/bin/cachelint", "matrix", d], env=env, capture_output=True, text=True)
    finally:
        shutil.rmtree(d, ignore_errors=True)
    det = {}
    for line in r.stdout.splitlines():
        m = re.match(r"(C\d\d) FAIL \[([^\]]*)\]", line)
        if m:
            det[m.group(1)] = [x.strip() for x in re.split(r"[, ]+", m.group(2)) if x.strip()]
    files = sorted(set(re.findall(r"^\+\+\+ b/(\S+)", open(diff).read(), re.M)))
    dst = os.path.join("/verif/seeded", sid)
    os.makedirs(dst, exist_ok=True)
    shutil.copy(diff, os.path.join(dst, "patch.diff"))
    shutil.copy(os.path.join(src, f"demo{k}_test.go"), os.path.join(dst, "demo_test.go.txt"))
    json.dump({
        "id": sid, "breaks_property": sid.split("-")[0], "round": rnd, "files": files, "origin": origin,
        "summary": meta.get("summary", ""), "needs_to_manifest": meta.get("needs", ""),
        "demo_file_dir": meta.get("demo_file_dir", "."), "demo_cmd": meta.get("demo_cmd", ""),
        "what_i_ran": f"ROUND_OUT={out} dev/verify_seed8.sh: scratch copy of /repo, patch applied: go build ./... (amd64 and 386) and go vet clean; pinned suite (go test -vet=off -count=1 ./...) passes with the change; demo (copied in as zz_demo_test.go, flags from the author's command) fails with the change and passes without; cachelint matrix for the detection row; then applied to /repo itself (git apply), ./check <property> quick, git checkout -- . (seeded/ONREPO.txt)",
        "detected_by": det,
    }, open(os.path.join(dst, "meta.json"), "w"), indent=1)
    print(sid, "detected_by", det if det else "NOTHING")

#!/bin/bash
# dev/verify_seed8.sh <Wn> <K> : round-8 layout ($ROUND_OUT/Wn/chgK.diff, demoK_test.go, metaK.json with demo_file_dir and demo_cmd).
# Confirms on a scratch copy of /repo: builds (amd64 + 386), vet clean, the pinned suite passes with the change,
# the demo fails with the change and passes without it. DEMOENV / race flags are taken from demo_cmd.
export GOFLAGS=-mod=mod GOPROXY=off GOSUMDB=off GOTOOLCHAIN=local; unset GOWORK
id=$1; k=$2
src=${ROUND_OUT:-/tmp/w8-out}/$id
meta=$src/meta$k.json
dir=$(python3 -c "import json,sys; print(json.load(open('$meta')).get('demo_file_dir','.') or '.')")
cmd=$(python3 -c "import json,sys; print(json.load(open('$meta')).get('demo_cmd',''))")
race=""; case "$cmd" in *-race*) race="-race";; esac
denv=""; case "$cmd" in *GOARCH=386*) denv="GOARCH=386";; esac
cnt=1
d=$(mktemp -d /tmp/vs.XXXXXX)
rsync -a --exclude .git /repo/ $d/
cd $d
res="$id/chg$k:"
if ! git apply --check $src/chg$k.diff >/dev/null 2>&1 && ! patch -p1 -s -f --dry-run < $src/chg$k.diff >/dev/null 2>&1; then echo "$res PATCH-FAILED"; rm -rf $d; exit; fi
patch -p1 -s -f < $src/chg$k.diff >/dev/null 2>&1
go build ./... >/dev/null 2>&1 && res="$res build=ok" || res="$res build=FAIL"
GOARCH=386 go build ./... >/dev/null 2>&1 && res="$res build386=ok" || res="$res build386=FAIL"
go vet . ./internal/... >/dev/null 2>&1 && res="$res vet=ok" || res="$res vet=FAIL"
s1=$(go test -vet=off -count=1 -timeout 10m ./... 2>&1 | grep -v "no test files" | tr '\n' ' ' | cut -c1-90)
res="$res suite=[$s1]"
cp $src/demo${k}_test.go $dir/zz_demo_test.go
timeout 900 env $denv go test $race -vet=off -count=$cnt -timeout 12m -run 'Demo|demo' ./$dir >/tmp/vs8-$id-$k-with.log 2>&1; w=$?
res="$res demo_with_change_exit=$w"
patch -R -p1 -s -f < $src/chg$k.diff >/dev/null 2>&1
timeout 900 env $denv go test $race -vet=off -count=$cnt -timeout 12m -run 'Demo|demo' ./$dir >/tmp/vs8-$id-$k-without.log 2>&1; wo=$?
res="$res demo_without_exit=$wo dir=$dir race=$race env=$denv"
echo "$res"
cd /; rm -rf $d

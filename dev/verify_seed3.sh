#!/bin/bash
# dev/verify_seed3.sh <Wn> <A|B|C|D> [-race] : as verify_seed2.sh for round 3 (ROUND_OUT, DEMOENV=GOARCH=386 for 32-bit demos)
# builds, vet clean, the pinned suite (go test ./...) passes with the change, demo fails with the change and passes without.
export GOFLAGS=-mod=mod GOPROXY=off GOSUMDB=off GOTOOLCHAIN=local; unset GOWORK
id=$1; m=$2; race=$3
src=${ROUND_OUT:-/tmp/w3-out}/$id
d=$(mktemp -d /tmp/vs.XXXXXX)
rsync -a --exclude .git /repo/ $d/
cd $d
res="$id/mut$m:"
if ! patch -p1 -s -f < $src/mut$m.diff >/dev/null 2>&1; then echo "$res PATCH-FAILED"; rm -rf $d; exit; fi
go build ./... >/dev/null 2>&1 && res="$res build=ok" || res="$res build=FAIL"
go vet . ./internal/... >/dev/null 2>&1 && res="$res vet=ok" || res="$res vet=FAIL"
s1=$(go test -vet=off -count=1 -timeout 10m ./... 2>&1 | grep -v "no test files" | tr '\n' ' ' | cut -c1-90)
res="$res suite=[$s1]"
cp $src/mut${m}_demo_test.go zz_demo_test.go
pkgline=$(head -20 zz_demo_test.go | grep '^package ' | awk '{print $2}')
timeout 600 env $DEMOENV go test $race -vet=off -count=1 -timeout 8m -run 'Demo|demo|TestMut' . >/tmp/vs-$id-$m-with.log 2>&1; w=$?
res="$res demo_with_change_exit=$w"
patch -R -p1 -s -f < $src/mut$m.diff >/dev/null 2>&1
timeout 600 env $DEMOENV go test $race -vet=off -count=1 -timeout 8m -run 'Demo|demo|TestMut' . >/tmp/vs-$id-$m-without.log 2>&1; wo=$?
res="$res demo_without_exit=$wo pkg=$pkgline"
echo "$res"
cd /; rm -rf $d

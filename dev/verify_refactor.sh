#!/bin/bash
# dev/verify_refactor.sh <diff> : apply to a scratch copy of /repo, build, vet, run the pinned suite once.
export GOFLAGS=-mod=mod GOPROXY=off GOSUMDB=off GOTOOLCHAIN=local; unset GOWORK
pf=$1
d=$(mktemp -d /tmp/vr.XXXXXX)
rsync -a --exclude .git /repo/ $d/
cd $d
res="$pf:"
if ! patch -p1 -s -f < $pf >/dev/null 2>&1; then echo "$res PATCH-FAILED"; rm -rf $d; exit; fi
go build ./... >/dev/null 2>&1 && res="$res build=ok" || res="$res build=FAIL"
go vet . ./internal/... >/dev/null 2>&1 && res="$res vet=ok" || res="$res vet=FAIL"
s1=$(go test -vet=off -count=1 -timeout 10m . 2>&1 | tail -1 | cut -c1-40)
res="$res suite=[$s1]"
echo "$res"
cd /; rm -rf $d

#!/bin/sh
# dev/mutmatrix.sh <patch.diff>... : apply each patch to a scratch copy of /repo and print which properties' checks report it.
export GOFLAGS=-mod=mod GOPROXY=off GOSUMDB=off GOTOOLCHAIN=local; unset GOWORK
for pf in "$@"; do
  d=$(mktemp -d /tmp/mm.XXXXXX)
  rsync -a --exclude .git /repo/ "$d"/
  if ! (cd "$d" && patch -p1 -s -f < "$pf" >/dev/null 2>&1); then echo "== $pf: PATCH FAILED"; rm -rf "$d"; continue; fi
  echo "== $pf"
  ${CACHELINT_BIN:-/verif/bin/cachelint} matrix "$d" | grep -v ' ok$' | cut -c1-400
  rm -rf "$d"
done

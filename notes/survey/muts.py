import os, shutil, subprocess, sys, json, concurrent.futures as cf
ENV=dict(os.environ, GOFLAGS="-mod=mod", GOPROXY="off", GOSUMDB="off", GOTOOLCHAIN="local")
ENV.pop("GOWORK",None)
M=[]  # (id, prop, file, old, new, nth)
def m(i,prop,f,old,new,nth=0): M.append((i,prop,f,old,new,nth))
X='internal/xsync/'
m('M01','C13',X+'map.go',"\t\t\t\tif del {\n\t\t\t\t\tunlockBucket(&rootb.topHashMutex)\n\t\t\t\t\treturn newValue, false","\t\t\t\tif del {\n\t\t\t\t\treturn newValue, false")
m('M02','C13',X+'mapof.go',"\t\t\t\t\t\tif loadIfExists {\n\t\t\t\t\t\t\trootb.mu.Unlock()\n","\t\t\t\t\t\tif loadIfExists {\n")
m('M03','C13',X+'map.go',"\t\t\tatomic.StoreInt64(&m.resizing, 0)\n\t\t\tm.resizeCond.Broadcast()\n","\t\t\tatomic.StoreInt64(&m.resizing, 0)\n")
m('M04','C14',X+'map.go',"atomic.StorePointer(&b.values[i], nvp)","b.values[i] = nvp")
m('M05','C14',X+'map.go',"func (m *Map) Size() int {\n\ttable := (*mapTable)(atomic.LoadPointer(&m.table))","func (m *Map) Size() int {\n\ttable := (*mapTable)(m.table)")
m('M06','C16',X+'map.go',"func (m *Map) Load(key string) (value interface{}, ok bool) {\n","func (m *Map) Load(key string) (value interface{}, ok bool) {\n\tfor m.resizeInProgress() {\n\t\truntime.Gosched()\n\t}\n")
m('M07','C05',X+'mapof.go',"\t\t\t\t\t\tif loadIfExists {\n\t\t\t\t\t\t\trootb.mu.Unlock()\n","\t\t\t\t\t\tif loadIfExists {\n\t\t\t\t\t\t\tvalueFn(e.value, true)\n\t\t\t\t\t\t\trootb.mu.Unlock()\n")
m('M08','C01','xsync_map.go',"\t\t\t\told := value.(item)\n\t\t\t\tif !old.expired() {","\t\t\t\told := value.(item)\n\t\t\t\tif true {")
m('M09','C01','item.go',"return i.e > 0 && time.Now().UnixNano() > i.e","return i.e > 0 && time.Now().UnixNano() >= i.e")
m('M10','C07','xsync_mapof.go',"\t\ti := v\n\t\tif i.expiredWithNow(now) {\n\t\t\treturn true\n\t\t}\n\t\treturn f(k, i.v)","\t\ti := v\n\t\treturn f(k, i.v)")
m('M11','C02','xsync_mapof.go',"func (c *xsyncMapOf[K, V]) GetAndRefresh(k K, d time.Duration) (V, bool) {\n","func (c *xsyncMapOf[K, V]) GetAndRefresh(k K, d time.Duration) (V, bool) {\n\tif v, ok := c.Get(k); ok {\n\t\tc.Set(k, v, d)\n\t\treturn v, true\n\t} else {\n\t\treturn v, false\n\t}\n}\n\nfunc (c *xsyncMapOf[K, V]) getAndRefreshOld(k K, d time.Duration) (V, bool) {\n")
m('M12','C03',X+'map.go',"if uintptr(vp) == uintptr(atomic.LoadPointer(&b.values[i])) {","if uintptr(vp) != 0 {")
m('M13','C03',X+'map.go',"\t\tif m.resizeInProgress() {\n\t\t\t// Resize is in progress. Wait, then go for another attempt.\n\t\t\tunlockBucket(&rootb.topHashMutex)\n\t\t\tm.waitForResize()\n\t\t\tgoto compute_attempt\n\t\t}\n\t\tif m.newerTableExists(table) {\n\t\t\t// Someone resized the table. Go for another attempt.\n\t\t\tunlockBucket(&rootb.topHashMutex)\n\t\t\tgoto compute_attempt\n\t\t}\n","\t\tif m.newerTableExists(table) {\n\t\t\tunlockBucket(&rootb.topHashMutex)\n\t\t\tgoto compute_attempt\n\t\t}\n\t\tif m.resizeInProgress() {\n\t\t\tunlockBucket(&rootb.topHashMutex)\n\t\t\tm.waitForResize()\n\t\t\tgoto compute_attempt\n\t\t}\n")
m('M14','C04',X+'mapof.go',"\t\t\t\t\t\tnewe := new(entryOf[K, V])\n\t\t\t\t\t\tnewe.key = key\n\t\t\t\t\t\tnewe.value = newv\n\t\t\t\t\t\tatomic.StorePointer(&b.entries[idx], unsafe.Pointer(newe))\n","\t\t\t\t\t\te.value = newv\n")
m('M15','C06','xsync_map.go',"\tv, ok := c.items.LoadAndDelete(k)\n\tif !ok {\n\t\treturn nil, false\n\t}\n\ti := v.(item)\n\tec := c.EvictedCallback()\n\tif ec != nil {\n\t\tec(k, i.v)\n\t}\n","\tec := c.EvictedCallback()\n\tif pv, pok := c.Get(k); pok && ec != nil {\n\t\tec(k, pv)\n\t}\n\tv, ok := c.items.LoadAndDelete(k)\n\tif !ok {\n\t\treturn nil, false\n\t}\n\ti := v.(item)\n")
m('M16','C07',X+'mapof.go',"\t\t\tbentries[j] = zeroPtr\n\t\t}\n\t\tbentries = bentries[:0]\n","\t\t\tbentries[j] = zeroPtr\n\t\t}\n")
m('M17','C08',X+'mapof.go',"\t\t\t\tatomic.StorePointer(&b.next, unsafe.Pointer(newb))\n\t\t\t\trootb.mu.Unlock()\n\t\t\t\ttable.addSize(bidx, 1)\n","\t\t\t\tatomic.StorePointer(&b.next, unsafe.Pointer(newb))\n\t\t\t\trootb.mu.Unlock()\n")
m('M18','C08',X+'map.go',"\t\t\tnewTable.addSizePlain(uint64(i), copied)\n","\t\t\t_ = copied\n")
m('M19','C09','xsync_map.go',"\tif d > 0 {\n\t\te = time.Now().Add(d).UnixNano()","\tif d >= 0 {\n\t\te = time.Now().Add(d).UnixNano()")
m('M20','C09','xsync_mapof.go',"\t\t\t\tvalue.e = c.expiration(d)\n","\t\t\t\t_ = c.expiration(d)\n")
m('M21','C10',X+'mapof.go',"\t\t\t\te := (*entryOf[K, V])(eptr)\n\t\t\t\tif e.key == key {\n\t\t\t\t\treturn e.value, true","\t\t\t\te := (*entryOf[K, V])(eptr)\n\t\t\t\tif true {\n\t\t\t\t\treturn e.value, true")
m('M22','C11',X+'mapof.go',"\trootb.mu.Lock()\n\tfor {\n\t\tfor i := 0; i < entriesPerMapOfBucket; i++ {\n\t\t\tif b.entries[i] != nil {\n\t\t\t\te := (*entryOf[K, V])(b.entries[i])","\trootb.mu.Lock()\n\tfor {\n\t\tfor i := 0; i < entriesPerMapOfBucket-1; i++ {\n\t\t\tif b.entries[i] != nil {\n\t\t\t\te := (*entryOf[K, V])(b.entries[i])")
m('M23','C12','xsync_mapof.go',"\tif ok {\n\t\treturn old.v, true\n\t}\n\treturn i.v, false","\tif ok {\n\t\treturn i.v, true\n\t}\n\treturn i.v, false")
m('M24','C15','xsync_map.go',"\tif cfg.CleanupInterval > 0 {\n\t\tgo func() {","\tcache := &xsyncMapWrapper{c}\n\tif cfg.CleanupInterval > 0 {\n\t\tgo func() {")
m('M25','C16','xsync_map.go',"\ti := v.(item)\n\tif !i.expired() {\n\t\treturn i, true\n\t}\n\n\t// double check or delete","\ti := v.(item)\n\n\t// double check or delete")
m('M26','C11',X+'map.go',"\t\t\thash := hashString(k, destTable.seed)\n\t\t\t\tbidx","XX","") if False else None
m('M27','C13','xsync_mapof.go',"\t\t\tif loaded && !value.expired() {\n\t\t\t\tok = true\n\t\t\t\told = value\n\t\t\t}","\t\t\tif loaded && !value.expired() {\n\t\t\t\tok = true\n\t\t\t\told = value\n\t\t\t\tif ec := c.EvictedCallback(); ec != nil {\n\t\t\t\t\tec(k, old.v)\n\t\t\t\t}\n\t\t\t}")
m('M28','C05',X+'map.go',"\t\trootb := &table.buckets[bidx]\n\t\tlockBucket(&rootb.topHashMutex)\n","\t\trootb := &table.buckets[bidx]\n\t\tvar preV interface{}\n\t\tvar preDel bool\n\t\tif !loadIfExists && !computeOnly {\n\t\t\tpreV, preDel = valueFn(nil, false)\n\t\t}\n\t\t_, _ = preV, preDel\n\t\tlockBucket(&rootb.topHashMutex)\n")
m('M29','C14','xsync_map.go',"\tdefaultExpiration atomic.Value\n","\tdefaultExpiration atomic.Value\n\tdefExp            time.Duration\n")
M=[x for x in M if x]
extra24 = ("\tcache := &xsyncMapWrapper{c}\n\truntime.SetFinalizer(cache,", "\truntime.SetFinalizer(cache,")
extra24b = ("\t\t\t\tcase <-ticker.C:\n\t\t\t\t\tc.DeleteExpired()", "\t\t\t\tcase <-ticker.C:\n\t\t\t\t\tcache.DeleteExpired()")
def run(mut):
    i,prop,f,old,new,nth=mut
    d=f'/tmp/msurvey/{i}'
    shutil.rmtree(d,ignore_errors=True)
    shutil.copytree('/repo',d,ignore=shutil.ignore_patterns('.git'))
    p=os.path.join(d,f); s=open(p).read()
    if s.count(old)<1: return (i,prop,'ANCHOR-MISS',s.count(old))
    s=s.replace(old,new,1)
    if i=='M24':
        for a,b in (extra24,extra24b):
            assert s.count(a)==1,(a,); s=s.replace(a,b)
    open(p,'w').write(s)
    r=subprocess.run(['go','build','./...'],cwd=d,env=ENV,capture_output=True,text=True)
    if r.returncode!=0:
        shutil.rmtree(d); return (i,prop,'NOBUILD',r.stderr.strip().splitlines()[:3])
    r=subprocess.run(['go','vet','.','./internal/...'],cwd=d,env=ENV,capture_output=True,text=True)
    vet='vet-ok' if r.returncode==0 else 'VET:'+(r.stderr.strip().splitlines()[-1] if r.stderr.strip() else '')
    r=subprocess.run(['go','test','-vet=off','-count=1','-timeout','150s','.'],cwd=d,env=ENV,capture_output=True,text=True)
    out=(r.stdout+r.stderr)
    fails=[l.strip() for l in out.splitlines() if l.startswith('--- FAIL') or 'panic:' in l or 'timed out' in l][:3]
    shutil.rmtree(d)
    return (i,prop,'SURVIVES' if r.returncode==0 else 'KILLED',vet,fails)
with cf.ThreadPoolExecutor(8) as ex:
    for res in ex.map(run,M): print(res,flush=True)

#!/usr/bin/env python3
"""Writes MANIFEST.json from the table below (kept in one place so it is always schema-valid)."""
import json, subprocess, os
props = [json.loads(l) for l in open('/verif/properties.jsonl')]
ids = [p['id'] for p in props]
CLAIMS = {
 'C13': dict(text="Static (SSA control-flow x lock automaton, all paths, all constant specialisations of the mode parameters): every internal lock acquired is released on every return path; nothing that waits on another goroutine or re-enters (second bucket lock, resize mutex, Cond.Wait, resize, channel op, visitor/callback) runs under a bucket lock; the resize owner clears the flag then broadcasts (one of them under the waiters' mutex) on every exit; waiters test the flag and Wait in one critical section; closures the cache layer runs under the bucket lock call only the user's compute function. These are necessary conditions of C13, decided for all paths; termination itself (fairness, starvation) is not decided.",
             note="Trusted: go/types + go/ssa (x/tools v0.29.0), documented semantics of sync and sync/atomic, structural recognition of the spin-lock helpers. Not covered: liveness under unfair scheduling, blocking user valueFn (excluded by the property).",
             tech="static analysis: typestate/lockset automaton over SSA CFG with constant specialisation; call-graph effect sets", ref="DESIGN.md §3 C13"),

 'C14': dict(text="Static access-discipline analysis over every memory access in API-reachable code: writes to words that lock-free readers load (slots, meta/top-hash, chain link, table pointer, resize flag, counter stripes) are sync/atomic or go to an object of the current activation that nothing reaching the store has published; plain reads of such words happen only with the bucket lock of the very chain in the must-lockset or on unpublished objects; immutable-after-publication fields are written only before publication; slot pointers are nil or per-call allocations; settings live in atomic.Value with one dynamic type; janitor-shared variables are not written after the go statement; 64-bit atomic operands are aligned under the 386 layout. This decides the mechanism the property anchors (a necessary condition for race freedom of this design), not the race detector's verdict on executions.",
             note="Trusted: go/types + go/ssa, Go memory model for sync/atomic and lock acquire/release ordering, C13.L1 (lock pairing) checked separately. Out of scope: functions unreachable from the public API (Stats), user callbacks and values.",
             tech="static analysis: access-path x lockset x allocation-provenance classification over SSA", ref="DESIGN.md §3 C14"),

 'C16': dict(text="Static effect and loop-shape analysis: the lookup entry points (Load, Size/counter sum, Count) transitively reach no lock, blocking primitive, yield, read of the resize flag, shared write or user call other than the hasher; every loop in them is of an accepted non-waiting kind (bounded scan, chain walk to nil, SWAR scan, snapshot retry that repeats only if two atomic loads of one slot differ); in the load-if-exists mode of the compute core the lock-free lookup precedes every lock acquire and its hit edge returns unlocked; the cache read path reaches a locking map operation only on the expired outcome of an expiry test of the loaded item; the resize copy never writes through its source chain. Necessary conditions for 'reads never wait', decided on all paths; step counts and progress of the snapshot retry under a never-pausing writer are not decided.",
             note="Trusted: go/ssa, a frozen effect table for the standard-library callees the library uses (an unlisted callee fails the rule), hashers assumed non-blocking.",
             tech="static analysis: bottom-up call-graph effect sets, natural-loop classification, specialised CFG precedence and dominance queries", ref="DESIGN.md §3 C16"),

 'C05': dict(text="Static property simulation of the compute core (SSA CFG x call-count/lock/validation automaton) under each constant mode: the user function is called at most once per call across internal retries, exactly once in the unconditional modes, and in the load-if-exists mode exactly on the returns reporting loaded=false; it runs under the validated bucket lock with a truthful loaded flag and its result is committed before the lock is released; API wrappers select the documented mode and adapters call the user's function once; cache get-or-create / read-modify-write methods decide through an atomic read-modify-write of the underlying map, never issue an unconditional mutation after an observation (check-then-act) and never call the user's function outside the per-key section. Necessary conditions of C05 on all paths; serialisation by the lock itself rests on C13/C14/C03.",
             note="Trusted: go/ssa; mode parameters are constants at all call sites (checked); lock correctness from C13/C14.",
             tech="static analysis: typestate automaton over SSA CFG with constant specialisation; check-then-act (TOCTOU) ordering rule", ref="DESIGN.md §3 C05"),
 'C08': dict(text="Static counter-pairing analysis: on every path of the compute core a slot clear is matched by exactly one atomic -1, a slot fill / bucket link by exactly one +1, a replacement by none, always on the table the attempt validated; the resize copy counts each appended entry once and resize adds that count once to the new unpublished table; the clear hint copies nothing into a fresh table; Size sums all stripes of the published table and Count is Size; no counter update exists outside the analysed functions. Necessary conditions for exact counts at quiescence; exactness over histories additionally needs the C03/C04 protocol shape.",
             note="Trusted: go/ssa; structural discovery of counter helpers (by receiver type, body and callers).",
             tech="static analysis: path-sensitive effect pairing over SSA CFG, call-site coverage check", ref="DESIGN.md §3 C08"),
}
checks = []
for i in ids:
    if i in CLAIMS:
        c = CLAIMS[i]
        checks.append(dict(property_id=i, quick_cmd=f"./check {i} quick", thorough_cmd=f"./check {i} thorough",
                           evidence_file=f"/verif/evidence/{i}.json", replay_cmd_template="./check explain {path}",
                           engine="cachelint", level_claimed=dict(category="other", text=c['text'], design_ref=c['ref']),
                           level_note=c['note'], technique=c['tech']))
na = [dict(property_id=i, reason="check not yet built in this session (see DESIGN.md build order); will be claimed through its structural clauses") for i in ids if i not in CLAIMS]
M = dict(version=1,
         setup_cmd="cd /verif/checker && GOFLAGS=-mod=mod GOPROXY=off GOSUMDB=off GOTOOLCHAIN=local go build -o /verif/bin/cachelint ./cmd/cachelint",
         hooks=dict(guard="verif", enable="none needed: the analysis reads /repo's sources (go/packages) and never instruments them",
                    baseline_off_cmd="cd /repo && go test -vet=off -count=1 -timeout 25m ./...", source_commits=[], add_only=True),
         engines=[dict(name="cachelint", path="/verif/checker", serves_properties=sorted(CLAIMS), kind_free_text="repository-specific static analyser over go/packages + go/ssa: CFG x automaton property simulation, access-path/lockset classification, call-graph effects, role/provenance abstract interpretation")],
         checks=checks, not_applicable=na,
         notes="All checks are static: they load and type-check /repo's current working tree on every run and decide rules over SSA/CFG/call graph. See DESIGN.md.")
json.dump(M, open('/verif/MANIFEST.json','w'), indent=1)
print('claimed', sorted(CLAIMS), 'n/a', len(na))
